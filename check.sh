#!/bin/bash
# usage: check.sh <property id> <quick|thorough>
# exit 0 held / 1 violation (VIOLATION line) / 2 tooling failure
cd "$(dirname "$0")"
. ./env.sh
prop="$1"; tier="${2:-${VERIF_TIER:-quick}}"
if [ ! -x bin/pebblevet ] || [ -n "$(find checker -newer bin/pebblevet -name '*.go' -print -quit 2>/dev/null)" ]; then
  ( cd checker && go build -o ../bin/pebblevet ./cmd/pebblevet ) || exit 2
fi
if [ "$tier" = thorough ]; then
  exec python3 tools/thorough.py "$prop"
fi
exec bin/pebblevet -prop "$prop" -tier quick -evidence /verif/evidence -known /verif/known_findings.json
