VARIANTS += [
 V("c34-o1-seterror-wake-after-unlock", "C34", "C34.O1", "internal/cache/read_shard.go",
   "	e.mu.isReading = false\n	if e.mu.ch != nil {\n		select {", "	e.mu.isReading = false\n	e.mu.Unlock()\n	e.mu.Lock()\n	if e.mu.ch != nil {\n		e.mu.Unlock()\n		select {"),
 V("c34-o1-value-stored-after-wake", "C34", "C34.O1", "internal/cache/read_shard.go",
   "	e.mu.v = v\n	if !e.mu.isReading {", "	defer func() { e.mu.v = v }()\n	if !e.mu.isReading {"),
]
VARIANTS += [
 V("c45-t1-default-treats-unknown-kind-as-merge", "C45", "C45.T1", "iterator.go",
   "	case InternalKeyKindMerge:\n		return i.mergeForward(key)\n\n	default:\n		i.err = base.CorruptionErrorf(\"pebble: invalid internal key kind: %d\", errors.Safe(key.Kind()))\n		return false\n	}\n}", "	default:\n		return i.mergeForward(key)\n	}\n}"),
 V("c36-o2-unregister-inside-apply-closure", "C36", "C36.O2", "ingest.go",
   "		ve, manifestUpdateDuration, err = d.ingestApply(ctx, jobID, loadResult, mut, args.ExciseSpan, args.ExciseBoundsPolicy, exciseSeqNum, args.SkipRemoteProbe)\n", "		ve, manifestUpdateDuration, err = d.ingestApply(ctx, jobID, loadResult, mut, args.ExciseSpan, args.ExciseBoundsPolicy, exciseSeqNum, args.SkipRemoteProbe)\n		d.removeFromOngoingExcises(exciseSeqNum)\n"),
]
VARIANTS += [
 V("c17-s1-elided-singledel-consumes-setwithdel", "C17", "C17.S1", "internal/compact/iterator.go",
   "			case base.InternalKeyKindSetWithDelete:\n				// The SingleDelete should behave like a Delete.\n				i.skipInStripe()\n				return\n			case base.InternalKeyKindSet, base.InternalKeyKindMerge:", "			case base.InternalKeyKindSet, base.InternalKeyKindSetWithDelete, base.InternalKeyKindMerge:"),
 V("c01-s1-elided-singledel-consumes-setwithdel", "C01", "C17.S1", "internal/compact/iterator.go",
   "			case base.InternalKeyKindSetWithDelete:\n				// The SingleDelete should behave like a Delete.\n				i.skipInStripe()\n				return\n			case base.InternalKeyKindSet, base.InternalKeyKindMerge:", "			case base.InternalKeyKindSet, base.InternalKeyKindSetWithDelete, base.InternalKeyKindMerge:"),
]
VARIANTS += [
 V("c27-k1-datablock-tag-without-invalidate", "C27", "C27.K1", "sstable/reader_iter_single_lvl.go",
   "	// Ensure the data block iterator is invalidated even if loading of the block\n	// fails.\n	PD(&i.data).Invalidate()\n	i.dataBH = bhp.Handle\n", "	i.dataBH = bhp.Handle\n"),
]
VARIANTS += [
 V("c37-o4-efos-skips-flushable-ingests", "C37", "C37.O4", "snapshot.go",
   "	for i := range d.mu.mem.queue {\n		d.mu.mem.queue[i].computePossibleOverlaps(func(bounded) shouldContinue {\n			isFileOnly = false", "	for i := range d.mu.mem.queue {\n		if _, ok := d.mu.mem.queue[i].flushable.(*ingestedFlushable); ok {\n			continue\n		}\n		d.mu.mem.queue[i].computePossibleOverlaps(func(bounded) shouldContinue {\n			isFileOnly = false"),
]
VARIANTS += [
 V("c40-r1-rejected-ratchet-clears-flag", "C40", "C40.R1", "format_major_version.go",
   "	if d.mu.formatVers.ratcheting {\n		return errors.Newf(\"pebble: database format major version upgrade is in-progress\")\n	}\n	d.mu.formatVers.ratcheting = true\n	defer func() { d.mu.formatVers.ratcheting = false }()\n", "	inProgress := d.mu.formatVers.ratcheting\n	d.mu.formatVers.ratcheting = true\n	defer func() { d.mu.formatVers.ratcheting = false }()\n	if inProgress {\n		return errors.Newf(\"pebble: database format major version upgrade is in-progress\")\n	}\n"),
 V("c07-w1-placeholder-marked-applied-early", "C07", "C06.W1", "commit.go",
   "	p.mu.Unlock()\n\n	// Invoke the apply callback.\n	apply(b.SeqNum())", "	p.mu.Unlock()\n	b.applied.Store(true)\n\n	// Invoke the apply callback.\n	apply(b.SeqNum())"),
]
