VARIANTS += [
 V("c34-o1-seterror-wake-after-unlock", "C34", "C34.O1", "internal/cache/read_shard.go",
   "	e.mu.isReading = false\n	if e.mu.ch != nil {\n		select {", "	e.mu.isReading = false\n	e.mu.Unlock()\n	e.mu.Lock()\n	if e.mu.ch != nil {\n		e.mu.Unlock()\n		select {"),
 V("c34-o1-value-stored-after-wake", "C34", "C34.O1", "internal/cache/read_shard.go",
   "	e.mu.v = v\n	if !e.mu.isReading {", "	defer func() { e.mu.v = v }()\n	if !e.mu.isReading {"),
]
VARIANTS += [
 V("c45-t1-default-treats-unknown-kind-as-merge", "C45", "C45.T1", "iterator.go",
   "	case InternalKeyKindMerge:\n		return i.mergeForward(key)\n\n	default:\n		i.err = base.CorruptionErrorf(\"pebble: invalid internal key kind: %d\", errors.Safe(key.Kind()))\n		return false\n	}\n}", "	default:\n		return i.mergeForward(key)\n	}\n}"),
 V("c36-o2-unregister-inside-apply-closure", "C36", "C36.O2", "ingest.go",
   "		ve, manifestUpdateDuration, err = d.ingestApply(ctx, jobID, loadResult, mut, args.ExciseSpan, args.ExciseBoundsPolicy, exciseSeqNum, args.SkipRemoteProbe)\n", "		ve, manifestUpdateDuration, err = d.ingestApply(ctx, jobID, loadResult, mut, args.ExciseSpan, args.ExciseBoundsPolicy, exciseSeqNum, args.SkipRemoteProbe)\n		d.removeFromOngoingExcises(exciseSeqNum)\n"),
]
VARIANTS += [
 V("c17-s1-elided-singledel-consumes-setwithdel", "C17", "C17.S1", "internal/compact/iterator.go",
   "			case base.InternalKeyKindSetWithDelete:\n				// The SingleDelete should behave like a Delete.\n				i.skipInStripe()\n				return\n			case base.InternalKeyKindSet, base.InternalKeyKindMerge:", "			case base.InternalKeyKindSet, base.InternalKeyKindSetWithDelete, base.InternalKeyKindMerge:"),
 V("c01-s1-elided-singledel-consumes-setwithdel", "C01", "C17.S1", "internal/compact/iterator.go",
   "			case base.InternalKeyKindSetWithDelete:\n				// The SingleDelete should behave like a Delete.\n				i.skipInStripe()\n				return\n			case base.InternalKeyKindSet, base.InternalKeyKindMerge:", "			case base.InternalKeyKindSet, base.InternalKeyKindSetWithDelete, base.InternalKeyKindMerge:"),
]
VARIANTS += [
 V("c27-k1-datablock-tag-without-invalidate", "C27", "C27.K1", "sstable/reader_iter_single_lvl.go",
   "	// Ensure the data block iterator is invalidated even if loading of the block\n	// fails.\n	PD(&i.data).Invalidate()\n	i.dataBH = bhp.Handle\n", "	i.dataBH = bhp.Handle\n"),
]
VARIANTS += [
 V("c37-o4-efos-skips-flushable-ingests", "C37", "C37.O4", "snapshot.go",
   "	for i := range d.mu.mem.queue {\n		d.mu.mem.queue[i].computePossibleOverlaps(func(bounded) shouldContinue {\n			isFileOnly = false", "	for i := range d.mu.mem.queue {\n		if _, ok := d.mu.mem.queue[i].flushable.(*ingestedFlushable); ok {\n			continue\n		}\n		d.mu.mem.queue[i].computePossibleOverlaps(func(bounded) shouldContinue {\n			isFileOnly = false"),
]
VARIANTS += [
 V("c40-r1-rejected-ratchet-clears-flag", "C40", "C40.R1", "format_major_version.go",
   "	if d.mu.formatVers.ratcheting {\n		return errors.Newf(\"pebble: database format major version upgrade is in-progress\")\n	}\n	d.mu.formatVers.ratcheting = true\n	defer func() { d.mu.formatVers.ratcheting = false }()\n", "	inProgress := d.mu.formatVers.ratcheting\n	d.mu.formatVers.ratcheting = true\n	defer func() { d.mu.formatVers.ratcheting = false }()\n	if inProgress {\n		return errors.Newf(\"pebble: database format major version upgrade is in-progress\")\n	}\n"),
 V("c07-w1-placeholder-marked-applied-early", "C07", "C06.W1", "commit.go",
   "	p.mu.Unlock()\n\n	// Invoke the apply callback.\n	apply(b.SeqNum())", "	p.mu.Unlock()\n	b.applied.Store(true)\n\n	// Invoke the apply callback.\n	apply(b.SeqNum())"),
]
VARIANTS += [
 V("c42-f1-second-flush-goroutine", "C42", "C42.F1", "compaction.go",
   "	if d.mu.compact.flushing || d.closed.Load() != nil || d.opts.ReadOnly {\n		return\n	}\n	if len(d.mu.mem.queue) <= 1 {", "	if d.closed.Load() != nil || d.opts.ReadOnly {\n		return\n	}\n	if len(d.mu.mem.queue) <= 1 {"),
 V("c42-f1-loglock-does-not-wait", "C42", "C42.F1", "version_set.go",
   "	for vs.writing {\n		// Note: writerCond.L is DB.mu, so we unlock it while we wait.\n		vs.writerCond.Wait()\n	}\n	vs.writing = true", "	if vs.getFormatMajorVersion == nil {\n		vs.writerCond.Wait()\n	}\n	vs.writing = true"),
]
VARIANTS += [
 V("c36-o3-prepare-skips-flushable-ingests", "C36", "C36.O3", "ingest.go",
   "			m := d.mu.mem.queue[i]\n			m.computePossibleOverlaps(func(b bounded) shouldContinue {", "			m := d.mu.mem.queue[i]\n			if _, ok := m.flushable.(*ingestedFlushable); ok {\n				continue\n			}\n			m.computePossibleOverlaps(func(b bounded) shouldContinue {"),
 V("c37-o4-transition-skips-flushable-ingests", "C37", "C37.O4", "compaction.go",
   "				// NB: computePossibleOverlaps could have false positives, such as if\n", "				if _, ok := d.mu.mem.queue[i].flushable.(*ingestedFlushable); ok {\n					continue\n				}\n				// NB: computePossibleOverlaps could have false positives, such as if\n"),
]
VARIANTS += [
 V("c43-e4-tail-write-overwrites-block-error", "C43", "C43.E4", "record/log_writer.go",
   "	if n := len(data); err == nil && n > 0 {", "	if n := len(data); n > 0 {"),
]
VARIANTS += [
 V("c34-p1-read-entry-leaked-on-error", "C34", "C34.P1", "internal/cache/cache.go",
   "	if err != nil || cv != nil {\n		re.unrefAndTryRemoveFromMap()\n		return cv, ReadHandle{}, errorDuration, waitDuration, false, err\n	}", "	if err != nil {\n		return nil, ReadHandle{}, errorDuration, waitDuration, false, err\n	}\n	if cv != nil {\n		re.unrefAndTryRemoveFromMap()\n		return cv, ReadHandle{}, errorDuration, waitDuration, false, nil\n	}"),
 V("c41-e1-marker-close-error-dropped", "C41", "C41.E1", "objstorage/objstorageprovider/remote.go",
   "	if err == nil {\n		// The object is empty, just close the writer.\n		err = writer.Close()\n	}", "	if err == nil {\n		defer func() { _ = writer.Close() }()\n	}"),
]
VARIANTS += [
 V("c39-p3-newiters-leaks-ref-on-error", "C39", "C39.P3", "file_cache.go",
   "		_ = iters.CloseAll()\n		vRef.Unref()\n		return iterSet{}, err", "		_ = iters.CloseAll()\n		return iterSet{}, err"),
 V("c39-p3-withreader-no-unref", "C39", "C39.P3", "file_cache.go",
   "	defer ref.Unref()\n", ""),
]
VARIANTS += [
 V("c46-s1-split-at-last-equals", "C46", "C46.S1", "options.go",
   "		pos := strings.Index(line, \"=\")\n		if pos < 0 {", "		pos := strings.LastIndex(line, \"=\")\n		if pos < 0 {"),
]
VARIANTS += [
 V("c05-i1-setdeferred-keeps-stale-index", "C05", "C05.I1", "batch.go",
   "	b.prepareDeferredKeyValueRecord(keyLen, valueLen, InternalKeyKindSet)\n	b.deferredOp.index = b.index\n", "	b.prepareDeferredKeyValueRecord(keyLen, valueLen, InternalKeyKindSet)\n"),
 V("c05-i1-rangekey-index-not-assigned", "C05", "C05.I1", "batch.go",
   "		b.deferredOp.index = b.rangeKeyIndex\n", ""),
 V("c05-k2-apply-keeps-stale-rangekey-cache", "C05", "C04.K2", "batch.go",
   "					b.rangeKeys = nil\n					b.rangeKeysSeqNum = 0\n					if b.rangeKeyIndex == nil {", "					if b.rangeKeyIndex == nil {"),
]
VARIANTS += [
 V("c44-v1-handle-block-id-not-from-addvalue", "C44", "C44.V1", "valsep/value_separator.go",
   "			BlockID: handle.BlockID,\n", "			BlockID: blob.BlockID(0),\n"),
 V("c44-v1-reference-id-of-other-writer", "C44", "C44.V1", "valsep/value_separator.go",
   "			ReferenceID: wnm.refID,\n", "			ReferenceID: base.BlobReferenceID(0),\n"),
 V("c44-v1-preserved-length-recomputed", "C44", "C44.V1", "valsep/value_separator.go",
   "			ValueLen:    lv.Fetcher.Attribute.ValueLen,\n		},\n		HandleSuffix: handleSuffix,", "			ValueLen:    uint32(len(lv.ValueOrHandle)),\n		},\n		HandleSuffix: handleSuffix,"),
 V("c44-k1-valblk-tag-before-read", "C44", "C27.K1", "sstable/valblk/reader.go",
   "		vbh, err := f.getBlockHandle(vh.BlockNum)\n		if err != nil {\n			return nil, err\n		}", "		f.valueBlockNum = vh.BlockNum\n		vbh, err := f.getBlockHandle(vh.BlockNum)\n		if err != nil {\n			return nil, err\n		}"),
]
VARIANTS += [
 V("c14-s1-elided-singledel-consumes-setwithdel", "C14", "C17.S1", "internal/compact/iterator.go",
   "			case base.InternalKeyKindSetWithDelete:\n				// The SingleDelete should behave like a Delete.\n				i.skipInStripe()\n				return\n			case base.InternalKeyKindSet, base.InternalKeyKindMerge:", "			case base.InternalKeyKindSet, base.InternalKeyKindSetWithDelete, base.InternalKeyKindMerge:"),
 V("c14-g3-moved-table-made-obsolete", "C14", "C39.G3", "compaction.go",
   "		if _, ok := deletedTables[ve.NewTables[i].Meta.TableNum]; ok {\n			// This file is being moved in this ve to a different level.\n			// Don't mark it as obsolete.\n			continue\n		}\n", ""),
]
VARIANTS += [
 V("c11-o4-seqnum-after-fragments", "C11", "C11.O4", "batch.go",
   "	if b.data != nil {\n		// Note that this sequence number is not correct when this batch has not\n		// been applied since the sequence number has not been assigned yet. The\n		// correct sequence number will be set later. But it is correct when the\n		// batch is being replayed from the WAL.\n		b.seqNum = batch.SeqNum()\n	}\n	var rangeDelOffsets []flushableBatchEntry", "	var rangeDelOffsets []flushableBatchEntry"),
 V("c39-a1-replayed-ingests-not-accumulated", "C39", "C39.A1", "open.go",
   "			flushableIngests = append(flushableIngests, fi...)", "			flushableIngests = fi"),
 V("c17-u1-bytes-equal-on-user-keys", "C17", "C17.U1", "iterator.go",
   "	if !i.equal(i.key, i.iterKV.K.UserKey) {\n		i.pos = iterPosNext\n		return false\n	}", "	if !bytes.Equal(i.key, i.iterKV.K.UserKey) {\n		i.pos = iterPosNext\n		return false\n	}"),
 V("c27-k1-blob-offset-updated-alone", "C27", "C27.K1", "sstable/blob/fetcher.go",
   "		h := cr.indexBlock.dec.BlockHandle(physicalBlockIndex)\n", "		if cr.currentValueBlock.loaded && cr.currentValueBlock.physicalIndex == physicalBlockIndex {\n			cr.currentValueBlock.valueIDOffset = valueIDOffset\n			return nil, nil\n		}\n		h := cr.indexBlock.dec.BlockHandle(physicalBlockIndex)\n"),
]
VARIANTS += [
 V("c42-l4-readstate-loaded-without-lock", "C42", "C42.L4", "read_state.go",
   "	d.readState.RLock()\n	state := d.readState.val\n", "	state := d.readState.val\n	d.readState.RLock()\n"),
]
VARIANTS += [
 V("c42-b1-early-return-keeps-db-mu", "C42", "C42.B1", "db.go",
   "	n := len(compactions)\n	if n == 0 {\n		d.mu.Unlock()\n		return nil\n	}", "	n := len(compactions)\n	if n == 0 {\n		return nil\n	}"),
 V("c42-b1-metrics-keeps-manifest-lock", "C42", "C42.B1", "db.go",
   "	blobStats, _ := d.mu.versions.latest.blobFiles.Stats()\n	d.mu.versions.logUnlock()\n", "	blobStats, _ := d.mu.versions.latest.blobFiles.Stats()\n"),
]
VARIANTS += [
 V("c18-g4-skip-chunk-before-crc", "C18", "C18.G4", "record/record.go",
   "			data := r.buf[r.begin-headerSize+6 : r.end]\n			if checksum != crc.New(data).Value() {", "			if wantFirst && chunkPosition != fullChunkPosition && chunkPosition != firstChunkPosition {\n				continue\n			}\n			data := r.buf[r.begin-headerSize+6 : r.end]\n			if checksum != crc.New(data).Value() {"),
 V("c19-g4-skip-chunk-before-crc", "C19", "C18.G4", "record/record.go",
   "			data := r.buf[r.begin-headerSize+6 : r.end]\n			if checksum != crc.New(data).Value() {", "			if wantFirst && chunkPosition != fullChunkPosition && chunkPosition != firstChunkPosition {\n				continue\n			}\n			data := r.buf[r.begin-headerSize+6 : r.end]\n			if checksum != crc.New(data).Value() {"),
 V("c42-l2-efos-close-takes-dbmu-under-esmu", "C42", "C42.L2", "snapshot.go",
   "func (es *EventuallyFileOnlySnapshot) hasTransitioned() bool {\n	es.mu.Lock()\n	defer es.mu.Unlock()", "func (es *EventuallyFileOnlySnapshot) hasTransitioned() bool {\n	es.mu.Lock()\n	defer es.mu.Unlock()\n	es.db.mu.Lock()\n	es.db.mu.Unlock()"),
 V("c36-n1-overlap-probe-ignores-read-error", "C36", "C43.N1", "internal/overlap/checker.go",
   "		if kv == nil && points.Error() != nil {\n			return false, points.Error()\n		}\n", ""),
]
VARIANTS += [
 V("c47-w1-close-does-not-wait-for-flush", "C47", "C47.W1", "db.go",
   "	for d.mu.compact.compactingCount > 0 || d.mu.compact.downloadingCount > 0 || d.mu.compact.flushing {", "	for d.mu.compact.compactingCount > 0 || d.mu.compact.downloadingCount > 0 {"),
 V("c37-r1-seqnum-read-before-waiting-for-excise", "C37", "C03.R1", "snapshot.go",
   "		snapshotSeqNum = d.mu.versions.visibleSeqNum.Load()\n		// Check if any of the keyRanges overlap with an ongoing", "		if snapshotSeqNum == 0 {\n			snapshotSeqNum = d.mu.versions.visibleSeqNum.Load()\n		}\n		// Check if any of the keyRanges overlap with an ongoing"),
 V("c12-e1-rotation-drops-wal-close-error", "C12", "C10.E1", "db.go",
   "	offset, err := d.mu.log.writer.Close()\n	if err != nil {", "	offset, _ := d.mu.log.writer.Close()\n	var err error\n	if err != nil {"),
]
VARIANTS += [
 V("c34-o1-value-stored-only-for-parked-waiters", "C34", "C34.O1", "internal/cache/read_shard.go",
   "	e.mu.v = v\n	if !e.mu.isReading {\n		panic(errors.AssertionFailedf(\"isReading is false\"))\n	}\n	e.mu.isReading = false\n	if e.mu.ch != nil {", "	if !e.mu.isReading {\n		panic(errors.AssertionFailedf(\"isReading is false\"))\n	}\n	e.mu.isReading = false\n	if e.mu.ch != nil {\n		e.mu.v = v"),
]
VARIANTS += [
 V("c30-o2-help-without-rereading-forward-pointer", "C30", "C30.O2", "internal/arenaskl/skl.go",
   "				prevNextOffset := prev.nextOffset(i)\n				if prevNextOffset == nextOffset {", "				prevNextOffset := prev.nextOffset(i)\n				if prevNextOffset == nextOffset || invalidateSplice {"),
 V("c04-w2-clone-refreshes-the-source", "C04", "C04.W2", "iterator.go",
   "			dbi.batch.batchSeqNum = (base.SeqNum(len(i.batch.batch.data)) | base.SeqNumBatchBit)", "			i.batch.batchSeqNum = (base.SeqNum(len(i.batch.batch.data)) | base.SeqNumBatchBit)\n			dbi.batch.batchSeqNum = i.batch.batchSeqNum"),
]
VARIANTS += [
 V("c07-v1-iterator-reads-at-logseqnum", "C07", "C07.V1", "db.go",
   "			seqNum = d.mu.versions.visibleSeqNum.Load()", "			seqNum = d.mu.versions.logSeqNum.Load()"),
]
