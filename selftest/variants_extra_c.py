VARIANTS += [
 V("c37-o3-transition-only-when-tables-written", "C37", "C37.O3", "compaction.go",
   "		d.mu.versions.metrics.Flush.FlushableMemBytesIn += inputBytes\n		d.maybeTransitionSnapshotsToFileOnlyLocked()\n",
   "		d.mu.versions.metrics.Flush.FlushableMemBytesIn += inputBytes\n		if len(ve.NewTables) > 0 {\n			d.maybeTransitionSnapshotsToFileOnlyLocked()\n		}\n"),
 V("c37-p1-ref-after-handover", "C37", "C37.P1", "compaction.go",
   "		currentVersion.Ref()\n\n		// NB: s.efos.transitionToFileOnlySnapshot could close s, in which\n		// case s.next would be nil. Save it before calling it.\n		next := s.next\n		_ = s.efos.transitionToFileOnlySnapshot(currentVersion)\n",
   "		// NB: s.efos.transitionToFileOnlySnapshot could close s, in which\n		// case s.next would be nil. Save it before calling it.\n		next := s.next\n		_ = s.efos.transitionToFileOnlySnapshot(currentVersion)\n		currentVersion.Ref()\n"),
 V("c37-w1-transition-from-waitforflush", "C37", "C37.W1", "snapshot.go",
   "		earliestUnflushedSeqNum = es.db.getEarliestUnflushedSeqNumLocked()\n	}\n	return nil\n}",
   "		earliestUnflushedSeqNum = es.db.getEarliestUnflushedSeqNumLocked()\n	}\n	if !es.hasTransitioned() {\n		v := es.db.mu.versions.currentVersion()\n		v.Ref()\n		return es.transitionToFileOnlySnapshot(v)\n	}\n	return nil\n}"),
 V("c38-o2-ignore-dir-sync-error", "C38", "C38.O2", "checkpoint.go",
   "	ckErr = dir.Sync()\n	if ckErr != nil {\n		return ckErr\n	}\n	ckErr = dir.Close()\n	dir = nil\n	return ckErr\n}",
   "	_ = dir.Sync()\n	ckErr = dir.Close()\n	dir = nil\n	return ckErr\n}"),
 V("c38-p1-unref-not-deferred", "C38", "C38.P1", "checkpoint.go",
   "	defer current.Unref()\n", "	current.Unref()\n"),
]

VARIANTS += [
 V("c39-w1b-close-enqueues-directly", "C39", "C39.W1b", "db.go",
   "	if len(d.mu.versions.obsoleteTables) > 0 || len(d.mu.versions.obsoleteBlobs) > 0 {\n		d.deleteObsoleteFiles(d.newJobIDLocked())\n	}\n\n	d.mu.Unlock()\n\n	// Wait for all cleaning jobs to finish.",
   "	if len(d.mu.versions.obsoleteTables) > 0 || len(d.mu.versions.obsoleteBlobs) > 0 {\n		d.deletePacer.Enqueue(int(d.newJobIDLocked()), d.mu.versions.obsoleteTables...)\n	}\n\n	d.mu.Unlock()\n\n	// Wait for all cleaning jobs to finish."),
 V("c39-w1c-cleanup-appends-obsolete-tables", "C39", "C39.W1c", "compaction.go",
   "	d.mu.versions.addObsoleteLocked(obsoleteFiles)\n}\n\n// compact1 runs one compaction.",
   "	for _, of := range obsoleteFiles.TableBackings {\n		d.mu.versions.obsoleteTables = append(d.mu.versions.obsoleteTables,\n			d.mu.versions.zombieTables.Extract(of.DiskFileNum).asObsoleteFile(d.mu.versions.fs, base.FileTypeTable, d.dirname))\n	}\n}\n\n// compact1 runs one compaction."),
 V("c39-w1d-blob-rewrite-obsoletes-input", "C39", "C39.W1d", "blob_rewrite.go",
   "		// Update the read state to publish the new version.\n		d.updateReadStateLocked(d.opts.DebugCheck)\n	}\n\n	// Ensure we clean up the blob file we created on failure.",
   "		// Update the read state to publish the new version.\n		d.updateReadStateLocked(d.opts.DebugCheck)\n		d.mu.versions.addObsoleteLocked(manifest.ObsoleteFiles{BlobFiles: []*manifest.PhysicalBlobFile{c.input.Physical}})\n	}\n\n	// Ensure we clean up the blob file we created on failure."),
 V("c40-w1-ratchet-stores-version-itself", "C40", "C40.W1", "format_major_version.go",
   "			d.opts.Logger.Fatalf(\"pebble: successful migration to format version %d never finalized the upgrade\", nextVers)",
   "			d.mu.formatVers.vers.Store(uint64(nextVers))"),
]

VARIANTS += [
 V("c41-o1-list-error-treated-as-no-refs", "C41", "C41.O1", "objstorage/objstorageprovider/remote.go",
   "	otherRefs, err := meta.Remote.Storage.List(sharedObjectRefPrefix(meta), \"\" /* delimiter */)\n	if err != nil {\n		return err\n	}\n	if len(otherRefs) == 0 {",
   "	otherRefs, _ := meta.Remote.Storage.List(sharedObjectRefPrefix(meta), \"\" /* delimiter */)\n	if len(otherRefs) == 0 {"),
 V("c41-o2-failed-origin-check-leaks-ref", "C41", "C41.O2", "objstorage/objstorageprovider/remote_backing.go",
   "			_ = p.sharedUnref(d.meta)\n			// TODO(radu): clean up references previously created in this loop.\n",
   "			// TODO(radu): clean up references previously created in this loop.\n"),
]

VARIANTS += [
 V("c43-e1-copy-blocks-ignores-read-error", "C43", "C43.E1", "sstable/colblk_writer.go",
   "		if err := rh.ReadAt(ctx, buf[:blocksToReadLen], int64(blocks[firstBlockIdx].bh.Offset)); err != nil {\n			return err\n		}\n",
   "		_ = rh.ReadAt(ctx, buf[:blocksToReadLen], int64(blocks[firstBlockIdx].bh.Offset))\n"),
 V("c43-o1-next-ignores-sticky-error", "C43", "C43.O1", "iterator.go",
   "			return i.iterValidityState\n		}\n	}\n	if i.err != nil {\n		return i.iterValidityState\n	}\n	if i.rangeKey != nil {",
   "			return i.iterValidityState\n		}\n	}\n	if i.rangeKey != nil {"),
]

VARIANTS += [
 V("c45-t1-next-point-merge-arm-becomes-default", "C45", "C45.T1", "iterator.go",
   "	case InternalKeyKindMerge:\n		return i.mergeForward(key)\n\n	default:\n		i.err = base.CorruptionErrorf(\"pebble: invalid internal key kind: %d\", errors.Safe(key.Kind()))\n		return false\n	}\n}",
   "	default:\n		// MERGE (and anything else): resolve below.\n	}\n	return i.mergeForward(key)\n}"),
 V("c45-o1-get-reads-seqnum-before-pinning-view", "C45", "C45.O1", "get.go",
   "	readState := d.loadReadState()\n\n	// Determine the seqnum to read at after grabbing the read state (current and\n	// memtables) above.\n	var seqNum base.SeqNum\n	if s != nil {\n		seqNum = s.seqNum\n	} else {\n		seqNum = d.mu.versions.visibleSeqNum.Load()\n	}\n",
   "	var seqNum base.SeqNum\n	if s != nil {\n		seqNum = s.seqNum\n	} else {\n		seqNum = d.mu.versions.visibleSeqNum.Load()\n	}\n	readState := d.loadReadState()\n"),
 V("c45-v1-scan-internal-hides-obsolete-at-max-seqnum", "C45", "C45.V1", "scan_internal.go",
   "	i.opts.IterOptions.snapshotForHideObsoletePoints = i.seqNum\n",
   "	i.opts.IterOptions.snapshotForHideObsoletePoints = base.SeqNumMax\n"),
 V("c47-o1-fscloser-before-objprovider", "C47", "C47.O1", "db.go",
   "	err = firstError(err, d.objProvider.Close())\n\n	// If the options include a closer to 'close' the filesystem, close it.\n	if d.opts.private.fsCloser != nil {\n		d.opts.private.fsCloser.Close()\n	}\n",
   "	// If the options include a closer to 'close' the filesystem, close it.\n	if d.opts.private.fsCloser != nil {\n		d.opts.private.fsCloser.Close()\n	}\n\n	err = firstError(err, d.objProvider.Close())\n"),
]
