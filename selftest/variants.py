"""Seeded self-test variants: each replaces OLD by NEW in one file of /repo (through a
go/packages overlay, never on disk), must still type-check, and must be reported by RULE.
A variant whose OLD text no longer occurs is 'stale' (not a failure)."""

def V(id, prop, rule, file, old, new, count=1):
    return dict(id=id, property=prop, rule=rule, file=file, old=old, new=new, count=count)

VARIANTS = [
 V("c10-o2a-drop-dirsync-check", "C10", "C10.O2a", "wal/standalone_manager.go",
   "if err = m.walDir.Sync(); err != nil {", "if err = m.walDir.Sync(); false {"),
 V("c10-o2a-delete-dirsync", "C10", "C10.O2a", "wal/standalone_manager.go",
   "if err = m.walDir.Sync(); err != nil {", "if err = nil; err != nil {"),
 V("c22-o1a-delete-file-sync", "C22", "C22.O1a", "version_set.go",
   '		if err := vs.manifestFile.Sync(); err != nil {\n			return errors.Wrap(err, "MANIFEST sync failed")\n		}\n		if newManifestFileNum != 0 {',
   '		if newManifestFileNum != 0 {'),
 V("c22-o1a-delete-syncdir", "C22", "C22.O1a", "version_set.go",
   '			if err := vs.manifestMarker.SyncDir(); err != nil {\n				return errors.Wrap(err, "MANIFEST directory sync failed")\n			}', ''),
 V("c22-o1b-nonfatal-manifest-error", "C22", "C22.O1b", "version_set.go",
   '		vs.opts.Logger.Fatalf("%s", err)\n		return 0, err', '		vs.opts.Logger.Errorf("%s", err)'),
 V("c22-o1a-ignore-flush-error", "C22", "C22.O1a", "version_set.go",
   '		if err := vs.manifest.Flush(); err != nil {\n			return errors.Wrap(err, "MANIFEST flush failed")\n		}', '		_ = vs.manifest.Flush()'),
]
