"""Seeded self-test variants: each replaces OLD by NEW in one file of /repo (through a
go/packages overlay, never on disk), must still type-check, and must be reported by RULE.
A variant whose OLD text no longer occurs is 'stale' (not a failure)."""

def V(id, prop, rule, file, old, new, count=1):
    return dict(id=id, property=prop, rule=rule, file=file, old=old, new=new, count=count)

VARIANTS = [
 V("c10-o2a-drop-dirsync-check", "C10", "C10.O2a", "wal/standalone_manager.go",
   "if err = m.walDir.Sync(); err != nil {", "if err = m.walDir.Sync(); false {"),
 V("c10-o2a-delete-dirsync", "C10", "C10.O2a", "wal/standalone_manager.go",
   "if err = m.walDir.Sync(); err != nil {", "if err = nil; err != nil {"),
 V("c22-o1a-delete-file-sync", "C22", "C22.O1a", "version_set.go",
   '		if err := vs.manifestFile.Sync(); err != nil {\n			return errors.Wrap(err, "MANIFEST sync failed")\n		}\n		if newManifestFileNum != 0 {',
   '		if newManifestFileNum != 0 {'),
 V("c22-o1a-delete-syncdir", "C22", "C22.O1a", "version_set.go",
   '			if err := vs.manifestMarker.SyncDir(); err != nil {\n				return errors.Wrap(err, "MANIFEST directory sync failed")\n			}', ''),
 V("c22-o1b-nonfatal-manifest-error", "C22", "C22.O1b", "version_set.go",
   '		vs.opts.Logger.Fatalf("%s", err)\n		return 0, err', '		vs.opts.Logger.Errorf("%s", err)'),
 V("c22-o1a-ignore-flush-error", "C22", "C22.O1a", "version_set.go",
   '		if err := vs.manifest.Flush(); err != nil {\n			return errors.Wrap(err, "MANIFEST flush failed")\n		}', '		_ = vs.manifest.Flush()'),
]

VARIANTS += [
 V("c24-drop-file-sync", "C24", "C24.O1", "vfs/atomicfs/marker.go",
   "	if err := f.Sync(); err != nil {\n		f.Close()\n		return err\n	}\n", ""),
 V("c24-remove-new-marker", "C24", "C24.O1", "vfs/atomicfs/marker.go",
   "	oldFilename := a.filename\n\n	// Create the new marker.", "	// Create the new marker.\n	oldFilename := \"\""),
 V("c24-ignore-dirsync-error", "C24", "C24.O1", "vfs/atomicfs/marker.go",
   "	// Sync the directory to ensure marker movement is synced.\n	if err := a.dirFD.Sync(); err != nil {", "	if err := a.dirFD.Sync(); err != nil && a.iter == 0 {"),
 V("c24-scan-keeps-lowest-iter", "C24", "C24.T1", "vfs/atomicfs/marker.go",
   'if state.filename == "" || state.iter < iter {', 'if state.filename == "" || state.iter > iter {'),
 V("c24-filename-before-create", "C24", "C24.O1", "vfs/atomicfs/marker.go",
   "	oldFilename := a.filename\n", "	oldFilename := a.filename\n	a.filename = dstFilename\n"),
]

VARIANTS += [
 V("c18-skip-crc", "C18", "C18.G1", "record/record.go",
   "			if checksum != crc.New(data).Value() {\n				err := ErrInvalidChunk", "			if checksum != crc.New(data).Value() && length > 0 {\n				err := ErrInvalidChunk"),
 V("c18-skip-lognum-walsync", "C18", "C18.G1", "record/record.go",
   "			if wireFormat == recyclableWireFormat || wireFormat == walSyncWireFormat {\n				if r.end+headerSize > r.n {\n					r.invalidOffset",
   "			if wireFormat == recyclableWireFormat {\n				if r.end+headerSize > r.n {\n					r.invalidOffset"),
 V("c18-accept-older-lognum", "C18", "C18.G1", "record/record.go",
   "				if logNum != r.logNum {\n					// An EOF trailer encodes a log number that is 1 more than the\n					// current log number.\n					if logNum == 1+r.logNum && wantFirst {", "				if logNum > r.logNum {\n					if logNum == 1+r.logNum && wantFirst {"),
 V("c18-forget-invalid-offset", "C18", "C18.O1", "record/record.go",
   "				// The chunk straddles a 32KB boundary (or the end of file).\n				r.invalidOffset = uint64(r.blockNum)*blockSize + uint64(r.begin)\n				return ErrInvalidChunk", "				return ErrInvalidChunk"),
]

VARIANTS += [
 V("c19-s1-reintroduce-F2", "C19", "C19.S1", "wal/reader.go",
   "if errors.Is(err, record.ErrUnexpectedEOF) && r.currIndex < len(r.segments)-1 {", "if record.IsInvalidRecord(err) && r.currIndex < len(r.segments)-1 {"),
 V("c19-s1-replay-tolerates-strict-tail", "C19", "C19.S1", "recovery.go",
   "} else if errors.Is(err, record.ErrUnexpectedEOF) && !strictWALTail {", "} else if errors.Is(err, record.ErrUnexpectedEOF) {"),
 V("c19-s1-replay-tolerates-invalid-chunk", "C19", "C19.S1", "recovery.go",
   "			if errors.Is(err, io.EOF) {\n				break\n			} else if", "			if errors.Is(err, io.EOF) || errors.Is(err, record.ErrInvalidChunk) {\n				break\n			} else if"),
 V("c19-o1-zeroed-bypasses-readahead", "C19", "C19.O1", "record/record.go",
   "	r.err = r.nextChunk(true)\n	if errors.Is(r.err, ErrInvalidChunk) || errors.Is(r.err, ErrZeroedChunk) {", "	r.err = r.nextChunk(true)\n	if errors.Is(r.err, ErrInvalidChunk) {"),
 V("c19-g2-confirm-without-crc", "C19", "C19.G2", "record/record.go",
   "			if checksum != crc.New(r.buf[r.begin-headerSize+6:r.end]).Value() {", "			if length == 0 && checksum != crc.New(r.buf[r.begin-headerSize+6:r.end]).Value() {"),
 V("c19-w1-synced-offset-unconditional", "C19", "C19.W1", "record/log_writer.go",
   "		if synced {\n			// NB: syncedOffset must be advanced", "		if synced || err == nil {\n			// NB: syncedOffset must be advanced"),
]

VARIANTS += [
 V("c40-o1-store-before-marker", "C40", "C40.O1", "format_major_version.go",
   "	if err := d.writeFormatVersionMarker(formatVers); err != nil {\n		return err\n	}\n	d.mu.formatVers.vers.Store(uint64(formatVers))",
   "	d.mu.formatVers.vers.Store(uint64(formatVers))\n	if err := d.writeFormatVersionMarker(formatVers); err != nil {\n		return err\n	}"),
 V("c40-t1-wrong-version-finalized", "C40", "C40.T1", "format_major_version.go",
   "		return d.finalizeFormatVersUpgrade(FormatWALSyncChunks)", "		return d.finalizeFormatVersUpgrade(FormatColumnarBlocks)"),
 V("c40-t1-migration-error-ignored", "C40", "C40.T1", "format_major_version.go",
   "		if err := d.compactMarkedFilesLocked(); err != nil {\n			return err\n		}\n		return d.finalizeFormatVersUpgrade(FormatPrePebblev1MarkedCompacted)",
   "		_ = d.compactMarkedFilesLocked()\n		return d.finalizeFormatVersUpgrade(FormatPrePebblev1MarkedCompacted)"),
 V("c40-o2-allow-downgrade", "C40", "C40.O2", "format_major_version.go",
   "	if currentVers := d.FormatMajorVersion(); currentVers > formatVers {", "	if currentVers := d.FormatMajorVersion(); currentVers > formatVers && d.opts.ReadOnly {"),
 V("c06-o1a-publish-on-apply-error", "C06", "C06.O1a", "commit.go",
   "		// removing the batch from the pending queue.\n		return err\n	}\n\n	// Publish the batch sequence number.\n	p.publish(b)",
   "		// removing the batch from the pending queue.\n		p.publish(b)\n		return err\n	}\n\n	// Publish the batch sequence number.\n	p.publish(b)"),
 V("c06-o2-seqnum-after-queue", "C06", "C06.O2", "db.go",
   "		b.flushable.setSeqNum(b.SeqNum())\n		if !d.opts.DisableWAL {", "		if !d.opts.DisableWAL {"),
 V("c06-w1-store-visible", "C06", "C06.W1", "commit.go",
   "			if p.env.visibleSeqNum.CompareAndSwap(curSeqNum, newSeqNum) {\n				// We successfully published t's sequence number.\n				break\n			}", "			p.env.visibleSeqNum.Store(newSeqNum)\n			break"),
 V("c07-o1-ratchet-removed", "C07", "C07.O1", "commit.go",
   "			if newSeqNum <= curSeqNum {", "			if newSeqNum == curSeqNum {"),
 V("c07-r1-write-outside-mutex", "C07", "C07.R1", "commit.go",
   "	mem, err := p.env.write(b, syncWG, syncErr)\n\n	p.mu.Unlock()", "	p.mu.Unlock()\n\n	mem, err := p.env.write(b, syncWG, syncErr)"),
]

VARIANTS += [
 V("c13-g1-reintroduce-F1", "C13", "C13.G1", "range_keys.go",
   "if i.readState != nil && !i.opts.OnlyReadGuaranteedDurable {", "if i.readState != nil {"),
 V("c13-g1-point-path-unguarded", "C13", "C13.G1", "db.go",
   "	if dbi.opts.OnlyReadGuaranteedDurable {\n		memtables = nil\n	} else {", "	if dbi.opts.OnlyReadGuaranteedDurable && dbi.batch != nil {\n		memtables = nil\n	} else {"),
 V("c13-t1-rangekey-reuse", "C13", "C13.T1", "iterator.go",
   "	reuseRangeKey := i.rangeKey != nil &&\n		i.err == nil &&\n		// If OnlyReadGuaranteedDurable changed, the iterator stack might not include\n		// the correct memtables.\n		o.OnlyReadGuaranteedDurable == i.opts.OnlyReadGuaranteedDurable &&",
   "	reuseRangeKey := i.rangeKey != nil &&\n		i.err == nil &&"),
 V("c13-o1-flag-with-snapshot", "C13", "C13.O1", "db.go",
   "if (batch != nil || seqNum != 0) && (o != nil && o.OnlyReadGuaranteedDurable) {", "if (batch != nil) && (o != nil && o.OnlyReadGuaranteedDurable) {"),
 V("c10-o2b-failover-no-dirsync", "C10", "C10.O2b", "wal/failover_writer.go",
   "		err = dir.Sync()\n", "		err = nil\n"),
 V("c10-o3a-skip-provider-sync", "C10", "C10.O3a", "compaction.go",
   "	if result.Err == nil {\n		result.Err = d.objProvider.Sync()\n	}\n	return result", "	if result.Err == nil && len(result.Tables) > 1 {\n		result.Err = d.objProvider.Sync()\n	}\n	return result"),
 V("c10-o3b-copy-compaction-no-sync", "C10", "C10.O3b", "compaction.go",
   "	if err := d.objProvider.Sync(); err != nil {\n		return nil, compact.Stats{}, []compact.OutputBlob{}, err\n	}\n	deleteOnExit = false", "	deleteOnExit = false"),
 V("c10-o3c-ingest-sync-after-alloc", "C10", "C10.O3c", "ingest.go",
   "	if err := d.objProvider.Sync(); err != nil {\n		if err2 := ingestCleanup(d.objProvider, loadResult.local, nil); err2 != nil {", "	if err := error(nil); err != nil {\n		if err2 := ingestCleanup(d.objProvider, loadResult.local, nil); err2 != nil {"),
 V("c10-o3e-close-without-sync", "C10", "C10.O3e", "objstorage/objstorageprovider/vfs_writable.go",
   "	if err == nil {\n		err = w.file.Sync()\n	}\n	err = firstError(err, w.file.Close())", "	err = firstError(err, w.file.Close())"),
 V("c10-e1-drop-manifest-sync-error", "C10", "C10.E1", "version_set.go",
   '		if err := vs.manifestFile.Sync(); err != nil {\n			return errors.Wrap(err, "MANIFEST sync failed")\n		}\n		if newManifestFileNum != 0 {', '		_ = vs.manifestFile.Sync()\n		if newManifestFileNum != 0 {'),
]

VARIANTS += [
 V("c12-o1-truncate-queue-on-error", "C12", "C12.O1", "compaction.go",
   "	var flushed flushableList\n	if err == nil {\n		flushed = d.mu.mem.queue[:n]", "	var flushed flushableList\n	if err == nil || ingest {\n		flushed = d.mu.mem.queue[:n]"),
 V("c12-o2-capture-after-rotation", "C12", "C12.O2", "db.go",
   "	flushed := d.mu.mem.queue[len(d.mu.mem.queue)-1].flushed\n	err := d.makeRoomForWrite(nil)\n	if err != nil {\n		return nil, err\n	}",
   "	err := d.makeRoomForWrite(nil)\n	if err != nil {\n		return nil, err\n	}\n	flushed := d.mu.mem.queue[len(d.mu.mem.queue)-1].flushed"),
 V("c12-o2-flush-does-not-wait", "C12", "C12.O2", "db.go",
   "	<-flushDone\n	return nil\n}", "	_ = flushDone\n	return nil\n}"),
 V("c12-o3-close-before-sync", "C12", "C12.O3", "record/log_writer.go",
   "	if err == nil && w.s != nil {\n		syncLatency, err = w.syncWithLatency()\n	}\n	f.Lock()", "	if err == nil && w.s != nil && lastQueuedRecord.Index != NoSyncIndex {\n		syncLatency, err = w.syncWithLatency()\n	}\n	f.Lock()"),
 V("c12-v1-watermark-after-sync", "C12", "C12.V1", "objstorage/objstorageprovider/vfs.go",
   "			p.mu.local.hotTier.objChangeCounterLastSync = hot.objChangeCounter", "			p.mu.local.hotTier.objChangeCounterLastSync = p.mu.local.hotTier.objChangeCounter"),
]

VARIANTS += [
 V("c31-t1-reintroduce-F3", "C31", "C31.T1", "batchrepr/reader.go",
   "		base.InternalKeyKindDeleteSized, base.InternalKeyKindExcise, base.InternalKeyKindIngestSSTWithBlobs,\n		base.InternalKeyKindSetWithDelete:", "		base.InternalKeyKindDeleteSized, base.InternalKeyKindExcise, base.InternalKeyKindIngestSSTWithBlobs:"),
 V("c31-t1-batchiter-drops-deletesized", "C31", "C31.T1", "batch.go",
   "		InternalKeyKindDeleteSized, InternalKeyKindSetWithDelete:\n		_, value, ok := batchrepr.DecodeStr(data[keyEnd:])", "		InternalKeyKindSetWithDelete:\n		_, value, ok := batchrepr.DecodeStr(data[keyEnd:])"),
 V("c31-t1-reader-value-for-singledelete", "C31", "C31.T1", "batchrepr/reader.go",
   "	case base.InternalKeyKindSet, base.InternalKeyKindMerge, base.InternalKeyKindRangeDelete,\n		base.InternalKeyKindRangeKeySet,", "	case base.InternalKeyKindSet, base.InternalKeyKindMerge, base.InternalKeyKindRangeDelete, base.InternalKeyKindSingleDelete,\n		base.InternalKeyKindRangeKeySet,"),
 V("c31-o1-kind-range-check-removed", "C31", "C31.O1", "batchrepr/reader.go",
   "	if kind > base.InternalKeyKindMax {", "	if kind > base.InternalKeyKindMax && len(*r) > 1<<20 {"),
]

VARIANTS += [
 V("c23-k4-reintroduce-F4", "C23", "C23.K4", "internal/manifest/version_edit.go",
   "		if customFields || x.Meta.HasRangeKeys {", "		if customFields {"),
 V("c23-k1-decode-drops-tag", "C23", "C23.K1", "internal/manifest/version_edit.go",
   "		case tagPrevLogNumber:", "		case 9999:"),
 V("c23-k2-encode-drops-field", "C23", "C23.K2", "internal/manifest/version_edit.go",
   "	if v.ObsoletePrevLogNum != 0 {\n		e.writeUvarint(tagPrevLogNumber)\n		e.writeUvarint(v.ObsoletePrevLogNum)\n	}", ""),
 V("c23-b1-reintroduce-F11", "C23", "C23.B1", "internal/manifest/version_edit.go",
   "						blobReferences = make([]BlobReference, 0, min(n, 16))", "						blobReferences = make([]BlobReference, 0, n)"),
]

VARIANTS += [
 V("c21-q1-reintroduce-F12", "C21", "C21.Q1", "wal/failover_writer.go",
   "	q.lastTailObservedByProducer = t\n	q.buffer[int(h)%m] = recordQueueEntry{\n		p:          p,\n		opts:       opts,\n		refCount:   refCount,\n		writeStart: writeStart,\n	}\n",
   "	q.buffer[int(h)%m] = recordQueueEntry{\n		p:          p,\n		opts:       opts,\n		refCount:   refCount,\n		writeStart: writeStart,\n	}\n	for i := q.lastTailObservedByProducer; i < t; i++ {\n		q.buffer[int(i)%m] = recordQueueEntry{}\n	}\n	q.lastTailObservedByProducer = t\n"),
 V("c21-g1-pop-on-failed-sync", "C21", "C21.G1", "wal/failover_writer.go",
   "		// LogWriter.\n		return\n	}\n	// NB: harmless after Close returns", "		// LogWriter.\n	}\n	// NB: harmless after Close returns"),
 V("c21-g2-dedup-off-by-one", "C21", "C21.G2", "wal/reader.go",
   "h.SeqNum <= r.lastSeqNum", "h.SeqNum < r.lastSeqNum"),
]

VARIANTS += [
 V("c03-r1-seqnum-before-lock", "C03", "C03.R1", "db.go",
   "	d.mu.Lock()\n	s := &Snapshot{\n		db:     d,\n		seqNum: d.mu.versions.visibleSeqNum.Load(),\n	}",
   "	seq := d.mu.versions.visibleSeqNum.Load()\n	d.mu.Lock()\n	s := &Snapshot{\n		db:     d,\n		seqNum: seq,\n	}"),
 V("c03-r2-snapshot-list-read-unlocked", "C03", "C03.R2", "db.go",
   "	d.mu.snapshots.pushBack(s)\n	d.mu.Unlock()\n	return s", "	d.mu.Unlock()\n	d.mu.snapshots.pushBack(s)\n	return s"),
 V("c03-g1-iterconfig-without-snapshots", "C03", "C03.G1", "compaction.go",
   "		Snapshots:             snapshots,\n", ""),
 V("c03-o1-schedule-before-remove", "C03", "C03.O1", "snapshot.go",
   "	s.db.mu.snapshots.remove(s)\n\n", "	defer s.db.mu.snapshots.remove(s)\n\n"),
 V("c03-v1-snapshot-iter-at-latest", "C03", "C03.V1", "snapshot.go",
   "		snapshot: snapshotIterOpts{seqNum: s.seqNum},", "		snapshot: snapshotIterOpts{},"),
 V("c04-p1-missing-unref", "C04", "C04.P1", "mid_key.go",
   "	defer readState.unref()\n", ""),
 V("c04-o1-seqnum-before-view", "C04", "C04.O1", "get.go",
   "	readState := d.loadReadState()", "	preSeq := d.mu.versions.visibleSeqNum.Load()\n	_ = preSeq\n	readState := d.loadReadState()"),
 V("c04-w1-seqnum-mutated-later", "C04", "C04.W1", "iterator.go",
   "func (i *Iterator) invalidate() {", "func (i *Iterator) invalidate() {\n	i.seqNum = i.seqNum + 0"),
]

VARIANTS += [
 V("c46-k1-parse-drops-key", "C46", "C46.K1", "options.go",
   '			case "wal_bytes_per_sync":', '			case "wal_bytes_per_sync_removed":'),
 V("c46-k3-parsed-into-wrong-field", "C46", "C46.K3", "options.go",
   '			case "l0_compaction_file_threshold":\n				o.L0CompactionFileThreshold, err = strconv.Atoi(value)', '			case "l0_compaction_file_threshold":\n				o.L0CompactionThreshold, err = strconv.Atoi(value)'),
]

VARIANTS += [
 V("c39-p2-reintroduce-F7", "C39", "C39.P2", "blob_rewrite.go",
   "	stats, err := rewriter.Rewrite(ctx)\n	if err != nil {\n		return objMeta, nil, err\n	}", "	stats, err := rewriter.Rewrite(ctx)\n	if err != nil {\n		return objstorage.ObjectMetadata{}, nil, err\n	}"),
 V("c39-w1a-remove-in-compact1", "C39", "C39.W1a", "compaction.go",
   "	d.mu.versions.addObsoleteLocked(obsoleteFiles)\n}", "	d.mu.versions.addObsoleteLocked(obsoleteFiles)\n	for _, of := range obsoleteFiles.TableBackings {\n		_ = d.objProvider.Remove(base.FileTypeTable, of.DiskFileNum)\n	}\n}"),
 V("c39-o1-delete-while-disabled", "C39", "C39.O1", "obsolete_files.go",
   "	if d.mu.fileDeletions.disableCount > 0 {\n		return\n	}\n	_, noRecycle", "	_, noRecycle"),
 V("c39-o1-install-before-zombies", "C39", "C39.O1", "version_set.go",
   "	for _, zb := range zombieBlobs {\n		vs.zombieBlobs.Add(zb)\n	}", "	vs.append(newVersion)\n	for _, zb := range zombieBlobs {\n		vs.zombieBlobs.Add(zb)\n	}"),
 V("c38-o1-seqnum-after-unlock", "C38", "C38.O1", "checkpoint.go",
   "	visibleSeqNum := d.mu.versions.visibleSeqNum.Load()\n\n	// Release the manifest", "	d.mu.versions.logUnlock()\n	visibleSeqNum := d.mu.versions.visibleSeqNum.Load()\n	d.mu.versions.logLock()\n\n	// Release the manifest"),
]

VARIANTS += [
 V("c36-o1-remove-originals-on-error", "C36", "C36.O1", "ingest.go",
   "	d.commit.AllocateSeqNum(seqNumCount, prepare, apply)\n", "	for i := range loadResult.local {\n		_ = d.opts.FS.Remove(loadResult.local[i].local.Path)\n	}\n	d.commit.AllocateSeqNum(seqNumCount, prepare, apply)\n"),
 V("c36-o3-queue-before-wal-write", "C36", "C36.O3", "ingest.go",
   "		err := d.commit.directWrite(b)\n		if err != nil {\n			d.opts.Logger.Fatalf(\"%v\", err)\n		}", "		if err := d.commit.directWrite(b); err != nil {\n			d.opts.Logger.Errorf(\"%v\", err)\n		}"),
 V("c36-r1-register-after-unlock", "C36", "C36.R1", "ingest.go",
   "				d.mu.snapshots.ongoingExcises[seqNum] = args.ExciseSpan\n			}\n			d.mu.Unlock()", "				d.mu.Unlock()\n				d.mu.snapshots.ongoingExcises[seqNum] = args.ExciseSpan\n				d.mu.Lock()\n			}\n			d.mu.Unlock()"),
 V("c37-o1-close-before-store", "C37", "C37.O1", "snapshot.go",
   "	es.mu.vers = vers\n", "	defer func() { es.mu.vers = vers }()\n"),
 V("c37-p3-reintroduce-leak", "C37", "C04.P3", "snapshot.go",
   "	case <-es.closed:\n		vers.UnrefLocked()\n", "	case <-es.closed:\n"),
]

VARIANTS += [
 V("c47-c1-filecache-not-closed", "C47", "C47.C1", "db.go",
   "	err = firstError(err, d.fileCache.Close())\n", ""),
]

VARIANTS += [
 V("c43-n1-reintroduce-F9", "C43", "C43.N1", "excise.go",
   "		} else if err := iters.Point().Error(); err != nil {\n			// A nil KV may indicate an error rather than the absence of point keys;\n			// treating it as the latter would drop the remaining point keys.\n			return err\n		}", "		}"),
 V("c43-n1-reintroduce-F10", "C43", "C43.N1", "sstable/suffix_rewriter.go",
   "	if err := i.Error(); err != nil {\n		return nil, err\n	}\n	if err := rewriteRangeKeyBlockToWriter", "	if err := rewriteRangeKeyBlockToWriter"),
 V("c43-s1-reintroduce-F6", "C43", "C43.S1", "sstable/blob/blob.go",
   "		writable := w.w\n		w.w = nil\n		return writable.Finish()", "		return w.w.Finish()"),
 V("c27-o1-checksum-not-gating", "C27", "C27.O1", "sstable/block/block.go",
   "	if err = ValidateChecksum(r.checksumType, compressed.BlockData(), bh); err != nil {", "	if err = ValidateChecksum(r.checksumType, compressed.BlockData(), bh); err != nil && kind == 0 {"),
 V("c43-o2-failure-not-handled", "C43", "C43.O2", "compaction.go",
   "			if compactErr != nil {\n				d.handleCompactFailure(c, compactErr)\n			}", "			if compactErr != nil && errChannel == nil {\n				d.handleCompactFailure(c, compactErr)\n			}"),
]

VARIANTS += [
 V("c27-v1-suffix-rewriter-fast-path-before-checksum", "C27", "C27.V1", "sstable/suffix_rewriter.go",
   "	if err := block.ValidateChecksum(checksumType, raw, bh); err != nil {\n		return nil, buf, err\n	}\n	algo := block.CompressionIndicator(raw[bh.Length])",
   "	algo := block.CompressionIndicator(raw[bh.Length])\n	if algo == block.NoCompressionIndicator && len(buf) == 0 {\n		return raw[:bh.Length], buf, nil\n	}\n	if err := block.ValidateChecksum(checksumType, raw, bh); err != nil {\n		return nil, buf, err\n	}"),
 V("c27-o2-footer-checksum-skipped", "C27", "C27.O2", "sstable/table.go",
   "			if encodedChecksum != computedChecksum {", "			if encodedChecksum != computedChecksum && format >= TableFormatPebblev7 {"),
 V("c27-o3-cache-failed-read", "C27", "C27.O3", "sstable/block/block.go",
   "	if err != nil {\n		crh.SetReadError(err)\n		return BufferHandle{}, env.maybeReportCorruption(err)\n	}\n	crh.SetReadValue(value.v)", "	crh.SetReadValue(value.v)\n	if err != nil {\n		return BufferHandle{}, env.maybeReportCorruption(err)\n	}"),
]

VARIANTS += [
 V("c11-o1-create-before-close", "C11", "C11.O1", "db.go",
   "		d.opts.Logger.Fatalf(\"pebble: error closing WAL; data loss possible if we continue: %s\", err)", "		d.opts.Logger.Errorf(\"pebble: error closing WAL; data loss possible if we continue: %s\", err)"),
 V("c11-g1-all-wals-lenient", "C11", "C11.G1", "open.go",
   "		strictWALTail := i < len(rs.walsReplay)-1", "		strictWALTail := i < len(rs.walsReplay)-2"),
 V("c11-o3-apply-undecoded-batch", "C11", "C11.O3", "recovery.go",
   "		if err := b.SetRepr(buf.Bytes()); err != nil {\n			return nil, 0, err\n		}", "		_ = b.SetRepr(buf.Bytes())"),
 V("c10-v1-minlog-off-by-one", "C10", "C10.V1", "compaction.go",
   "	minUnflushedLogNum := d.mu.mem.queue[n].logNum", "	minUnflushedLogNum := d.mu.mem.queue[n-1].logNum + 1"),
 V("c10-o5-new-wal-before-flush", "C10", "C10.O5", "open.go",
   "		for d.mu.compact.flushing {\n			d.mu.compact.cond.Wait()\n		}\n", ""),
 V("c10-o5c-options-rename-before-sync", "C10", "C10.O5c", "open.go",
   "		if err := optionsFile.Sync(); err != nil {\n			return nil, errors.CombineErrors(err, optionsFile.Close())\n		}\n", ""),
]

VARIANTS += [
 V("c28-t1-indicator-maps-not-inverse", "C28", "C28.T1", "sstable/block/compression.go",
   "	case MinLZCompressionIndicator:\n		return compression.MinLZ", "	case MinLZCompressionIndicator:\n		return compression.Snappy"),
 V("c28-v1-indicator-from-configured-setting", "C28", "C28.V1", "sstable/block/compressor.go",
   "	return compressionIndicatorFromAlgorithm(setting.Algorithm), out", "	return compressionIndicatorFromAlgorithm(compression.Algorithm(c.minReductionPercent % 4)), out"),
 V("c28-v2-codec-mislabels", "C28", "C28.V2", "internal/compression/minlz.go",
   "	return compressed, Setting{Algorithm: MinLZ, Level: uint8(c.level)}", "	return compressed, Setting{Algorithm: Snappy, Level: uint8(c.level)}"),
]

VARIANTS += [
 V("c34-r1-acquire-outside-lock", "C34", "C34.R1", "internal/cache/clockpro.go",
   "func (c *shard) get(k key, level base.Level, category Category, peekOnly bool) *Value {\n	c.mu.RLock()\n", "func (c *shard) get(k key, level base.Level, category Category, peekOnly bool) *Value {\n	c.mu.RLock()\n	c.mu.RUnlock()\n"),
 V("c34-r1-setvalue-under-read-lock", "C34", "C34.R1", "internal/cache/clockpro.go",
   "func (c *shard) set(k key, value *Value, markAccessed bool) {\n	c.mu.Lock()\n	defer c.mu.Unlock()", "func (c *shard) set(k key, value *Value, markAccessed bool) {\n	c.mu.RLock()\n	defer c.mu.RUnlock()"),
 V("c34-w1-free-without-refcount", "C34", "C34.W1", "internal/cache/value.go",
   "	if v != nil && v.ref.release() {\n		v.free()\n	}", "	if v != nil {\n		v.ref.release()\n		v.free()\n	}"),
 V("c30-o1-publish-before-init", "C30", "C30.O1", "internal/arenaskl/skl.go",
   "			nd.tower[i].init(prevOffset, nextOffset)\n", ""),
 V("c30-w1-plain-store-of-link", "C30", "C30.W1", "internal/arenaskl/node.go",
   "	return n.tower[h].prevOffset.CompareAndSwap(old, val)", "	n.tower[h].prevOffset.Store(val)\n	return true"),
]

VARIANTS += [
 V("c42-l1-queue-read-without-lock", "C42", "C42.L1", "db.go",
   "	d.commit.mu.Lock()\n	defer d.commit.mu.Unlock()\n	d.mu.Lock()\n	defer d.mu.Unlock()\n	flushed := d.mu.mem.queue[len(d.mu.mem.queue)-1].flushed",
   "	d.commit.mu.Lock()\n	defer d.commit.mu.Unlock()\n	flushed := d.mu.mem.queue[len(d.mu.mem.queue)-1].flushed\n	d.mu.Lock()\n	defer d.mu.Unlock()"),
 V("c42-l2-lock-order-inverted", "C42", "C42.L2", "db.go",
   "	d.commit.mu.Lock()\n	defer d.commit.mu.Unlock()\n	d.mu.Lock()\n	defer d.mu.Unlock()\n	flushed := d.mu.mem.queue[len(d.mu.mem.queue)-1].flushed",
   "	d.mu.Lock()\n	defer d.mu.Unlock()\n	d.commit.mu.Lock()\n	defer d.commit.mu.Unlock()\n	flushed := d.mu.mem.queue[len(d.mu.mem.queue)-1].flushed"),
 V("c42-l1-snapshot-count-unlocked", "C42", "C42.L1", "db.go",
   "	d.mu.snapshots.pushBack(s)\n	d.mu.Unlock()\n	return s", "	d.mu.Unlock()\n	d.mu.snapshots.pushBack(s)\n	return s"),
]

VARIANTS += [
 V("c08-t1-rangekeydelete-falls-through", "C08", "C08.T1", "internal/rangekey/coalesce.go",
   "		case base.InternalKeyKindRangeKeyDelete:\n			// Nothing to do.\n		default:\n			return base.CorruptionErrorf(\"pebble: unrecognized range key kind %s\", keys[i].Kind())\n		}", "		default:\n			// Nothing to do.\n		}"),
 V("c08-t2-delrange-into-rangekey-skiplist", "C08", "C08.T2", "mem_table.go",
   "		case InternalKeyKindRangeDelete:\n			err = m.rangeDelSkl.Add(ikey, value)", "		case InternalKeyKindRangeDelete:\n			err = m.rangeKeySkl.Add(ikey, value)"),
 V("c08-s1-unstable-suffix-sort", "C08", "C08.S1", "internal/rangekey/coalesce.go",
   "	slices.SortStableFunc(dst, func(a, b keyspan.Key) int {", "	slices.SortFunc(dst, func(a, b keyspan.Key) int {"),
 V("c39-g3-moved-table-made-obsolete", "C39", "C39.G3", "compaction.go",
   "		if _, ok := deletedTables[ve.NewTables[i].Meta.TableNum]; ok {\n			// This file is being moved in this ve to a different level.\n			// Don't mark it as obsolete.\n			continue\n		}\n", ""),
 V("c22-e2-decoder-wraps-reader-error", "C22", "C22.E2", "internal/manifest/version_edit.go",
   "			return 0, base.CorruptionErrorf(\"pebble: corrupt manifest: failed to read uvarint\")\n		}\n		return 0, err", "			return 0, base.CorruptionErrorf(\"pebble: corrupt manifest: failed to read uvarint\")\n		}\n		return 0, errors.Wrap(err, \"uvarint\")"),
 V("c42-l3-metrics-without-manifest-lock", "C42", "C42.L3", "db.go",
   "	d.mu.versions.logLock()\n	metrics.private.manifestFileSize", "	metrics.private.manifestFileSize"),
 V("c41-e2-reader-wraps-eof", "C41", "C41.E2", "record/record.go",
   "				return ErrUnexpectedEOF\n			}\n			return err\n		}\n		r.begin, r.end, r.n = 0, 0, n", "				return ErrUnexpectedEOF\n			}\n			return errors.Wrap(err, \"record\")\n		}\n		r.begin, r.end, r.n = 0, 0, n"),
 V("c38-e2-reader-wraps-eof", "C38", "C38.E2", "record/record.go",
   "				return ErrUnexpectedEOF\n			}\n			return err\n		}\n		r.begin, r.end, r.n = 0, 0, n", "				return ErrUnexpectedEOF\n			}\n			return errors.Wrap(err, \"record\")\n		}\n		r.begin, r.end, r.n = 0, 0, n"),
 V("c06-o4-invalidate-before-add", "C06", "C06.O4", "mem_table.go",
   "	var ins arenaskl.Inserter\n	var tombstoneCount, rangeKeyCount uint32", "	var ins arenaskl.Inserter\n	var tombstoneCount, rangeKeyCount uint32\n	m.tombstones.invalidate(uint32(batch.countRangeDels))"),
 V("c43-e3-reader-wraps-eof", "C43", "C43.E3", "record/record.go",
   "				return ErrUnexpectedEOF\n			}\n			return err\n		}\n		r.begin, r.end, r.n = 0, 0, n", "				return ErrUnexpectedEOF\n			}\n			return errors.Wrap(err, \"record\")\n		}\n		r.begin, r.end, r.n = 0, 0, n"),
 V("c20-l1-close-flag-outside-lock", "C20", "C20.L1", "record/log_writer.go",
   "	f.Lock()\n	f.close = true\n	f.ready.Signal()\n	f.Unlock()", "	f.close = true\n	f.Lock()\n	f.ready.Signal()\n	f.Unlock()"),
 V("c27-k1-blob-tag-before-read", "C27", "C27.K1", "sstable/blob/fetcher.go",
   "		cr.currentValueBlock.loaded = false\n		var err error", "		cr.currentValueBlock.virtualID = vh.BlockID\n		var err error"),
 V("c27-k1-valblk-tag-before-read", "C27", "C27.K1", "sstable/valblk/reader.go",
   "		vbh, err := f.getBlockHandle(vh.BlockNum)\n		if err != nil {\n			return nil, err\n		}", "		f.valueBlockNum = vh.BlockNum\n		vbh, err := f.getBlockHandle(vh.BlockNum)\n		if err != nil {\n			return nil, err\n		}"),
 V("c18-g3-any-read-error-is-eof", "C18", "C18.G3", "record/record.go",
   "			if err == io.EOF && !wantFirst {\n				r.invalidOffset", "			if !wantFirst {\n				r.invalidOffset"),
 V("c04-k2-apply-keeps-stale-rangekey-cache", "C04", "C04.K2", "batch.go",
   "					b.rangeKeys = nil\n					b.rangeKeysSeqNum = 0\n					if b.rangeKeyIndex == nil {", "					if b.rangeKeyIndex == nil {"),
 V("c04-k2-deferred-rangedel-keeps-stale-cache", "C04", "C04.K2", "batch.go",
   "		b.tombstones = nil\n		b.tombstonesSeqNum = 0\n		// Range deletions are rare", "		// Range deletions are rare"),
 V("c01-o1-seqnum-before-view", "C01", "C01.O1", "get.go",
   "	readState := d.loadReadState()", "	preSeq := d.mu.versions.visibleSeqNum.Load()\n	_ = preSeq\n	readState := d.loadReadState()"),
 V("c01-t1-apply-accepts-unknown-kinds", "C01", "C01.T1", "batch.go",
   "				InternalKeyKindSingleDelete, InternalKeyKindSetWithDelete, InternalKeyKindDeleteSized:\n				// fallthrough\n			default:\n				// Note In some circumstances this might be temporary memory\n				// corruption that can be recovered by discarding the batch and\n				// trying again. In other cases, the batch repr might've been\n				// already persisted elsewhere, and we'll loop continuously\n				// trying to commit the same corrupted batch. The caller is\n				// responsible for distinguishing.\n				return errors.Wrapf(ErrInvalidBatch, \"unrecognized kind %v\", kind)\n			}\n			if b.index != nil {",
   "				InternalKeyKindSingleDelete, InternalKeyKindSetWithDelete:\n				// fallthrough\n			default:\n				// accept\n			}\n			if b.index != nil {"),
 V("c20-o2-tail-write-ignores-error", "C20", "C20.O2", "record/log_writer.go",
   "	if n := len(data); err == nil && n > 0 {", "	if n := len(data); n > 0 {"),
 V("c20-o3-waiter-released-before-error-stored", "C20", "C20.O3", "record/log_writer.go",
   "		*slot.err = err\n		slot.wg = nil\n		slot.err = nil", "		slot.wg = nil"),
 V("c17-g1-zero-seqnum-in-any-stripe", "C17", "C17.G1", "internal/compact/iterator.go",
   "	return i.cfg.IsBottommostDataLayer && snapshotIdx == 0", "	return i.cfg.IsBottommostDataLayer"),
 V("c17-g2-elide-in-non-last-stripe", "C17", "C17.G2", "internal/compact/iterator.go",
   "				if i.curSnapshotIdx == 0 {\n					// If we're at the last snapshot stripe and the tombstone", "				if i.curSnapshotIdx >= 0 {\n					// If we're at the last snapshot stripe and the tombstone"),
 V("c45-p1-reintroduce-F5", "C45", "C45.P1", "scan_internal.go",
   "		return nil, errors.CombineErrors(err, i.Close())\n	}\n\n	// For internal iterators, we skip", "		return nil, err\n	}\n\n	// For internal iterators, we skip"),
]

VARIANTS += [
 V("c31-b1-fast-path-off-by-one", "C31", "C31.B1", "batchrepr/reader.go",
   "		if len(data) == 0 || data[0] >= byte(len(data)) {", "		if len(data) == 0 || data[0] > byte(len(data)) {"),
 V("c31-b1-slow-path-check-removed", "C31", "C31.B1", "batchrepr/reader.go",
   "	if v > uint32(len(data)) {\n		return nil, nil, false\n	}\n	return data[v:], data[:v], true", "	if v > uint32(len(data)) && n > 5 {\n		return nil, nil, false\n	}\n	return data[v:], data[:v], true"),
]

VARIANTS += [
 V("c18-t1-writer-wrong-header-size", "C18", "C18.T1", "record/log_writer.go",
   "	r := copy(b.buf[i+walSyncHeaderSize:], p)", "	r := copy(b.buf[i+recyclableHeaderSize:], p)"),
 V("c18-t1-writer-mixes-wire-formats", "C18", "C18.T1", "record/log_writer.go",
   "			b.buf[i+6] = walSyncMiddleChunkEncoding", "			b.buf[i+6] = recyclableMiddleChunkEncoding"),
 V("c18-t1-table-wrong-size", "C18", "C18.T1", "record/record.go",
   "	walSyncLastChunkEncoding:      {chunkPosition: lastChunkPosition, wireFormat: walSyncWireFormat, headerSize: walSyncHeaderSize},", "	walSyncLastChunkEncoding:      {chunkPosition: lastChunkPosition, wireFormat: walSyncWireFormat, headerSize: recyclableHeaderSize},"),
 V("c18-g2-eof-mid-record", "C18", "C18.G2", "record/record.go",
   "			if !wantFirst || r.end != r.n {", "			if r.end != r.n {"),
]

# Further variants live in variants_extra_*.py (same namespace: they append to VARIANTS).
import glob as _glob, os as _os
for _f in sorted(_glob.glob(_os.path.join(_os.path.dirname(_os.path.abspath(__file__)), "variants_extra_*.py"))):
    exec(compile(open(_f).read(), _f, "exec"))
