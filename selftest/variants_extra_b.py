VARIANTS += [
 V("c21-o1-fastpath-write-before-queue", "C21", "C21.O1", "wal/failover_writer.go",
   "	recordIndex, writer, lastLogSize := ww.q.push(\n",
   "	if lw := ww.logicalOffset.latestWriterInWriteRecord; lw != nil && opts.Done == nil && ref == nil {\n"
   "		ww.psiForWriteRecordBacking = record.PendingSyncIndex{Index: record.NoSyncIndex}\n"
   "		ww.logicalOffset.latestLogSizeInWriteRecord, err = lw.SyncRecordGeneralized(p, &ww.psiForWriteRecordBacking)\n"
   "		ww.logicalOffset.offset += int64(len(p))\n"
   "		return ww.logicalOffset.offset, err\n"
   "	}\n"
   "	recordIndex, writer, lastLogSize := ww.q.push(\n"),
 V("c21-o2-replay-queue-outside-mu", "C21", "C21.O2", "wal/failover_writer.go",
   "			ww.mu.cond.Signal()\n			// NB: snapshotAndSwitchWriter does not block on IO, since\n",
   "			ww.mu.cond.Signal()\n			ww.mu.Unlock()\n			defer ww.mu.Lock()\n			// NB: snapshotAndSwitchWriter does not block on IO, since\n"),
 V("c21-g3-older-writer-acks-last-record", "C21", "C21.G3", "wal/failover_writer.go",
   "_ = w.CloseWithLastQueuedRecord(record.PendingSyncIndex{Index: record.NoSyncIndex})",
   "_ = w.CloseWithLastQueuedRecord(lastRecordIndex)"),
 V("c22-o2-initnewdb-drop-syncdir", "C22", "C22.O2", "version_set.go",
   "		if err = vs.manifestMarker.SyncDir(); err != nil {\n			vs.opts.Logger.Fatalf(\"MANIFEST directory sync failed: %v\", err)\n		}\n",
   ""),
 V("c22-o3-ignore-snapshot-encode-error", "C22", "C22.O3", "version_set.go",
   "	if err := snapshot.Encode(w); err != nil {\n		return err\n	}\n",
   "	_ = snapshot.Encode(w)\n"),
 V("c22-w1-flush-sets-min-unflushed-lognum", "C22", "C22.W1", "compaction.go",
   "		ve.MinUnflushedLogNum = minUnflushedLogNum\n",
   "		ve.MinUnflushedLogNum = minUnflushedLogNum\n		d.mu.versions.minUnflushedLogNum = minUnflushedLogNum\n"),
 V("c22-r1-updatefn-before-loglock", "C22", "C22.R1", "version_set.go",
   "	vs.logLock()\n	defer vs.logUnlockAndInvalidatePickedCompactionCache()\n\n	vu, err := updateFn()\n",
   "	vu, err := updateFn()\n	vs.logLock()\n	defer vs.logUnlockAndInvalidatePickedCompactionCache()\n"),
 V("c27-w1-readfooter-raw-readat", "C27", "C27.W1", "sstable/table.go",
   "	buf, err = block.ReadRaw(ctx, f, readHandle, logger, fileNum, buf, off)\n",
   "	err = f.ReadAt(ctx, buf, off)\n"),
 V("c28-a1-adaptive-returns-retained-buffer", "C28", "C28.A1", "internal/compression/adaptive.go",
   "		return append(dst[:0], bufFast...), fastSetting\n",
   "		return bufFast, fastSetting\n"),
 V("c30-t1-keyisafternode-trailer-order-flipped", "C30", "C30.T1", "internal/arenaskl/skl.go",
   "	return key.Trailer < nd.keyTrailer\n",
   "	return key.Trailer > nd.keyTrailer\n"),
 V("c31-t2-refresh-size-forgets-singledelete", "C31", "C31.T2", "batch.go",
   "		case InternalKeyKindSet, InternalKeyKindDelete, InternalKeyKindMerge, InternalKeyKindSingleDelete, InternalKeyKindSetWithDelete:\n			// fallthrough\n",
   "		case InternalKeyKindSet, InternalKeyKindDelete, InternalKeyKindMerge, InternalKeyKindSetWithDelete:\n			// fallthrough\n"),
 V("c34-o1-wake-waiters-before-publishing-value", "C34", "C34.O1", "internal/cache/read_shard.go",
   "	e.mu.v = v\n	if !e.mu.isReading {\n		panic(errors.AssertionFailedf(\"isReading is false\"))\n	}\n	e.mu.isReading = false\n	if e.mu.ch != nil {\n"
   "		// Inform all waiters so they can use e.mu.v. Not all readers have called\n		// readEntry.waitForReadPermissionOrHandle, and those will also use\n		// e.mu.v.\n		close(e.mu.ch)\n"
   "		// e.mu.ch is non-nil only when there were concurrent requesters. NB: we\n		// can't read e.refCount here since it is protected by e.readShard.mu.\n		concurrentRequesters = true\n	}\n",
   "	if !e.mu.isReading {\n		panic(errors.AssertionFailedf(\"isReading is false\"))\n	}\n	if e.mu.ch != nil {\n		close(e.mu.ch)\n		concurrentRequesters = true\n	}\n	e.mu.v = v\n	e.mu.isReading = false\n"),
 V("c34-o2-set-keeps-old-value-when-same-size", "C34", "C34.O2", "internal/cache/clockpro.go",
   "		// cache entry was a hot or cold page\n		e.setValue(value)\n",
   "		// cache entry was a hot or cold page\n		if e.size != int64(len(value.buf)) {\n			e.setValue(value)\n		}\n"),
 V("c36-o2-unregister-excise-before-publish", "C36", "C36.O2", "ingest.go",
   "	d.commit.ingestSem <- struct{}{}\n	d.commit.AllocateSeqNum(seqNumCount, prepare, apply)\n	<-d.commit.ingestSem\n	if args.ExciseSpan.Valid() && !asFlushable {\n"
   "		// NB: this must happen after the assignedSeqNum has become visible, so\n		// that any concurrent EFOS creation that acquires d.mu after the removal\n		// of this excise gets a visible seqnum after the excise. The\n		// assignedSeqNum becomes visible in AllocateSeqNum.\n"
   "		d.removeFromOngoingExcises(assignedSeqNum)\n	}\n",
   "	d.commit.ingestSem <- struct{}{}\n	if args.ExciseSpan.Valid() && !asFlushable {\n		d.removeFromOngoingExcises(assignedSeqNum)\n	}\n	d.commit.AllocateSeqNum(seqNumCount, prepare, apply)\n	<-d.commit.ingestSem\n"),
 V("c36-p1-release-memtable-ref-before-apply", "C36", "C36.P1", "ingest.go",
   "		ve, manifestUpdateDuration, err = d.ingestApply(",
   "		if mut != nil {\n			// The ingest no longer writes to the mutable memtable.\n			if mut.writerUnref() {\n				d.mu.Lock()\n				d.maybeScheduleFlush()\n				d.mu.Unlock()\n			}\n			mut = nil\n		}\n"
   "		ve, manifestUpdateDuration, err = d.ingestApply("),
 V("c36-w1-replay-relogs-flushable-ingest", "C36", "C36.W1", "recovery.go",
   "	return d.newIngestedFlushableEntry(meta, seqNum, logNum, exciseSpan, blobFiles)\n",
   "	if err := d.handleIngestAsFlushable(meta, seqNum, exciseSpan, blobFiles); err != nil {\n		return nil, err\n	}\n	return d.newIngestedFlushableEntry(meta, seqNum, logNum, exciseSpan, blobFiles)\n"),
 V("c37-o2-efos-transition-on-failed-flush", "C37", "C37.O2", "compaction.go",
   "		d.maybeTransitionSnapshotsToFileOnlyLocked()\n	}\n	// Signal FlushEnd after installing the new readState.",
   "	}\n	d.maybeTransitionSnapshotsToFileOnlyLocked()\n	// Signal FlushEnd after installing the new readState."),
]
