# C26 (table filters): one or more variants per rule.
VARIANTS += [
 V("c26-h1-decoder-hashes-differently", "C26", "C26.H1", "sstable/tablefilters/bloom/bloom.go",
   "	return mayContain(filter, hash(key))", "	return mayContain(filter, hash2(key))\n}\n\nfunc hash2(b []byte) uint32 {\n	if len(b) > 1<<20 {\n		return 0\n	}\n	return hash(b)"),
 V("c26-b1-probe-tests-other-bit", "C26", "C26.B1", "sstable/tablefilters/bloom/bits.go",
   "		val := line[(h>>3)&(cacheLineSize-1)] & (1 << (h & 7)) //gcassert:bce", "		val := line[(h>>3)&(cacheLineSize-1)] & (1 << ((h >> 1) & 7)) //gcassert:bce"),
 V("c26-b1-probe-reads-other-byte", "C26", "C26.B1", "sstable/tablefilters/bloom/bits.go",
   "		val := line[(h>>3)&(cacheLineSize-1)] & (1 << (h & 7)) //gcassert:bce", "		val := line[(h>>4)&(cacheLineSize-1)] & (1 << (h & 7)) //gcassert:bce"),
 V("c26-b1-probe-other-delta", "C26", "C26.B1", "sstable/tablefilters/bloom/bits.go",
   "func (f filterBits) probe(nProbes uint8, h uint32) bool {\n	delta := h>>17 | h<<15 // rotate right 17 bits", "func (f filterBits) probe(nProbes uint8, h uint32) bool {\n	delta := h>>15 | h<<17"),
 V("c26-f1-colblk-skips-filter-for-repeated-prefix", "C26", "C26.F1", "sstable/colblk_writer.go",
   "	if w.filterWriter != nil {\n		w.filterWriter.AddKey(key.UserKey[:eval.kcmp.PrefixLen])\n	}", "	if w.filterWriter != nil && !eval.kcmp.PrefixEqual() {\n		w.filterWriter.AddKey(key.UserKey[:eval.kcmp.PrefixLen])\n	}"),
 V("c26-f1-rowblk-filter-fed-only-on-one-path", "C26", "C26.F1", "sstable/rowblk_writer.go",
   "	w.maybeAddToFilter(key.UserKey)\n	if err := w.dataBlockBuf.dataBlock.AddWithOptionalValuePrefix(", "	if !setHasSameKeyPrefix {\n		w.maybeAddToFilter(key.UserKey)\n	}\n	if err := w.dataBlockBuf.dataBlock.AddWithOptionalValuePrefix("),
 V("c26-f1-rowblk-feeds-suffix", "C26", "C26.F1", "sstable/rowblk_writer.go",
   "		prefix := key[:w.split(key)]\n		w.filterWriter.AddKey(prefix)", "		prefix := key[w.split(key):]\n		w.filterWriter.AddKey(prefix)"),
 V("c26-r1-consults-with-seek-key", "C26", "C26.R1", "sstable/reader_iter_single_lvl.go",
   "		mayContain, i.err = i.bloomFilterMayContain(prefix)", "		mayContain, i.err = i.bloomFilterMayContain(key)"),
 V("c26-t1-single-level-keeps-tsun-after-miss", "C26", "C26.T1", "sstable/reader_iter_single_lvl.go",
   "			flags = flags.DisableTrySeekUsingNext()\n		}\n		i.lastBloomFilterMatched = false\n		// Check prefix bloom filter.", "			_ = flags.DisableTrySeekUsingNext()\n		}\n		i.lastBloomFilterMatched = false\n		// Check prefix bloom filter."),
 V("c26-t1-two-level-keeps-tsun-after-miss", "C26", "C26.T1", "sstable/reader_iter_two_lvl.go",
   "		if !i.lastBloomFilterMatched {\n			// Iterator is not positioned based on last seek.\n			flags = flags.DisableTrySeekUsingNext()\n		}", "		if !i.lastBloomFilterMatched && i.secondLevel.err != nil {\n			// Iterator is not positioned based on last seek.\n			flags = flags.DisableTrySeekUsingNext()\n		}"),
]
# C16 (a pick never includes a table that is already compacting)
VARIANTS += [
 V("c16-p1-auto-pick-ignores-setup-result", "C16", "C16.P1", "compaction_picker.go",
   "	pc.startLevel.files = cInfo.file.Slice()\n\n	if !pc.setupInputs(opts, env.diskAvailBytes, env.inProgressCompactions, pc.startLevel, env.problemSpans) {\n		return nil\n	}", "	pc.startLevel.files = cInfo.file.Slice()\n\n	_ = pc.setupInputs(opts, env.diskAvailBytes, env.inProgressCompactions, pc.startLevel, env.problemSpans)"),
 V("c16-p1-read-pick-refills-after-vetting", "C16", "C16.P1", "compaction_picker.go",
   "	pc.kind = compactionKindRead\n", "	pc.kind = compactionKindRead\n	pc.startLevel.files = overlapSlice\n"),
 V("c16-p2-output-tables-not-vetted", "C16", "C16.P2", "compaction_picker.go",
   "		if !canCompactTables(pc.outputLevel.files, pc.outputLevel.level, problemSpans) {\n			return false\n		}\n", ""),
 V("c16-p2-grown-inputs-not-vetted", "C16", "C16.P2", "compaction_picker.go",
   "	if !canCompactTables(expandedInputLevel, inputLevel.level, problemSpans) {\n		return false\n	}\n", ""),
 V("c16-p2-rectangle-adds-unchecked-table", "C16", "C16.P2", "internal/manifest/l0_sublevels.go",
   "			if f.IsCompacting() {\n				// TODO(bilal): Do a logger.Fatalf instead of a panic, for\n				// cleaner unwinding and error messages.\n				panic(errors.AssertionFailedf(\"expected %s to not be compacting\", f.TableNum))\n			}\n", ""),
 V("c16-p3-compacting-check-skipped-for-l0", "C16", "C16.P3", "compaction_picker.go",
   "	for f := range inputs.All() {\n		if f.IsCompacting() {\n			return false\n		}", "	for f := range inputs.All() {\n		if level > 0 && f.IsCompacting() {\n			return false\n		}"),
 V("c16-p3-compacting-table-skipped-not-rejected", "C16", "C16.P3", "compaction_picker.go",
   "	for f := range inputs.All() {\n		if f.IsCompacting() {\n			return false\n		}", "	for f := range inputs.All() {\n		if f.IsCompacting() {\n			continue\n		}"),
]

VARIANTS += [
 V("c43-v1-hot-watermark-advances-without-hot-sync", "C43", "C43.V1", "objstorage/objstorageprovider/vfs.go",
   "		if hotSynced && p.mu.local.hotTier.objChangeCounterLastSync < hot.objChangeCounter {", "		if p.mu.local.hotTier.objChangeCounterLastSync < hot.objChangeCounter {"),
 V("c12-v1-watermark-claimed-before-dir-sync", "C12", "C12.V1", "objstorage/objstorageprovider/vfs.go",
   "	cold := p.mu.local.coldTier\n	p.mu.Unlock()\n\n	var hotSynced, coldSynced bool", "	cold := p.mu.local.coldTier\n	p.mu.local.coldTier.objChangeCounterLastSync = cold.objChangeCounter\n	p.mu.Unlock()\n\n	var hotSynced, coldSynced bool"),
 V("c10-v2-dir-sync-error-still-recorded", "C10", "C10.V2", "objstorage/objstorageprovider/vfs.go",
   "		if err := p.local.fsDir.Sync(); err != nil {\n			return err\n		}\n		hotSynced = true", "		_ = p.local.fsDir.Sync()\n		hotSynced = true"),
]
# rules added after the fourth seed round
VARIANTS += [
 V("c26-t1-two-level-early-return-ignores-filter-miss", "C26", "C26.T1", "sstable/reader_iter_two_lvl.go",
   "	if flags.TrySeekUsingNext() && !filterUsedAndDidNotMatch &&\n", "	_ = filterUsedAndDidNotMatch\n	if flags.TrySeekUsingNext() &&\n"),
 V("c40-v1-marking-migration-reads-version-before-manifest-lock", "C40", "C40.V1", "format_major_version.go",
   "	_, err := d.mu.versions.UpdateVersionLocked(func() (versionUpdate, error) {\n		vers := d.mu.versions.currentVersion()\n		found, files, err := findFn(vers)", "	versBefore := d.mu.versions.currentVersion()\n	_, err := d.mu.versions.UpdateVersionLocked(func() (versionUpdate, error) {\n		vers := versBefore\n		found, files, err := findFn(vers)"),
 V("c42-v1-ingest-apply-reads-version-before-manifest-lock", "C42", "C42.V1", "ingest.go",
   "	manifestUpdateDuration, err := d.mu.versions.UpdateVersionLocked(func() (versionUpdate, error) {\n		if mut != nil {", "	currentBefore := d.mu.versions.currentVersion()\n	manifestUpdateDuration, err := d.mu.versions.UpdateVersionLocked(func() (versionUpdate, error) {\n		_ = currentBefore.Levels[0].Len()\n		if mut != nil {"),
 V("c45-v1-efos-scan-drops-seqnum-when-file-only", "C45", "C45.V1", "snapshot.go",
   "		sOpts = snapshotIterOpts{\n			seqNum: es.seqNum,\n			vers:   es.mu.vers,\n		}", "		sOpts = snapshotIterOpts{\n			vers: es.mu.vers,\n		}"),
 V("c37-v1-efos-newiter-drops-seqnum-when-file-only", "C37", "C37.V1", "snapshot.go",
   "		sOpts := snapshotIterOpts{seqNum: es.seqNum, vers: es.mu.vers}", "		sOpts := snapshotIterOpts{vers: es.mu.vers}"),
 V("c03-v1-efos-scan-drops-seqnum-before-transition", "C03", "C03.V1", "snapshot.go",
   "		sOpts = snapshotIterOpts{\n			seqNum: es.seqNum,\n		}", "		sOpts = snapshotIterOpts{}"),
 V("c05-s1-batchiter-last-keeps-prefix-gate", "C05", "C05.S1", "batch.go",
   "func (i *batchIter) Last() *base.InternalKV {\n	i.err = nil // clear cached iteration error\n	i.prefix = nil\n", "func (i *batchIter) Last() *base.InternalKV {\n	i.err = nil // clear cached iteration error\n"),
 V("c05-s1-flushable-seeklt-keeps-prefix-gate", "C05", "C05.S1", "batch.go",
   "func (i *flushableBatchIter) SeekLT(key []byte, flags base.SeekLTFlags) *base.InternalKV {\n	i.err = nil // clear cached iteration error\n	i.prefix = nil\n", "func (i *flushableBatchIter) SeekLT(key []byte, flags base.SeekLTFlags) *base.InternalKV {\n	i.err = nil // clear cached iteration error\n"),
 V("c16-p4-intra-l0-stacks-through-intra-compacting-file", "C16", "C16.P4", "internal/manifest/l0_sublevels.go",
   "		sl := f2s.subLevel\n		if f2.IsCompacting() {\n			break\n		}", "		sl := f2s.subLevel\n		if f2.IsCompacting() && !f2.IsIntraL0Compacting {\n			break\n		}"),
 V("c16-p4-extend-files-ignores-compacting", "C16", "C16.P4", "internal/manifest/l0_sublevels.go",
   "		if f.IsCompacting() {\n			return false\n		}\n		// Skip over files that are newer than earliestUnflushedSeqNum.", "		// Skip over files that are newer than earliestUnflushedSeqNum."),
]
VARIANTS += [
 V("c16-p4-reintroduce-F14", "C16", "C16.P4", "internal/manifest/l0_sublevels.go",
   "		if f2.IsCompacting() {\n			// A file stacked above the seed is part of an in-progress intra-L0\n			// compaction (the interval is not base compacting). The candidate\n			// cannot grow past it; fall back to the last successful candidate.\n			break\n		}\n", ""),
]
# C15 (recorded sequence range and bounds contain the contents; writer side)
VARIANTS += [
 V("c15-m1-colblk-point-seqnum-not-recorded", "C15", "C15.M1", "sstable/colblk_writer.go",
   "	w.meta.updateSeqNum(key.SeqNum())\n	if !w.meta.HasPointKeys {", "	if !w.meta.HasPointKeys {"),
 V("c15-m1-rowblk-rangekey-seqnum-not-recorded", "C15", "C15.M1", "sstable/rowblk_writer.go",
   "	// TODO(travers): Consider tracking range key seqnums separately.\n	w.meta.updateSeqNum(key.SeqNum())\n", "	// TODO(travers): Consider tracking range key seqnums separately.\n"),
 V("c15-m1-rowblk-tombstone-seqnum-only-for-first", "C15", "C15.M1", "sstable/rowblk_writer.go",
   "	w.meta.updateSeqNum(key.SeqNum())\n\n	// Range tombstones are fragmented in the v2 range deletion block format,", "	if w.props.NumRangeDeletions == 0 {\n		w.meta.updateSeqNum(key.SeqNum())\n	}\n\n	// Range tombstones are fragmented in the v2 range deletion block format,"),
 V("c15-m1-encodespan-skips-some-keys", "C15", "C15.M1", "sstable/colblk_writer.go",
   "	for _, k := range span.Keys {\n		w.meta.updateSeqNum(k.SeqNum())\n	}", "	for _, k := range span.Keys {\n		if k.Kind() == base.InternalKeyKindRangeKeyUnset {\n			continue\n		}\n		w.meta.updateSeqNum(k.SeqNum())\n	}"),
 V("c15-m1-rowblk-point-records-other-seqnum", "C15", "C15.M1", "sstable/rowblk_writer.go",
   "	w.meta.updateSeqNum(key.SeqNum())\n\n	if !w.meta.HasPointKeys {", "	w.meta.updateSeqNum(w.meta.SeqNums.Low)\n\n	if !w.meta.HasPointKeys {"),
 V("c15-m2-colblk-smallest-point-guard-inverted", "C15", "C15.M2", "sstable/colblk_writer.go",
   "	if !w.meta.HasPointKeys {\n		w.meta.SetSmallestPointKey(key.Clone())\n	}", "	if w.meta.HasPointKeys {\n		w.meta.SetSmallestPointKey(key.Clone())\n	}"),
 V("c15-m2-colblk-largest-point-not-always-recorded", "C15", "C15.M2", "sstable/colblk_writer.go",
   "	w.meta.SetLargestPointKey(base.InternalKey{\n		UserKey: w.lastKeyBuf,\n		Trailer: lastKey.Trailer,\n	})\n", "	if len(separator) > 0 {\n		w.meta.SetLargestPointKey(base.InternalKey{\n			UserKey: w.lastKeyBuf,\n			Trailer: lastKey.Trailer,\n		})\n	}\n"),
 V("c15-m2-colblk-rangedel-largest-not-recorded", "C15", "C15.M2", "sstable/colblk_writer.go",
   "		w.meta.SetSmallestRangeDelKey(sm)\n		w.meta.SetLargestRangeDelKey(la)\n", "		w.meta.SetSmallestRangeDelKey(sm)\n		_ = la\n"),
 V("c15-m2-rowblk-rangekey-largest-not-recorded", "C15", "C15.M2", "sstable/rowblk_writer.go",
   "		k := base.MakeExclusiveSentinelKey(kind, endKey).Clone()\n		w.meta.SetLargestRangeKey(k)\n", "		k := base.MakeExclusiveSentinelKey(kind, endKey).Clone()\n		_ = k\n"),
]
# C29 (virtual tables stay inside their bounds)
VARIANTS += [
 V("c29-v1-createreader-drops-virtual-params", "C29", "C29.V1", "file_cache.go",
   "		env.Virtual = meta.VirtualParams\n		env.IsSharedIngested = v.isShared && meta.SyntheticSeqNum() != 0\n	}\n	env.InternalBounds", "		env.IsSharedIngested = v.isShared && meta.SyntheticSeqNum() != 0\n	}\n	env.InternalBounds"),
 V("c29-v1-withreader-virtual-params-only-if-shared", "C29", "C29.V1", "file_cache.go",
   "		env.Virtual = meta.VirtualParams\n		env.IsSharedIngested = v.isShared && meta.SyntheticSeqNum() != 0\n	}\n\n	return fn(r, env)", "		if v.isShared {\n			env.Virtual = meta.VirtualParams\n		}\n		env.IsSharedIngested = v.isShared && meta.SyntheticSeqNum() != 0\n	}\n\n	return fn(r, env)"),
 V("c29-b1-setbounds-constrains-only-lower", "C29", "C29.B1", "sstable/reader_iter_single_lvl.go",
   "		i.endKeyInclusive, lower, upper = i.readEnv.Virtual.ConstrainBounds(\n			lower, upper, false, i.reader.Comparer.Compare,\n		)", "		i.endKeyInclusive, lower, _ = i.readEnv.Virtual.ConstrainBounds(\n			lower, upper, false, i.reader.Comparer.Compare,\n		)"),
 V("c29-b1-init-overwrites-constrained-upper", "C29", "C29.B1", "sstable/reader_iter_single_lvl.go",
   "		i.endKeyInclusive, i.lower, i.upper = opts.Env.Virtual.ConstrainBounds(opts.Lower, opts.Upper, false /* endInclusive */, r.Comparer.Compare)\n	}\n", "		i.endKeyInclusive, i.lower, i.upper = opts.Env.Virtual.ConstrainBounds(opts.Lower, opts.Upper, false /* endInclusive */, r.Comparer.Compare)\n	}\n	i.upper = opts.Upper\n"),
 V("c29-b1-bounds-written-elsewhere", "C29", "C29.B1", "sstable/reader_iter_single_lvl.go",
   "func (i *singleLevelIterator[I, PI, P, PD]) SetContext(ctx context.Context) {\n	i.ctx = ctx\n", "func (i *singleLevelIterator[I, PI, P, PD]) SetContext(ctx context.Context) {\n	i.ctx = ctx\n	i.upper = nil\n"),
 V("c29-b2-rangedel-iter-not-truncated-when-shared", "C29", "C29.B2", "sstable/reader.go",
   "	i := keyspan.MaybeAssert(iter, r.Comparer.Compare)\n	if env.Virtual != nil {\n		i = keyspan.Truncate(", "	i := keyspan.MaybeAssert(iter, r.Comparer.Compare)\n	if env.Virtual != nil && !env.IsSharedIngested {\n		i = keyspan.Truncate("),
 V("c29-b2-rangekey-iter-truncated-to-other-bounds", "C29", "C29.B2", "sstable/reader.go",
   "		i = keyspan.Truncate(\n			r.Comparer.Compare, i,\n			base.UserKeyBoundsFromInternal(env.Virtual.Lower, env.Virtual.Upper),\n		)\n	}\n	return i, nil\n}\n\n// noReadHandle", "		i = keyspan.Truncate(\n			r.Comparer.Compare, i,\n			base.UserKeyBoundsFromInternal(env.InternalBounds.Smallest(), env.InternalBounds.Largest()),\n		)\n	}\n	return i, nil\n}\n\n// noReadHandle"),
]
# C09 (range-key masking: state-machine clauses)
VARIANTS += [
 V("c09-m1-filter-suffix-sent-only-for-first-span", "C09", "C09.M1", "range_keys.go",
   "	if m.maskSpan != nil && m.parent.opts.RangeKeyMasking.Filter != nil {", "	if m.maskSpan != nil && m.parent.opts.RangeKeyMasking.Filter != nil && !m.parent.rangeKey.stale {"),
 V("c09-m1-suffix-changed-after-filter-update", "C09", "C09.M1", "range_keys.go",
   "		if err != nil {\n			m.parent.err = err\n		}\n	}\n	// If no span is active, we leave the inner block-property filter configured", "		if err != nil {\n			m.parent.err = err\n		}\n		m.maskActiveSuffix = m.maskActiveSuffix[:len(m.maskActiveSuffix):len(m.maskActiveSuffix)]\n	}\n	// If no span is active, we leave the inner block-property filter configured"),
 V("c09-m2-filter-consulted-without-active-mask", "C09", "C09.M2", "range_keys.go",
   "func (m *rangeKeyMasking) Intersects(prop []byte) (bool, error) {\n	if m.maskSpan == nil {", "func (m *rangeKeyMasking) Intersects(prop []byte) (bool, error) {\n	if m.maskSpan == nil && len(m.maskActiveSuffix) == 0 {"),
 V("c09-m3-point-skipped-without-active-mask", "C09", "C09.M3", "range_keys.go",
   "	if m.maskSpan == nil {\n		// No range key is currently acting as a mask, so don't skip.\n		return false\n	}", "	if m.maskSpan == nil && len(m.maskActiveSuffix) == 0 {\n		// No range key is currently acting as a mask, so don't skip.\n		return false\n	}"),
]
# C33 (merging iterator: tombstone visibility and level coverage)
VARIANTS += [
 V("c33-t1-next-entry-deleted-by-invisible-tombstone", "C33", "C33.T1", "merging_iter.go",
   "		if l.tombstone.VisibleAt(m.snapshot) && m.heap.cmp(l.tombstone.Start, item.iterKV.K.UserKey) <= 0 {", "		if m.heap.cmp(l.tombstone.Start, item.iterKV.K.UserKey) <= 0 {"),
 V("c33-t1-prev-entry-covered-at-other-seqnum", "C33", "C33.T1", "merging_iter.go",
   "			if l.tombstone.CoversAt(m.snapshot, item.iterKV.SeqNum()) {\n				if err := m.prevEntry(item); err != nil {", "			if l.tombstone.CoversAt(base.SeqNumMax, item.iterKV.SeqNum()) {\n				if err := m.prevEntry(item); err != nil {"),
 V("c33-t1-seekge-skips-past-invisible-tombstone", "C33", "C33.T1", "merging_iter.go",
   "			if l.tombstone != nil && l.tombstone.VisibleAt(m.snapshot) && m.heap.cmp(l.tombstone.Start, key) <= 0 {", "			if l.tombstone != nil && m.heap.cmp(l.tombstone.Start, key) <= 0 {"),
 V("c33-t1-seeklt-skips-past-invisible-tombstone", "C33", "C33.T1", "merging_iter.go",
   "			if l.tombstone != nil && l.tombstone.VisibleAt(m.snapshot) &&\n				m.heap.cmp(key, l.tombstone.End) <= 0 {", "			if l.tombstone != nil &&\n				m.heap.cmp(key, l.tombstone.End) <= 0 {"),
 V("c33-l1-last-skips-levels-without-rangedels", "C33", "C33.L1", "merging_iter.go",
   "		l := &m.levels[i]\n		l.iterKV = l.iter.Last()", "		l := &m.levels[i]\n		if l.rangeDelIter == nil && i > 0 && m.levels[i-1].iterKV != nil {\n			continue\n		}\n		l.iterKV = l.iter.Last()"),
 V("c33-l1-heap-ignores-some-levels", "C33", "C33.L1", "merging_iter.go",
   "	for i := range m.levels {\n		if l := &m.levels[i]; l.iterKV != nil {\n			m.heap.items = append(", "	for i := range m.levels {\n		if m.levels[i].tombstone != nil {\n			continue\n		}\n		if l := &m.levels[i]; l.iterKV != nil {\n			m.heap.items = append("),
]
VARIANTS += [
 V("c29-b3-two-level-prefix-seek-not-clamped", "C29", "C29.B3", "sstable/reader_iter_two_lvl.go",
   "		if i.secondLevel.cmp(key, i.secondLevel.lower) < 0 {\n			key = i.secondLevel.lower\n		}\n	}\n	// If there's a maximum suffix property configured", "		_ = key\n	}\n	// If there's a maximum suffix property configured"),
 V("c29-b3-single-level-seeklt-not-clamped", "C29", "C29.B3", "sstable/reader_iter_single_lvl.go",
   "		cmp := i.cmp(key, i.upper)\n		// key == i.upper is fine. We'll do the right thing and return the\n		// first internal key with user key < key.\n		if cmp > 0 {\n			// Return the last key in the virtual sstable.", "		cmp := i.cmp(key, i.lower)\n		// key == i.upper is fine. We'll do the right thing and return the\n		// first internal key with user key < key.\n		if cmp > 0 {\n			// Return the last key in the virtual sstable."),
]
VARIANTS += [
 V("c15-n1-excise-bounds-ignore-read-error", "C15", "C43.N1", "excise.go",
   "		} else if err := iters.Point().Error(); err != nil {\n			// A nil KV may indicate an error rather than the absence of point keys;\n			// treating it as the latter would drop the remaining point keys.\n			return err\n		}", "		}"),
]
VARIANTS += [
 V("c33-t1-covers-without-snapshot", "C33", "C33.T1", "merging_iter.go",
   "			if l.tombstone.CoversAt(m.snapshot, item.iterKV.SeqNum()) {\n				if err := m.nextEntry(item, nil /* succKey */); err != nil {", "			if l.tombstone.Covers(item.iterKV.SeqNum()) {\n				if err := m.nextEntry(item, nil /* succKey */); err != nil {"),
]
VARIANTS += [
 V("c09-m4-upper-bound-compared-by-prefix", "C09", "C09.M4", "range_keys.go",
   "	return m.cmp(m.maskSpan.End, key) > 0", "	return m.cmp(m.maskSpan.End, key[:m.split(key)]) > 0"),
]
VARIANTS += [
 V("c34-p2-waiter-drops-read-turn-token", "C34", "C34.P2", "internal/cache/read_shard.go",
   "			// e.mu, and take the turn. So try to actually get the turn by trying\n			// again in the loop.\n", "			// e.mu, and take the turn. So try to actually get the turn by trying\n			// again in the loop.\n			if err := ctx.Err(); err != nil {\n				return nil, 0, err\n			}\n"),
 V("c42-t1-waiter-drops-read-turn-token", "C42", "C42.T1", "internal/cache/read_shard.go",
   "			// e.mu, and take the turn. So try to actually get the turn by trying\n			// again in the loop.\n", "			// e.mu, and take the turn. So try to actually get the turn by trying\n			// again in the loop.\n			if err := ctx.Err(); err != nil {\n				return nil, 0, err\n			}\n"),
]
VARIANTS += [
 V("c09-m2-synthetic-suffix-dropped-when-asking-filter", "C09", "C09.M2", "range_keys.go",
   "	return m.filter.SyntheticSuffixIntersects(prop, suffix)", "	_ = suffix\n	return m.filter.Intersects(prop)"),
]
