#!/bin/bash
# Builds the checker from files on disk only (offline). Run once after restore.
set -e
cd "$(dirname "$0")"
. ./env.sh
mkdir -p bin evidence
( cd checker && go build -o ../bin/pebblevet ./cmd/pebblevet )
# Warm the Go build cache with export data for /repo's packages so that the
# first check does not pay for it.
( cd /repo && go build ./... >/dev/null 2>&1 || true )
echo "setup ok: $(bin/pebblevet -list | wc -w) properties registered"
