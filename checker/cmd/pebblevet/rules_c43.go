package main

import (
	"fmt"
	"go/token"
	"go/types"
	"sort"
	"strings"

	"golang.org/x/tools/go/ssa"
)

func init() {
	register("C43", []string{".", "./sstable/...", "./objstorage/...", "./internal/compact", "./internal/overlap", "./internal/manifest", "./wal", "./record", "./vfs/atomicfs", "./valsep"}, runC43)
	propExplain["C43"] = "Decides error-discipline clauses of C43: (N1) wherever consumer code treats a nil result of a positioning call on an internal iterator as 'exhausted', every path from that nil edge to a return consults the iterator's Error() (or its consumed Close()) — an sstable iterator returns nil on a read error; (S1) after Finish or Abort was called on an objstorage.Writable no further method of it is reachable unless the variable was re-assigned; (E1) the error results of read and durability callees are never dropped; (O1) the user iterator's positioning methods short-circuit on a sticky error; (O2) a failed flush/compaction goes through the failure handler and never refreshes the read state. (E3) every engine function that classifies an error by identity (== a sentinel, record.IsInvalidRecord) receives it unwrapped: no function in the producers' static call trees (sticky error fields followed) returns a wrapped callee error. (E4) an error held in a local variable is known nil at every point where the result of another call is stored into it (an earlier failure is never replaced by a later success), module-wide. (V1, shared with C10/C12) the object provider records a directory as synced only through the nil-error edge of that directory's Sync, and from a change counter read before it — a failed or unfinished sync reported as done lets a later Sync() return without syncing. Does not decide result correctness under faults (behaviour)."
	propTechnique["C43"] = "SSA obligation-as-fact dataflow (nil-means-exhausted), typestate reachability, error-result consumption (ERRFLOW)"
}

var positioningMethods = map[string]bool{"First": true, "Last": true, "Next": true, "Prev": true, "SeekGE": true, "SeekLT": true, "SeekPrefixGE": true, "NextPrefix": true}

// n1Exceptions: functions where a nil positioning result needs no Error() check.
var n1Exceptions = map[string]string{
	"p.fragmentRangeDels": "only called with the in-memory iterator of a batch / flushable batch (newRangeDelIter paths in batch.go), which cannot fail",
	"p.fragmentRangeKeys": "only called with the in-memory iterator of a batch / flushable batch, which cannot fail",
	"p/sstable.ReadAll":   "test utility (sstable/test_utils.go), not used by the engine",
	"p.newFlush":          "bounds closure over flushables: ingested flushables return before the loop, so only memtable / flushable-batch iterators (in-memory, cannot fail) reach it",
}

func implementsIterator(t types.Type, iface *types.Interface) bool {
	if iface == nil {
		return false
	}
	if types.Implements(t, iface) {
		return true
	}
	if _, ok := t.(*types.Pointer); !ok {
		return types.Implements(types.NewPointer(t), iface)
	}
	return false
}

// c43OverwriteExceptions: functions in which an error variable is deliberately reused while it may
// be non-nil (keyed by declared function).
var c43OverwriteExceptions = map[string]string{
	"p/sstable.(*Layout).Describe": "debug dump of a table's layout: the decode error of one meta-index entry is printed into the tree node (`[err: %s]`) before the loop moves on to the next entry",
}

func runC43(c *Ctx) {
	if n := c.ErrOverwrite("C43.E4", enginePkg, c43OverwriteExceptions); n < 50 {
		c.Unresolved("C43.E4", fmt.Sprintf("only %d stores of call results into error variables found", n))
	}
	if n := surveyErrIdentity(c, "C43.E3", nil, "rec.IsInvalidRecord"); n < 5 {
		c.Unresolved("C43.E3", fmt.Sprintf("only %d identity-comparing consumers found", n))
	}
	runC43N1(c)
	runC43S1(c)
	c12SyncWatermark(c, "C43.V1") // shared with C10/C12: a failed directory sync is never recorded as done
	// E1: read + durability callees
	readCallees := Or(
		ImplCall(c.Iface("C43.E1", "objs.Readable"), "objstorage.Readable", "ReadAt"),
		ImplCall(c.Iface("C43.E1", "objs.ReadHandle"), "objstorage.ReadHandle", "ReadAt"),
		CallTo("blk.(*Reader).Read", "blk.(*Reader).doRead", "blk.ReadRaw", "blk.ValidateChecksum"),
		durabilityCallees(c, "C43.E1"),
	)
	n := c.ErrFlow("C43.E1", readCallees, enginePkg, append(c10ErrExceptions, c43ErrExceptions...))
	if n < 100 {
		c.Unresolved("C43.E1", fmt.Sprintf("only %d I/O call sites found", n))
	}
	// O1: sticky iterator error
	for _, name := range []string{"p.(*Iterator).nextWithLimit", "p.(*Iterator).PrevWithLimit", "p.(*Iterator).NextPrefix"} {
		fn := c.Fn("C43.O1", name)
		if fn == nil {
			continue
		}
		fl := NewFlow(c.P).
			Edge("no-sticky-error", ZeroGuard("recv.err")).
			Edge("no-sticky-error", NilErrGuard(CallPred("Error", "")))
		res := fl.Analyze(fn, emptyState())
		moves := Or(MethodOn("Next", "recv.iter"), MethodOn("Prev", "recv.iter"), MethodOn("NextPrefix", "recv.iter"),
			CallTo("p.(*Iterator).findNextEntry", "p.(*Iterator).findPrevEntry", "p.(*Iterator).nextUserKey", "p.(*Iterator).prevUserKey", "p.(*Iterator).nextPrefix"))
		k := c.Require("C43.O1", res, moves, "the iterator is repositioned only while no error is latched", []string{"no-sticky-error"})
		if k == 0 {
			c.Unresolved("C43.O1", "no repositioning call found in "+name)
		}
	}
	// O2: background failure handling
	if fn := c.Fn("C43.O2", "p.(*DB).flush1"); fn != nil {
		res := NewFlow(c.P).Ok("ok:manifest", CallTo("p.(*versionSet).UpdateVersionLocked")).Analyze(fn, emptyState())
		c.Require("C43.O2", res, CallTo("p.(*DB).updateReadStateLocked"), "read state refreshed only after a successful MANIFEST update (flush)", []string{"ok:manifest"})
	}
	if outer := c.Fn("C43.O2", "p.(*DB).compact"); outer != nil {
		if fn := c.ClosureWith("C43.O2", outer, CallTo("p.(*DB).handleCompactFailure")); fn != nil {
			fl := NewFlow(c.P).Edge("compaction-failed", func(v ssa.Value) (bool, bool) {
				ok, neg := NilErrGuard(nil)(v)
				return ok, !neg
			})
			res := fl.Analyze(fn, emptyState())
			c.Require("C43.O2", res, CallTo("p.(*DB).handleCompactFailure"), "failure handler runs on the error edge of Execute", []string{"compaction-failed"})
			// and every path on which Execute failed passes the handler
			fl2 := NewFlow(c.P).
				KillEdge("failure-handled", func(v ssa.Value) (bool, bool) {
					ok, neg := NilErrGuard(nil)(v)
					return ok, !neg
				}).
				After("failure-handled", CallTo("p.(*DB).handleCompactFailure"))
			entry := emptyState()
			entry.add("failure-handled")
			res2 := fl2.Analyze(fn, entry)
			c.Require("C43.O2", res2, AnyReturn, "a failed compaction always reaches the failure handler", []string{"failure-handled"})
		}
	}
}

var c43ErrExceptions = []ErrException{
	{"sst.(*Layout).Describe", "ReadAt", "debug dump of block trailers (tool output only); the read error leaves the trailer zeroed"},
	{"sst.formatColblkDataBlock", "ReadAt", "debug dump"},
}

// c43N1Only, when set, restricts runC43N1 to the top-level functions it accepts (used by
// properties that share the rule for a handful of functions only).
var c43N1Only func(top *ssa.Function) bool

// runC43N1: nil-means-exhausted needs Error().
func runC43N1(c *Ctx) {
	ii := c.Iface("C43.N1", "base.InternalIterator")
	if ii == nil {
		return
	}
	type site struct {
		fn   *ssa.Function
		call *ssa.Call
	}
	byFn := map[*ssa.Function][]*ssa.Call{}
	for _, fn := range c.P.AllFuncs {
		if fn.Origin() != nil || (fn.Synthetic != "" && fn.Parent() == nil) {
			continue
		}
		top := TopLevel(fn)
		if top.Pkg == nil || !enginePkg(top.Pkg.Pkg.Path()) {
			continue
		}
		if c43N1Only != nil && !c43N1Only(top) {
			continue
		}
		// skip iterator implementations: methods of a type that itself implements InternalIterator
		if top.Signature.Recv() != nil && implementsIterator(top.Signature.Recv().Type(), ii) {
			continue
		}
		for _, b := range fn.Blocks {
			for _, in := range b.Instrs {
				call, ok := in.(*ssa.Call)
				if !ok {
					continue
				}
				cc := call.Common()
				if !cc.IsInvoke() || !positioningMethods[cc.Method.Name()] {
					continue
				}
				// receiver's static type is an interface offering Error() error and returning *InternalKV
				it, ok := cc.Value.Type().Underlying().(*types.Interface)
				if !ok {
					continue
				}
				hasErr := false
				for i := 0; i < it.NumMethods(); i++ {
					if it.Method(i).Name() == "Error" {
						hasErr = true
					}
				}
				if !hasErr || !strings.Contains(cc.Signature().Results().String(), "InternalKV") {
					continue
				}
				byFn[fn] = append(byFn[fn], call)
			}
		}
	}
	var fns []*ssa.Function
	for fn := range byFn {
		fns = append(fns, fn)
	}
	sort.Slice(fns, func(i, j int) bool { return QName(fns[i]) < QName(fns[j]) })
	nSites := 0
	for _, fn := range fns {
		// group by receiver path
		paths := map[string][]*ssa.Call{}
		for _, call := range byFn[fn] {
			p := pathOf(call.Common().Value)
			paths[p] = append(paths[p], call)
		}
		var ps []string
		for p := range paths {
			ps = append(ps, p)
		}
		sort.Strings(ps)
		for _, p := range ps {
			calls := paths[p]
			isPos := func(v ssa.Value) bool {
				for _, cl := range calls {
					if v == ssa.Value(cl) {
						return true
					}
				}
				return false
			}
			// Only nil tests that are not dominated by another nil test of the same
			// value carry the obligation (`if kv == nil && it.Error() != nil {…}; if kv != nil && …`).
			primary := map[*ssa.BinOp]bool{}
			{
				type nt struct {
					bo *ssa.BinOp
					x  ssa.Value
				}
				var tests []nt
				for _, b := range fn.Blocks {
					for _, in := range b.Instrs {
						bo, ok := in.(*ssa.BinOp)
						if !ok || (bo.Op != token.EQL && bo.Op != token.NEQ) {
							continue
						}
						var x ssa.Value
						if isNilConst(bo.Y) {
							x = bo.X
						} else if isNilConst(bo.X) {
							x = bo.Y
						} else {
							continue
						}
						if copyOf(x, isPos, 4) {
							tests = append(tests, nt{bo, x})
						}
					}
				}
				for _, t := range tests {
					dominated := false
					for _, o := range tests {
						if o.bo != t.bo && o.x == t.x && o.bo.Block() != t.bo.Block() && o.bo.Block().Dominates(t.bo.Block()) {
							dominated = true
						}
					}
					if !dominated {
						primary[t.bo] = true
					}
				}
			}
			nilTest := func(v ssa.Value) (bool, bool) {
				bo, ok := v.(*ssa.BinOp)
				if !ok || (bo.Op != token.EQL && bo.Op != token.NEQ) {
					return false, false
				}
				var x ssa.Value
				if isNilConst(bo.Y) {
					x = bo.X
				} else if isNilConst(bo.X) {
					x = bo.Y
				} else {
					return false, false
				}
				if !copyOf(x, isPos, 4) || !primary[bo] {
					return false, false
				}
				return true, bo.Op == token.NEQ // fact "is nil" on == true / != false
			}
			if CondCount(fn, nilTest) == 0 {
				continue
			}
			nSites++
			sameIter := func(in ssa.Instruction, methods ...string) bool {
				var cc *ssa.CallCommon
				switch x := in.(type) {
				case *ssa.Call:
					cc = x.Common()
				case *ssa.Defer:
					cc = &x.Call
				}
				if cc == nil {
					return false
				}
				ci := infoOfCommon(cc)
				if ci.Recv == nil || pathOf(ci.Recv) != p {
					return false
				}
				for _, m := range methods {
					if ci.Short == m {
						return true
					}
				}
				return false
			}
			consult := func(in ssa.Instruction) bool {
				if sameIter(in, "Error") {
					return true
				}
				if sameIter(in, "Close") {
					if call, ok := in.(*ssa.Call); ok {
						return call.Referrers() != nil && len(*call.Referrers()) > 0
					}
				}
				return false
			}
			// "error-consulted": Error() was called after the latest positioning call, so a nil
			// test that follows it raises no new obligation (`if err := it.Error(); …; if kv == nil`).
			fl := NewFlow(c.P).
				After("error-consulted", Pred("Error()/Close() on "+p, consult)).
				KillAfter("error-consulted", Pred("positioning call on "+p, func(in ssa.Instruction) bool {
					call, ok := in.(*ssa.Call)
					return ok && isPos(call)
				})).
				KillEdgeUnless("exhaustion-confirmed", nilTest, "error-consulted").
				After("exhaustion-confirmed", Pred("Error()/Close() on "+p, func(in ssa.Instruction) bool {
					if sameIter(in, "Error") {
						return true
					}
					if sameIter(in, "Close") {
						if call, ok := in.(*ssa.Call); ok {
							return call.Referrers() != nil && len(*call.Referrers()) > 0
						}
						return false // deferred Close: its error is dropped
					}
					return false
				}))
			fl.MaxDepth = 1
			entry := emptyState()
			entry.add("exhaustion-confirmed")
			res := fl.Analyze(fn, entry)
			bad := 0
			var firstPos token.Pos
			res.At(AnyReturn, func(in ssa.Instruction, s State) {
				if s.Reachable() && !s.has("exhaustion-confirmed") {
					bad++
					if firstPos == token.NoPos {
						firstPos = in.Pos()
					}
				}
			})
			top := TopLevel(fn)
			ok := bad == 0
			detail := ""
			if !ok {
				if why, has := n1Exceptions[shortKey(QName(top))]; has {
					ok = true
					c.Note("C43.N1: exception %s: %s", shortQ(QName(top)), why)
				} else {
					detail = fmt.Sprintf("a nil result of a positioning call on %s is treated as exhaustion and a return is reachable without consulting %s.Error() (or a consumed Close()): a read error becomes silently missing data", p, p)
				}
			}
			pos := calls[0].Pos()
			c.Ob("C43.N1", fn, "nil from "+p+" positioning is confirmed by Error()", c.P.Pos(pos), ok, detail)
		}
	}
	if nSites < 6 && c43N1Only == nil {
		c.Unresolved("C43.N1", fmt.Sprintf("only %d nil-tested positioning sites found", nSites))
	}
}

// runC43S1: Writable typestate.
func runC43S1(c *Ctx) {
	w := c.Iface("C43.S1", "objs.Writable")
	if w == nil {
		return
	}
	terminal := ImplCall(w, "objstorage.Writable", "Finish", "Abort")
	anyOp := ImplCall(w, "objstorage.Writable", "Write", "Finish", "Abort", "StartMetadataPortion")
	n := 0
	for _, fn := range c.P.AllFuncs {
		if fn.Origin() != nil || (fn.Synthetic != "" && fn.Parent() == nil) {
			continue
		}
		top := TopLevel(fn)
		if top.Pkg == nil || !enginePkg(top.Pkg.Pkg.Path()) {
			continue
		}
		// skip Writable implementations (they forward to an inner writable by design)
		if top.Signature.Recv() != nil && implementsIterator(top.Signature.Recv().Type(), w) {
			continue
		}
		terms := instrs(fn, terminal)
		if len(terms) == 0 {
			continue
		}
		byPath := map[string]bool{}
		for _, t := range terms {
			byPath[pathOf(infoOfCommon(t.(*ssa.Call).Common()).Recv)] = true
		}
		for p := range byPath {
			n++
			p := p
			onP := func(m M) M {
				return Pred(m.Desc+" on "+p, func(in ssa.Instruction) bool {
					if !m.F(in) {
						return false
					}
					return pathOf(infoOfCommon(in.(*ssa.Call).Common()).Recv) == p
				})
			}
			// "live": no terminal call yet, or the variable was re-assigned since.
			// `x := w.w; w.w = nil; x.Finish()`: the field no longer holds the object
			// that is being finished, so this terminal call does not end the life of
			// whatever the path denotes afterwards.
			detached := func(in ssa.Instruction) bool {
				call, ok := in.(*ssa.Call)
				if !ok {
					return false
				}
				ld, ok := stripConv(infoOfCommon(call.Common()).Recv).(*ssa.UnOp)
				if !ok || ld.Block() != call.Block() {
					return false
				}
				seenLoad := false
				for _, x := range call.Block().Instrs {
					if x == ssa.Instruction(ld) {
						seenLoad = true
						continue
					}
					if x == in {
						break
					}
					if st, ok := x.(*ssa.Store); ok && seenLoad && pathOf(st.Addr) == p {
						return true
					}
				}
				return false
			}
			termOnP := onP(terminal)
			liveEnding := Pred(termOnP.Desc, func(in ssa.Instruction) bool { return termOnP.F(in) && !detached(in) })
			fl := NewFlow(c.P).
				KillAfter("writable-live", liveEnding).
				After("writable-live", Pred("re-assignment of "+p, func(in ssa.Instruction) bool {
					st, ok := in.(*ssa.Store)
					return ok && pathOf(st.Addr) == p
				}))
			fl.MaxDepth = 1
			entry := emptyState()
			entry.add("writable-live")
			res := fl.Analyze(fn, entry)
			bad := 0
			var badPos token.Pos
			res.At(onP(anyOp), func(in ssa.Instruction, s State) {
				if s.Reachable() && !s.has("writable-live") {
					bad++
					badPos = in.Pos()
				}
			})
			pos := terms[0].Pos()
			detail := ""
			if bad > 0 {
				pos = badPos
				detail = "a method of objstorage.Writable is called on " + p + " after Finish/Abort (no calls are allowed after Finish, even a failed one)"
			}
			c.Ob("C43.S1", fn, "no Writable call on "+p+" after Finish/Abort", c.P.Pos(pos), bad == 0, detail)
		}
	}
	if n < 3 {
		c.Unresolved("C43.S1", fmt.Sprintf("only %d Writable terminal-call sites found", n))
	}
}
