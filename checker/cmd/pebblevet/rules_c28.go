package main

import (
	"fmt"
	"go/ast"
	"go/token"
	"sort"

	"golang.org/x/tools/go/packages"
	"golang.org/x/tools/go/ssa"
)

func init() {
	register("C28", []string{"./internal/compression", "./sstable/block"}, runC28)
	propExplain["C28"] = "Decides the table-agreement clause of C28: every compression algorithm in [0, NumAlgorithms) has a compressor and a decompressor case; the algorithm→indicator and indicator→algorithm switches of the block layer are inverse on that range; the block compressor derives the trailer's indicator from the Setting the codec RETURNED (the algorithm actually used, which may differ from the configured one) and stores the bytes raw exactly when it resets that setting to NoAlgorithm; each codec's Compress labels its output with its own algorithm or delegates to another codec's Compress. Does not decide the codecs themselves."
	propTechnique["C28"] = "enum/switch table agreement and inverse-map check (AST+types) + SSA value provenance"
}

// switchReturnMap maps constant case values of the function's single switch
// over its parameter to the constant value each arm returns.
func switchReturnMap(pkg *packages.Package, fd *ast.FuncDecl) (m map[int64]int64, hasDefaultFailStop bool, ok bool) {
	m = map[int64]int64{}
	var sw *ast.SwitchStmt
	ast.Inspect(fd, func(n ast.Node) bool {
		if s, isSw := n.(*ast.SwitchStmt); isSw && sw == nil && s.Tag != nil {
			sw = s
		}
		return true
	})
	if sw == nil {
		return nil, false, false
	}
	for _, st := range sw.Body.List {
		cc := st.(*ast.CaseClause)
		if cc.List == nil {
			hasDefaultFailStop = clauseFailStop(pkg, cc)
			continue
		}
		if len(cc.Body) == 0 {
			continue
		}
		ret, isRet := cc.Body[len(cc.Body)-1].(*ast.ReturnStmt)
		if !isRet || len(ret.Results) != 1 {
			continue
		}
		rv, isConst := constValOf(pkg, ret.Results[0])
		for _, e := range cc.List {
			if cv, okc := constValOf(pkg, e); okc && isConst {
				m[cv] = rv
			}
		}
	}
	return m, hasDefaultFailStop, true
}

func runC28(c *Ctx) {
	algos := c.ConstsOfType("C28.T1", "cmp.Algorithm")
	numAlg, okN := c.ConstInt("cmp", "NumAlgorithms")
	if !okN || len(algos) == 0 {
		c.Unresolved("C28.T1", "compression.Algorithm constants / NumAlgorithms not found")
		return
	}
	var A []enumConst
	for _, a := range algos {
		if a.Val >= 0 && a.Val < numAlg && a.Name != "NumAlgorithms" {
			A = append(A, a)
		}
	}
	sort.Slice(A, func(i, j int) bool { return A[i].Val < A[j].Val })
	algT := c.P.TypeByPath("cmp.Algorithm")
	cmpPkg := c.pkgOf("C28.T1", "cmp")
	blkPkg := c.pkgOf("C28.T1", "blk")
	if cmpPkg == nil || blkPkg == nil {
		return
	}
	for _, name := range []string{"cmp.GetCompressor", "cmp.GetDecompressor"} {
		fn := c.Fn("C28.T1", name)
		if fn == nil {
			continue
		}
		fd, pkg := c.P.Decl(fn)
		sws := SwitchesOn(pkg, fd, algT)
		if len(sws) != 1 {
			c.Unresolved("C28.T1", fmt.Sprintf("expected one switch over Algorithm in %s, found %d", name, len(sws)))
			continue
		}
		for _, a := range A {
			_, ok := sws[0].Cases[a.Val]
			c.Ob("C28.T1", fn, "has a case for "+a.Name, c.P.Pos(sws[0].Stmt.Pos()), ok,
				map[bool]string{true: "", false: "algorithm " + a.Name + " is below NumAlgorithms but has no case: selecting it panics or falls into another codec"}[ok])
		}
	}
	// inverse maps
	fromFn := c.Fn("C28.T1", "blk.compressionIndicatorFromAlgorithm")
	toFn := c.Fn("C28.T1", "blk.(CompressionIndicator).Algorithm")
	if fromFn != nil && toFn != nil {
		fd1, _ := c.P.Decl(fromFn)
		fd2, _ := c.P.Decl(toFn)
		from, _, ok1 := switchReturnMap(blkPkg, fd1)
		to, _, ok2 := switchReturnMap(blkPkg, fd2)
		if !ok1 || !ok2 {
			c.Unresolved("C28.T1", "could not read the algorithm/indicator switches")
		} else {
			for _, a := range A {
				ind, has := from[a.Val]
				ok := has
				detail := ""
				if !has {
					detail = "compressionIndicatorFromAlgorithm has no case for " + a.Name
				} else if back, hasBack := to[ind]; !hasBack || back != a.Val {
					ok = false
					detail = fmt.Sprintf("algorithm %s is written as indicator %d, but CompressionIndicator.Algorithm maps %d back to %d: blocks would be decompressed with the wrong codec", a.Name, ind, ind, back)
				}
				c.Ob("C28.T1", toFn, "indicator mapping is inverse for "+a.Name, c.P.Pos(fd2.Pos()), ok, detail)
			}
		}
	}
	// the indicator is derived from the returned setting
	if fn := c.Fn("C28.V1", "blk.(*Compressor).Compress"); fn != nil {
		n := 0
		for _, in := range instrs(fn, CallTo("blk.compressionIndicatorFromAlgorithm")) {
			n++
			arg := in.(*ssa.Call).Common().Args[0]
			ok := len(derivesFrom(arg, func(v ssa.Value) bool {
				ex, isEx := v.(*ssa.Extract)
				if !isEx || ex.Index != 1 {
					return false
				}
				call, isCall := ex.Tuple.(*ssa.Call)
				return isCall && infoOfCommon(call.Common()).Short == "Compress"
			}, 6)) > 0
			c.Ob("C28.V1", fn, "trailer indicator derives from the Setting returned by the codec", c.P.Pos(in.Pos()), ok,
				map[bool]string{true: "", false: "the indicator is computed from " + pathOf(arg) + ", not from what Compress returned: a codec that fell back to another algorithm would be mislabelled"}[ok])
		}
		if n == 0 {
			c.Unresolved("C28.V1", "compressionIndicatorFromAlgorithm call not found in Compressor.Compress")
		}
	}
	// each codec labels its output with its own algorithm (or delegates)
	expect := map[string]string{"snappyCompressor": "Snappy", "noopCompressor": "NoAlgorithm", "minlzCompressor": "MinLZ", "zstdCompressor": "Zstd"}
	algoByName := map[string]int64{}
	for _, a := range A {
		algoByName[a.Name] = a.Val
	}
	nLab := 0
	for _, fn := range c.P.AllFuncs {
		if fn.Pkg == nil || fn.Pkg.Pkg.Path() != pkgAlias["cmp"] || fn.Name() != "Compress" || fn.Signature.Recv() == nil {
			continue
		}
		nt := namedOf(fn.Signature.Recv().Type())
		if nt == nil {
			continue
		}
		want, known := expect[nt.Obj().Name()]
		if !known {
			continue
		}
		for _, b := range fn.Blocks {
			ret, ok := b.Instrs[len(b.Instrs)-1].(*ssa.Return)
			if !ok || b == fn.Recover || len(ret.Results) != 2 {
				continue
			}
			nLab++
			v := ret.Results[1]
			good := false
			what := pathOf(v)
			// delegation: the Setting returned by another codec's Compress
			if len(derivesFrom(v, func(x ssa.Value) bool {
				ex, isEx := x.(*ssa.Extract)
				if !isEx {
					return false
				}
				call, isCall := ex.Tuple.(*ssa.Call)
				return isCall && infoOfCommon(call.Common()).Short == "Compress"
			}, 3)) > 0 {
				good = true
			}
			// struct literal / preset global: find the Algorithm field value
			if !good {
				if alg, ok := settingAlgorithm(v); ok {
					good = alg == algoByName[want]
					what = fmt.Sprintf("Algorithm=%d", alg)
				}
			}
			c.Ob("C28.V2", fn, nt.Obj().Name()+".Compress labels its output "+want, c.P.Pos(ret.Pos()), good,
				map[bool]string{true: "", false: "returns a Setting with " + what + ": the block would be decompressed with a different codec than the one that produced it"}[good])
		}
	}
	if nLab < 3 {
		c.Unresolved("C28.V2", "fewer than 3 codec Compress returns found")
	}
	// A1: a codec never hands out a buffer it also retains in one of its own fields (the next
	// Compress call would overwrite a block the caller still holds).
	sliceBase := func(v ssa.Value) ssa.Value {
		for i := 0; i < 6; i++ {
			if sl, ok := v.(*ssa.Slice); ok {
				v = sl.X
				continue
			}
			break
		}
		return v
	}
	nA := 0
	for _, fn := range c.P.AllFuncs {
		if fn.Pkg == nil || fn.Pkg.Pkg.Path() != pkgAlias["cmp"] || fn.Name() != "Compress" || fn.Signature.Recv() == nil || len(fn.Params) == 0 {
			continue
		}
		recv := fn.Params[0]
		retained := map[ssa.Value]token.Pos{}
		for _, b := range fn.Blocks {
			for _, in := range b.Instrs {
				st, ok := in.(*ssa.Store)
				if !ok {
					continue
				}
				fa, ok := st.Addr.(*ssa.FieldAddr)
				if !ok || fa.X != ssa.Value(recv) {
					continue
				}
				retained[sliceBase(st.Val)] = st.Pos()
			}
		}
		for _, b := range fn.Blocks {
			ret, ok := b.Instrs[len(b.Instrs)-1].(*ssa.Return)
			if !ok || b == fn.Recover || len(ret.Results) == 0 {
				continue
			}
			nA++
			base := sliceBase(ret.Results[0])
			_, aliased := retained[base]
			// also: returning a slice of a field load directly
			if u, isLoad := base.(*ssa.UnOp); isLoad {
				if fa, isFA := u.X.(*ssa.FieldAddr); isFA && fa.X == ssa.Value(recv) {
					aliased = true
				}
			}
			c.Ob("C28.A1", fn, "returned buffer is not retained by the codec", c.P.Pos(ret.Pos()), !aliased,
				map[bool]string{true: "", false: "Compress returns a buffer that the codec also keeps in one of its fields: the next Compress call overwrites a compressed block the caller may still hold"}[!aliased])
		}
	}
	if nA < 4 {
		c.Unresolved("C28.A1", "fewer than 4 Compress returns found")
	}
}

// settingAlgorithm extracts the constant Algorithm of a compression.Setting
// value: a composite literal, or a load of a package-level preset initialised
// by makePreset(<const>, …).
func settingAlgorithm(v ssa.Value) (int64, bool) {
	switch x := v.(type) {
	case *ssa.UnOp:
		switch a := x.X.(type) {
		case *ssa.Alloc:
			if a.Referrers() != nil {
				for _, r := range *a.Referrers() {
					if fa, ok := r.(*ssa.FieldAddr); ok {
						if f := fieldVar(fa.X.Type(), fa.Field); f != nil && f.Name() == "Algorithm" && fa.Referrers() != nil {
							for _, rr := range *fa.Referrers() {
								if st, ok := rr.(*ssa.Store); ok {
									return constInt(st.Val)
								}
							}
						}
					}
				}
			}
		case *ssa.Global:
			// find the init store: g = makePreset(const, ...)
			if a.Pkg != nil {
				if initFn := a.Pkg.Func("init"); initFn != nil {
					for _, b := range initFn.Blocks {
						for _, in := range b.Instrs {
							if st, ok := in.(*ssa.Store); ok && st.Addr == ssa.Value(a) {
								if call, ok := st.Val.(*ssa.Call); ok && len(call.Common().Args) > 0 {
									return constInt(call.Common().Args[0])
								}
							}
						}
					}
				}
			}
		}
	}
	return 0, false
}
