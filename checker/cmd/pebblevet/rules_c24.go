package main

import (
	"go/token"

	"golang.org/x/tools/go/ssa"
)

func init() {
	register("C24", []string{"./vfs/atomicfs"}, runC24)
	propExplain["C24"] = "Decides the ordering clause of C24 in atomicfs.(*Marker).Move: the new marker file is created, synced and closed (each through its nil-error edge) before the old marker is removed and before success is returned; the directory is synced before success; the in-memory filename is updated only on Create's success; the removed file is the marker that was current before the move; the iteration counter is bumped before the new name is formed; scanForMarker keeps the marker with the highest iteration. Does not decide file-system crash semantics."
}

func runC24(c *Ctx) {
	fn := c.Fn("C24.O1", "afs.(*Marker).Move")
	if fn != nil {
		filename := c.Field("C24.O1", "afs.Marker.filename")
		iter := c.Field("C24.O1", "afs.Marker.iter")
		res := c.Chain("C24.O1", fn, nil,
			Step{Name: "store a.iter", M: StoreTo(iter)},
			Step{Name: "markerFilename", M: CallTo("afs.markerFilename")},
			Step{Name: "fs.Create", M: CallTo("vfs.(FS).Create"), Gated: true},
			Step{Name: "f.Sync", M: CallTo("vfs.(File).Sync"), Gated: true},
			Step{Name: "f.Close(ok path)", M: Pred("f.Close whose error is returned", func(in ssa.Instruction) bool {
				call, ok := in.(*ssa.Call)
				if !ok || !CallTo("vfs.(File).Close").F(in) {
					return false
				}
				return call.Referrers() != nil && len(*call.Referrers()) > 0
			}), Gated: true},
			Step{Name: "fs.Remove(old)", M: CallTo("vfs.(FS).Remove"), MayBeAbsent: true},
		)
		c.Require("C24.O1", res, StoreTo(filename), "a.filename updated only after Create succeeded", []string{"ok:fs.Create"})
		fl2 := NewFlow(c.P).
			Ok("ok:create", CallTo("vfs.(FS).Create")).
			Ok("ok:sync", CallTo("vfs.(File).Sync")).
			Ok("ok:close", CallTo("vfs.(File).Close")).
			Ok("ok:dirsync", MethodOn("Sync", "dirFD")).
			After("did:storefilename", StoreTo(filename))
		res2 := fl2.Analyze(fn, emptyState())
		c.RequireAtSuccess("C24.O1", res2, "Create+Sync+Close+dirFD.Sync", []string{"ok:create", "ok:sync", "ok:close", "ok:dirsync"})
		// dirFD.Sync failure must not be survivable: its error result must reach a panic (or be returned)
		for _, in := range instrs(fn, MethodOn("Sync", "dirFD")) {
			call := in.(*ssa.Call)
			used := call.Referrers() != nil && len(*call.Referrers()) > 0
			c.Ob("C24.O1", fn, "dirFD.Sync error is consumed", c.P.Pos(in.Pos()), used, map[bool]string{true: "", false: "the directory sync's error is dropped"}[used])
		}
		// the removed file is the marker that was current before this move
		for _, in := range instrs(fn, CallTo("vfs.(FS).Remove")) {
			args := in.(*ssa.Call).Common().Args
			leaves := derivesFrom(args[len(args)-1], func(v ssa.Value) bool { return isLoadOfField(v, filename) }, 6)
			ok := len(leaves) > 0
			detail := ""
			for _, l := range leaves {
				st := res2.stateBefore(l.(ssa.Instruction))
				if st.has("did:storefilename") {
					ok = false
					detail = "the file removed is read from a.filename after it was set to the NEW marker"
				}
			}
			if len(leaves) == 0 {
				detail = "the argument of fs.Remove no longer derives from the previous a.filename"
			}
			c.Ob("C24.O1", fn, "Remove targets the previous marker", c.P.Pos(in.Pos()), ok, detail)
		}
	}
	// scanForMarker keeps the marker with the highest iteration
	if fn := c.Fn("C24.T1", "afs.scanForMarker"); fn != nil {
		fl := NewFlow(c.P).
			Edge("newer", FieldCmpGuard(token.LSS, "iter")).
			Edge("newer", func(v ssa.Value) (bool, bool) {
				bo, ok := v.(*ssa.BinOp)
				if !ok || (bo.Op != token.EQL && bo.Op != token.NEQ) {
					return false, false
				}
				if fieldNamed(bo.X, "filename") {
					if k, ok := bo.Y.(*ssa.Const); ok && k.Value != nil && k.Value.String() == `""` {
						return true, bo.Op == token.NEQ
					}
				}
				return false, false
			})
		res := fl.Analyze(fn, emptyState())
		n := c.Require("C24.T1", res, StorePath("filename"), "current marker replaced only by a higher iteration", []string{"newer"})
		if n == 0 {
			c.Unresolved("C24.T1", "store to state.filename not found in scanForMarker")
		}
	}
}
