package main

import (
	"fmt"
	"go/ast"
	"go/token"

	"golang.org/x/tools/go/ssa"
)

func init() {
	register("C40", []string{"."}, runC40)
	propExplain["C40"] = "Decides structural clauses of C40: every supported format major version has a migration entry and the entry for version K finalizes exactly K, on the nil-error edge of everything that precedes it; finalizeFormatVersUpgrade publishes the new version in memory only through the nil-error edge of the durable marker move; the in-memory version is stored only there and at Open; a ratchet refuses to go backwards before it runs any migration and steps from current+1. Does not decide data preservation by the non-trivial migrations. (V1) the migration that marks tables for compaction derives the tables it names from the version read inside the UpdateVersionLocked closure (under the manifest lock), never from a version read before the lock was taken."
}

func runC40(c *Ctx) {
	versionReadUnderManifestLock(c, "C40.V1", "p.(*DB).markFilesForCompactionLocked")
	// C40.O1
	if fn := c.Fn("C40.O1", "p.(*DB).finalizeFormatVersUpgrade"); fn != nil {
		vers := c.Field("C40.O1", "p.DB.mu.formatVers.vers")
		res := c.Chain("C40.O1", fn, nil,
			Step{Name: "marker.Move", M: MethodOn("Move", "formatVers.marker"), Gated: true},
			Step{Name: "formatVers.vers.Store", M: AtomicOp(vers, "Store")},
		)
		c.RequireAtSuccess("C40.O1", res, "marker.Move + vers.Store", []string{"ok:marker.Move", "did:formatVers.vers.Store"})
		// the version stored and the version written to the marker are the same parameter
		for _, in := range instrs(fn, AtomicOp(vers, "Store")) {
			args := in.(*ssa.Call).Common().Args
			ok := len(derivesFrom(args[len(args)-1], func(v ssa.Value) bool { p, ok := v.(*ssa.Parameter); return ok && p.Name() == ParamName(fn, 1) }, 3)) > 0
			c.Ob("C40.O1", fn, "stored version is the finalized version", c.P.Pos(in.Pos()), ok, "")
		}
	}
	// C40.W1
	c.Who("C40.W1", AtomicOp(c.Field("C40.W1", "p.DB.mu.formatVers.vers"), "Store", "Add", "Swap", "CompareAndSwap"),
		"in-memory format version written only by finalize and Open", "p.(*DB).finalizeFormatVersUpgrade", "p.Open")
	c.Who("C40.W1", FuncRef("p.(*DB).finalizeFormatVersUpgrade"), "finalizeFormatVersUpgrade is called only from migrations", "p.init")
	// C40.O2
	if fn := c.Fn("C40.O2", "p.(*DB).ratchetFormatMajorVersionLocked"); fn != nil {
		fl := NewFlow(c.P).
			Edge("not-downgrade", CmpGuard(token.LEQ, "FormatMajorVersion()", ParamName(fn, 1)))
		res := fl.Analyze(fn, emptyState())
		c.noteFlow(fl)
		mig := Pred("migration call", func(in ssa.Instruction) bool {
			call, ok := in.(*ssa.Call)
			if !ok || call.Common().IsInvoke() || call.Common().StaticCallee() != nil {
				return false
			}
			_, isLookup := call.Common().Value.(*ssa.Lookup)
			return isLookup
		})
		n := c.Require("C40.O2", res, mig, "no migration runs when the target is below the current version", []string{"not-downgrade"})
		if n == 0 {
			c.Unresolved("C40.O2", "migration call (map lookup) not found in ratchetFormatMajorVersionLocked")
		}
		// the loop starts at current+1
		for _, in := range instrs(fn, mig) {
			lk := in.(*ssa.Call).Common().Value.(*ssa.Lookup)
			idx := stripConv(lk.Index)
			phi, ok := idx.(*ssa.Phi)
			good := false
			if ok {
				for _, e := range phi.Edges {
					if bo, ok := e.(*ssa.BinOp); ok && bo.Op == token.ADD {
						if k, isK := constInt(bo.Y); isK && k == 1 && isCallNamed(bo.X, "FormatMajorVersion", "") {
							good = true
						}
					}
				}
			}
			c.Ob("C40.O2", fn, "migration loop starts at current version + 1", c.P.Pos(in.Pos()), good, "")
		}
		// after each migration the ratchet asserts that the version advanced
		fl2 := NewFlow(c.P).Ok("ok:migration", mig)
		res2 := fl2.Analyze(fn, emptyState())
		_ = res2
	}
	// C40.R1: the in-progress flag serialises ratchets across the points where a migration drops
	// DB.mu. A call owns the flag only after it saw it clear: setting it, and arranging for it to be
	// cleared (directly or by a deferred closure), happen on the edge where the flag was tested
	// false. A rejected concurrent call that clears the flag lets a third ratchet overtake the
	// running one, which then finalises its older target: the version goes down.
	if fn := c.Fn("C40.R1", "p.(*DB).ratchetFormatMajorVersionLocked"); fn != nil {
		flag := c.Field("C40.R1", "p.DB.mu.formatVers.ratcheting")
		if n := c.FlagOwnership("C40.R1", fn, flag, "the in-progress flag is set, and its reset arranged, only by the call that saw it clear"); n < 2 {
			c.Unresolved("C40.R1", "store to formatVers.ratcheting and its (deferred) reset not found in ratchetFormatMajorVersionLocked")
		}
	}
	// C40.T1
	consts := c.ConstsOfType("C40.T1", "p.FormatMajorVersion")
	minV, okMin := c.ConstInt("p", "FormatMinSupported")
	maxV, okMax := c.ConstInt("p", "internalFormatNewest")
	init, pkg := c.VarInit("C40.T1", "p", "formatMajorVersionMigrations")
	if init == nil || !okMin || !okMax {
		if !okMin || !okMax {
			c.Unresolved("C40.T1", "FormatMinSupported / internalFormatNewest constants not found")
		}
		return
	}
	lit, ok := init.(*ast.CompositeLit)
	if !ok {
		c.Unresolved("C40.T1", "formatMajorVersionMigrations is not a composite literal")
		return
	}
	entries := map[int64]*ast.FuncLit{}
	for _, el := range lit.Elts {
		kv, ok := el.(*ast.KeyValueExpr)
		if !ok {
			continue
		}
		k, ok := constValOf(pkg, kv.Key)
		if !ok {
			c.Unresolved("C40.T1", "non-constant key in formatMajorVersionMigrations")
			continue
		}
		if fl, ok := kv.Value.(*ast.FuncLit); ok {
			entries[k] = fl
		} else {
			entries[k] = nil
		}
	}
	seen := map[int64]bool{}
	for _, k := range consts {
		if k.Val < minV || k.Val > maxV || seen[k.Val] {
			continue
		}
		seen[k.Val] = true
		fl, has := entries[k.Val]
		c.Ob("C40.T1", nil, fmt.Sprintf("version %s(%d) has a migration entry", k.Name, k.Val), c.P.Pos(lit.Pos()), has,
			map[bool]string{true: "", false: "no entry in formatMajorVersionMigrations: ratcheting through this version would call a nil function"}[has])
		if !has || fl == nil {
			continue
		}
		fn := c.FuncOfLit(fl)
		if fn == nil {
			c.Unresolved("C40.T1", fmt.Sprintf("SSA function for migration %s not found", k.Name))
			continue
		}
		if k.Val == minV {
			continue // nothing to migrate to the minimum supported version
		}
		flw := NewFlow(c.P).Ok("ok:finalize", CallTo("p.(*DB).finalizeFormatVersUpgrade"))
		res := flw.Analyze(fn, emptyState())
		c.noteFlow(flw)
		c.RequireAtSuccess("C40.T1", res, fmt.Sprintf("migration to %s finalizes", k.Name), []string{"ok:finalize"})
		calls := instrs(fn, CallTo("p.(*DB).finalizeFormatVersUpgrade"))
		for _, in := range calls {
			args := in.(*ssa.Call).Common().Args
			v, isK := constInt(args[len(args)-1])
			okk := isK && v == k.Val
			c.Ob("C40.T1", fn, fmt.Sprintf("migration for %s finalizes %s", k.Name, k.Name), c.P.Pos(in.Pos()), okk,
				map[bool]string{true: "", false: fmt.Sprintf("finalizes version %d instead of %d", v, k.Val)}[okk])
		}
		// every error-returning call before finalize gates it
		flg := NewFlow(c.P)
		var gates []string
		for _, b := range fn.Blocks {
			for _, in := range b.Instrs {
				call, ok := in.(*ssa.Call)
				if !ok || CallTo("p.(*DB).finalizeFormatVersUpgrade").F(in) || !returnsError(call.Common().Signature()) {
					continue
				}
				name := fmt.Sprintf("ok:%s@%d", infoOfCommon(call.Common()).Short, len(gates))
				this := call
				flg.Ok(name, Pred(name, func(x ssa.Instruction) bool { return x == ssa.Instruction(this) }))
				gates = append(gates, name)
			}
		}
		if len(gates) > 0 {
			resg := flg.Analyze(fn, emptyState())
			c.Require("C40.T1", resg, CallTo("p.(*DB).finalizeFormatVersUpgrade"), fmt.Sprintf("migration work for %s succeeded ⊢ finalize", k.Name), gates)
		}
	}
	c.MinObs("C40.T1", 10)
}

// versionReadUnderManifestLock (added after seed C40-c): the functions listed by the callers build
// a version edit that NAMES EXISTING TABLES / BLOB FILES of the current version (marks them,
// replaces them, decides a target level from them). logLock releases DB.mu while it waits for an
// in-flight MANIFEST write, so a version read before UpdateVersionLocked may be stale by the time
// the edit is applied; the edit then names tables that no longer exist (and a later Open fails on
// "unknown table … marked for compaction"). The instances were confirmed by reading and are frozen
// by name; the rule per instance: (a) the closure passed to UpdateVersionLocked — or a static
// callee of it, two levels — reads versionSet.currentVersion(); (b) nothing derived from a
// currentVersion() call made OUTSIDE the closure in the same function is captured by the closure.
func versionReadUnderManifestLock(c *Ctx, rule string, names ...string) {
	cur := c.Fn(rule, "p.(*versionSet).currentVersion")
	upd := c.Fn(rule, "p.(*versionSet).UpdateVersionLocked")
	if cur == nil || upd == nil {
		return
	}
	isCur := Pred("currentVersion()", func(in ssa.Instruction) bool {
		cc := getCallCommon(in)
		return cc != nil && cc.StaticCallee() == cur
	})
	var containsCur func(f *ssa.Function, d int, seen map[*ssa.Function]bool) bool
	containsCur = func(f *ssa.Function, d int, seen map[*ssa.Function]bool) bool {
		if seen[f] {
			return false
		}
		seen[f] = true
		if len(instrs(f, isCur)) > 0 {
			return true
		}
		for _, a := range f.AnonFuncs {
			if containsCur(a, d, seen) {
				return true
			}
		}
		if d >= 2 {
			return false
		}
		for _, b := range f.Blocks {
			for _, in := range b.Instrs {
				if call, ok := in.(*ssa.Call); ok {
					if cal := call.Common().StaticCallee(); cal != nil && inModule(cal) && len(cal.Blocks) > 0 && containsCur(cal, d+1, seen) {
						return true
					}
				}
			}
		}
		return false
	}
	for _, name := range names {
		fn := c.Fn(rule, name)
		if fn == nil {
			continue
		}
		n := 0
		for _, b := range fn.Blocks {
			for _, in := range b.Instrs {
				call, ok := in.(*ssa.Call)
				if !ok || call.Common().StaticCallee() != upd {
					continue
				}
				args := call.Common().Args
				mc, ok := args[len(args)-1].(*ssa.MakeClosure)
				if !ok {
					c.Unresolved(rule, "UpdateVersionLocked in "+name+" is not passed a function literal")
					continue
				}
				n++
				clo := mc.Fn.(*ssa.Function)
				okA := containsCur(clo, 0, map[*ssa.Function]bool{})
				c.Ob(rule, fn, "the version this edit is derived from is read inside the UpdateVersionLocked closure", c.P.Pos(call.Pos()), okA,
					map[bool]string{true: "", false: "the closure passed to UpdateVersionLocked no longer reads versionSet.currentVersion(): the edit is built from a version read before the manifest lock was taken, which a concurrent compaction may have replaced"}[okA])
				// (b) forward taint from outside reads into the closure's bindings
				bind := map[ssa.Value]bool{}
				for _, bv := range mc.Bindings {
					bind[bv] = true
				}
				for _, oc := range instrs(fn, isCur) {
					tainted := map[ssa.Value]bool{}
					var work []ssa.Value
					push := func(v ssa.Value) {
						if v != nil && !tainted[v] {
							tainted[v] = true
							work = append(work, v)
						}
					}
					push(oc.(ssa.Value))
					hit := false
					for steps := 0; len(work) > 0 && steps < 4000; steps++ {
						v := work[len(work)-1]
						work = work[:len(work)-1]
						if bind[v] {
							hit = true
							break
						}
						refs := v.Referrers()
						if refs == nil {
							continue
						}
						for _, r := range *refs {
							switch x := r.(type) {
							case *ssa.Store:
								if x.Val == v {
									// the cell (and the local it is part of) now holds tainted data
									push(x.Addr)
									if root := rootAlloc(x.Addr); root != nil {
										push(root)
									}
								}
							case *ssa.MakeClosure:
								if x != mc {
									continue
								}
								hit = true
							case ssa.Value:
								push(x)
							}
						}
					}
					c.Ob(rule, fn, "no version read before the manifest lock is captured by the UpdateVersionLocked closure", c.P.Pos(oc.Pos()), !hit,
						map[bool]string{true: "", false: "a value derived from this currentVersion() call (made before UpdateVersionLocked took the manifest lock) is captured by the closure that builds the version edit"}[!hit])
				}
			}
		}
		if n == 0 {
			c.Unresolved(rule, "no UpdateVersionLocked call with a closure found in "+name)
		}
	}
}
