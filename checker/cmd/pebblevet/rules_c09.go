package main

import (
	"golang.org/x/tools/go/ssa"
)

func init() {
	register("C09", []string{"."}, runC09)
	propTechnique["C09"] = "SSA must-facts dataflow over the range-key masking state (tag coherence between the active mask and the block-property filter; the filter and the point skip are consulted only on the mask-active edge)"
	propExplain["C09"] = "Decides the clauses of C09 that are in the shape of the masking code — 'no other point is hidden' and 'the same with or without a block-property filter mask' on their state-machine side; the three-way suffix comparison s <= r < p itself is value-level (it needs the comparer's semantics) and is not decided. (M1) at every return of rangeKeyMasking.SpanChanged the block-property filter is coherent with the mask state: either no span is masking (maskSpan is nil), or no filter is configured, or filter.SetSuffix was called after the last change of the active mask suffix — a filter left with the previous span's suffix skips blocks whose points the new span does not mask; (M2) Intersects and SyntheticSuffixIntersects pass the decision to the user's filter only on the maskSpan != nil edge (with no active mask every block intersects), and ask it the same question they were asked — the method of the same name with all of their own parameters, so a table's synthetic suffix is never dropped; (M3) SkipPoint answers true only on the maskSpan != nil edge. (M4) KeyIsWithinLowerBound / KeyIsWithinUpperBound compare the masking span's Start / End with the whole block bound they are given, not with a part of it. Does not decide which suffixes mask which (value-level), nor the direction and strictness of the bound comparisons."
}

func runC09(c *Ctx) {
	maskSpan := c.Field("C09.M1", "p.rangeKeyMasking.maskSpan")
	suffix := c.Field("C09.M1", "p.rangeKeyMasking.maskActiveSuffix")
	if maskSpan == nil || suffix == nil {
		return
	}
	isNilStore := func(in ssa.Instruction) bool {
		st, ok := in.(*ssa.Store)
		if !ok {
			return false
		}
		k, isK := stripConv(st.Val).(*ssa.Const)
		return isK && k.Value == nil
	}
	maskNil := func(onNil bool) CondM {
		return func(v ssa.Value) (bool, bool) {
			bo, ok := v.(*ssa.BinOp)
			if !ok {
				return false, false
			}
			var x ssa.Value
			switch {
			case isNilConst(bo.Y):
				x = bo.X
			case isNilConst(bo.X):
				x = bo.Y
			default:
				return false, false
			}
			if !isLoadOfField(x, maskSpan) {
				return false, false
			}
			neg := bo.Op.String() == "!=" // `!=`: the nil fact is on the false edge
			if !onNil {
				neg = !neg
			}
			return true, neg
		}
	}
	setSuffix := Pred("filter.SetSuffix", func(in ssa.Instruction) bool {
		cc := getCallCommon(in)
		return cc != nil && infoOfCommon(cc).Short == "SetSuffix"
	})
	// ---- M1 ----
	if fn := c.Fn("C09.M1", "p.(*rangeKeyMasking).SpanChanged"); fn != nil {
		storeSpanNil := And(StoreTo(maskSpan), Pred("= nil", isNilStore))
		storeSpanSet := And(StoreTo(maskSpan), Pred("= span", func(in ssa.Instruction) bool { return !isNilStore(in) }))
		fl := NewFlow(c.P).
			After("no-mask", storeSpanNil).KillAfter("no-mask", storeSpanSet).Edge("no-mask", maskNil(true)).
			After("suffix-sent", setSuffix).KillAfter("suffix-sent", StoreTo(suffix)).
			Edge("no-filter", ZeroGuard("RangeKeyMasking.Filter")).
			KillAfter("filter-coherent", Or(storeSpanSet, StoreTo(suffix))).
			Derive("filter-coherent", []string{"no-mask"}, []string{"suffix-sent"}, []string{"no-filter"})
		fl.MaxDepth = 0
		res := fl.Analyze(fn, emptyState())
		c.noteFlow(fl)
		if n := c.Require("C09.M1", res, AnyReturn, "on return the block-property filter is configured for the active mask (or there is no mask / no filter)", []string{"filter-coherent"}); n == 0 {
			c.Unresolved("C09.M1", "no return in SpanChanged")
		}
		if len(instrs(fn, setSuffix)) == 0 || len(instrs(fn, StoreTo(suffix))) == 0 {
			c.Unresolved("C09.M1", "SetSuffix call / store to maskActiveSuffix not found in SpanChanged")
		}
	}
	// ---- M2 ----
	n2 := 0
	for _, name := range []string{"p.(*rangeKeyMasking).Intersects", "p.(*rangeKeyMasking).SyntheticSuffixIntersects"} {
		fn := c.Fn("C09.M2", name)
		if fn == nil {
			continue
		}
		consult := Pred("user filter consulted", func(in ssa.Instruction) bool {
			cc := getCallCommon(in)
			if cc == nil {
				return false
			}
			ci := infoOfCommon(cc)
			return (ci.Short == "Intersects" || ci.Short == "SyntheticSuffixIntersects") && ci.Recv != nil && pathHasSuffix(pathOf(ci.Recv), "recv.filter")
		})
		fl := NewFlow(c.P).Edge("mask-active", maskNil(false))
		fl.MaxDepth = 0
		res := fl.Analyze(fn, emptyState())
		c.noteFlow(fl)
		n2 += c.Require("C09.M2", res, consult, "the user's block-property filter decides only while a range key is masking", []string{"mask-active"})
		// pass-through agreement (added after seed C09-b): the wrapper asks the user's filter the
		// SAME question it was asked — the method of the same name, with all of its own parameters.
		// Asking Intersects(prop) for a table with a synthetic suffix judges the block by the
		// suffixes its keys no longer carry.
		for _, in := range instrs(fn, consult) {
			cc := getCallCommon(in)
			same := infoOfCommon(cc).Short == fn.Name()
			params := fn.Params[1:]
			args := cc.Args
			if !cc.IsInvoke() && len(args) > 0 {
				args = args[1:]
			}
			allPassed := len(args) == len(params)
			for i := range params {
				if i >= len(args) || stripConv(args[i]) != ssa.Value(params[i]) {
					allPassed = false
				}
			}
			ok := same && allPassed
			c.Ob("C09.M2", fn, "the wrapper passes its own question on to the user's filter unchanged", c.P.Pos(in.Pos()), ok,
				map[bool]string{true: "", false: "the user's filter is asked " + infoOfCommon(cc).Short + " instead of " + fn.Name() + " with this call's parameters"}[ok])
		}
	}
	if n2 < 2 {
		c.Unresolved("C09.M2", "the pass-through calls to the user filter were not found")
	}
	// ---- M4 (added after seed C09-a): the bound tests compare the WHOLE block bound ----
	// KeyIsWithinLowerBound / KeyIsWithinUpperBound restrict the filter to blocks that lie inside
	// the masking range key. The block bound they are given is an index separator; comparing only
	// a part of it (its prefix) with the span's Start / End admits a block that straddles a
	// suffixed End, and the filter then skips points no range key covers.
	for _, spec := range []struct{ name, bound string }{
		{"p.(*rangeKeyMasking).KeyIsWithinLowerBound", "Start"},
		{"p.(*rangeKeyMasking).KeyIsWithinUpperBound", "End"},
	} {
		fn := c.Fn("C09.M4", spec.name)
		if fn == nil {
			continue
		}
		keyParam := fn.Params[1]
		n := 0
		for _, b := range fn.Blocks {
			for _, in := range b.Instrs {
				call, ok := in.(*ssa.Call)
				if !ok || call.Common().IsInvoke() || call.Common().StaticCallee() != nil || len(call.Common().Args) != 2 {
					continue
				}
				hasBound, whole := false, false
				for _, a := range call.Common().Args {
					if pathHasSuffix(pathOf(a), "maskSpan."+spec.bound) {
						hasBound = true
					}
					if stripConv(a) == ssa.Value(keyParam) {
						whole = true
					}
				}
				if !hasBound {
					continue
				}
				n++
				c.Ob("C09.M4", fn, "the masking span's "+spec.bound+" is compared with the whole block bound", c.P.Pos(call.Pos()), whole,
					map[bool]string{true: "", false: "the comparison with maskSpan." + spec.bound + " is not given the block bound parameter itself (a slice or transformation of it is compared instead)"}[whole])
			}
		}
		if n == 0 {
			c.Unresolved("C09.M4", "no comparison with maskSpan."+spec.bound+" found in "+spec.name)
		}
	}
	// ---- M3 ----
	if fn := c.Fn("C09.M3", "p.(*rangeKeyMasking).SkipPoint"); fn != nil {
		fl := NewFlow(c.P).Edge("mask-active", maskNil(false))
		fl.MaxDepth = 0
		res := fl.Analyze(fn, emptyState())
		c.noteFlow(fl)
		skip := Pred("return true", func(in ssa.Instruction) bool {
			ret, ok := in.(*ssa.Return)
			if !ok || len(ret.Results) != 1 {
				return false
			}
			k, isK := ret.Results[0].(*ssa.Const)
			return !(isK && k.Value != nil && k.Value.String() == "false")
		})
		if n := c.Require("C09.M3", res, skip, "a point is skipped only while a range key is masking", []string{"mask-active"}); n == 0 {
			c.Unresolved("C09.M3", "no `return true` in SkipPoint")
		}
	}
}
