package main

import (
	"go/ast"
	"go/constant"
	"go/token"
	"go/types"
	"sort"

	"golang.org/x/tools/go/packages"
	"golang.org/x/tools/go/ssa"
)

// ---------------------------------------------------------------------------
// E5 TABLE helpers (AST + go/types): enum constants, map literals, switches.
// ---------------------------------------------------------------------------

type enumConst struct {
	Name string
	Val  int64
	Obj  *types.Const
}

// ConstsOfType lists the package-level constants of the named type declared in
// the type's own package (sorted by value, then name), skipping "_".
func (c *Ctx) ConstsOfType(rule, typeSpec string) []enumConst {
	t := c.P.TypeByPath(typeSpec)
	if t == nil {
		c.Unresolved(rule, "type anchor not found: "+typeSpec)
		return nil
	}
	nt, ok := t.(*types.Named)
	if !ok {
		return nil
	}
	scope := nt.Obj().Pkg().Scope()
	var out []enumConst
	for _, n := range scope.Names() {
		k, ok := scope.Lookup(n).(*types.Const)
		if !ok || !types.Identical(k.Type(), t) || k.Val().Kind() != constant.Int {
			continue
		}
		v, _ := constant.Int64Val(k.Val())
		out = append(out, enumConst{n, v, k})
	}
	sort.Slice(out, func(i, j int) bool {
		if out[i].Val != out[j].Val {
			return out[i].Val < out[j].Val
		}
		return out[i].Name < out[j].Name
	})
	return out
}

// pkgOf returns the loaded root package for an alias.
func (c *Ctx) pkgOf(rule, alias string) *packages.Package {
	p := c.P.ByPath[pkgAlias[alias]]
	if p == nil {
		c.Unresolved(rule, "package not loaded: "+alias)
	}
	return p
}

// VarInit returns the initialiser expression of a package-level variable.
func (c *Ctx) VarInit(rule, alias, name string) (ast.Expr, *packages.Package) {
	p := c.pkgOf(rule, alias)
	if p == nil {
		return nil, nil
	}
	for _, f := range p.Syntax {
		for _, d := range f.Decls {
			gd, ok := d.(*ast.GenDecl)
			if !ok || gd.Tok != token.VAR {
				continue
			}
			for _, sp := range gd.Specs {
				vs := sp.(*ast.ValueSpec)
				for i, id := range vs.Names {
					if id.Name == name && i < len(vs.Values) {
						return vs.Values[i], p
					}
				}
			}
		}
	}
	c.Unresolved(rule, "variable anchor not found: "+alias+"."+name)
	return nil, nil
}

// constValOf evaluates an expression to an integer constant using type info.
func constValOf(p *packages.Package, e ast.Expr) (int64, bool) {
	tv, ok := p.TypesInfo.Types[e]
	if !ok || tv.Value == nil || tv.Value.Kind() != constant.Int {
		return 0, false
	}
	v, exact := constant.Int64Val(tv.Value)
	return v, exact
}

// FuncOfLit finds the SSA function built for a function literal.
func (c *Ctx) FuncOfLit(lit *ast.FuncLit) *ssa.Function {
	for _, fn := range c.P.AllFuncs {
		if fn.Syntax() == ast.Node(lit) {
			return fn
		}
	}
	return nil
}

// switchInfo describes one switch statement over a constant-valued tag.
type switchInfo struct {
	Stmt      *ast.SwitchStmt
	Cases     map[int64]*ast.CaseClause // constant case values
	CaseNames map[int64]string
	Default   *ast.CaseClause
	NonConst  bool // some case expression is not a constant
	TagType   types.Type
}

// SwitchesOn returns the switch statements inside node whose tag has the given
// named type (by types.Identical), in source order. Tag-less switches whose
// cases compare a value of that type (`switch { case k == X: }`) are ignored.
func SwitchesOn(p *packages.Package, node ast.Node, t types.Type) []*switchInfo {
	var out []*switchInfo
	ast.Inspect(node, func(n ast.Node) bool {
		sw, ok := n.(*ast.SwitchStmt)
		if !ok || sw.Tag == nil {
			return true
		}
		tt := p.TypesInfo.TypeOf(sw.Tag)
		if tt == nil || !types.Identical(tt, t) {
			return true
		}
		si := &switchInfo{Stmt: sw, Cases: map[int64]*ast.CaseClause{}, CaseNames: map[int64]string{}, TagType: tt}
		for _, st := range sw.Body.List {
			cc := st.(*ast.CaseClause)
			if cc.List == nil {
				si.Default = cc
				continue
			}
			for _, e := range cc.List {
				if v, ok := constValOf(p, e); ok {
					si.Cases[v] = cc
					si.CaseNames[v] = exprString(e)
				} else {
					si.NonConst = true
				}
			}
		}
		out = append(out, si)
		return true
	})
	return out
}

func exprString(e ast.Expr) string {
	switch x := e.(type) {
	case *ast.Ident:
		return x.Name
	case *ast.SelectorExpr:
		return exprString(x.X) + "." + x.Sel.Name
	case *ast.BasicLit:
		return x.Value
	case *ast.CallExpr:
		if len(x.Args) == 1 {
			return exprString(x.Fun) + "(" + exprString(x.Args[0]) + ")"
		}
	}
	return "?"
}

// clauseFailStop reports whether a case clause fails closed: somewhere in its body (nested
// blocks included) it panics / calls a *Fatal* function, returns a non-nil value of type error,
// or assigns a non-nil value to a variable or field of type error. A bare `return`, or a return
// of non-error values, does NOT count: `default: return i.mergeForward(key)` treats an unknown
// kind like a known one.
func clauseFailStop(p *packages.Package, cc *ast.CaseClause) bool {
	if cc == nil || len(cc.Body) == 0 {
		return false
	}
	isErr := func(e ast.Expr) bool {
		t := p.TypesInfo.TypeOf(e)
		return t != nil && isErrorType(t)
	}
	isNil := func(e ast.Expr) bool {
		id, ok := e.(*ast.Ident)
		return ok && id.Name == "nil"
	}
	found := false
	for _, st := range cc.Body {
		ast.Inspect(st, func(n ast.Node) bool {
			if found {
				return false
			}
			switch s := n.(type) {
			case *ast.FuncLit:
				return false
			case *ast.ExprStmt:
				if call, ok := s.X.(*ast.CallExpr); ok {
					name := exprString(call.Fun)
					if name == "panic" || hasSuffixStr(name, "Fatalf") || hasSuffixStr(name, "Fatal") {
						found = true
					}
				}
			case *ast.ReturnStmt:
				for _, r := range s.Results {
					if isErr(r) && !isNil(r) {
						found = true
					}
					// return f(...) where f's last result is an error: the callee decides
					if tup, ok := p.TypesInfo.TypeOf(r).(*types.Tuple); ok && tup.Len() > 0 && isErrorType(tup.At(tup.Len()-1).Type()) {
						found = true
					}
				}
			case *ast.AssignStmt:
				for i, l := range s.Lhs {
					if i < len(s.Rhs) && isErr(l) && !isNil(s.Rhs[i]) {
						found = true
					}
				}
			}
			return true
		})
	}
	return found
}

func hasSuffixStr(s, suf string) bool {
	return len(s) >= len(suf) && s[len(s)-len(suf):] == suf
}

func constantInt64(v constant.Value) (int64, bool) {
	if v == nil || v.Kind() != constant.Int {
		return 0, false
	}
	return constant.Int64Val(v)
}
