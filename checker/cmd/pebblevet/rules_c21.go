package main

import (
	"go/token"

	"golang.org/x/tools/go/ssa"
)

func init() {
	register("C21", []string{"./wal", "./record", "."}, runC21)
	propExplain["C21"] = "Decides structural clauses of C21 in the WAL failover writer/reader: a record is queued for replay before it is handed to the current log writer; nothing is dequeued on a failed sync; the installation of a new writer and the snapshot/replay of the queue happen in one critical section; on Close only the LAST writer is told that the last queued record is synced (older writers never saw the records written after the switch); the record queue reclaims consumed slots before it writes the new entry (the new entry may reuse such a slot); the reader returns a record only if its sequence number is strictly above the last returned one and then advances that watermark, skips empty batches first, and moves to the next segment only on EOF-class errors (C19.S1). Does not decide ordering across segments beyond the gate, or stall schedules."
}

func runC21(c *Ctx) {
	// C21.O1
	if fn := c.Fn("C21.O1", "wal.(*failoverWriter).WriteRecord"); fn != nil {
		c.Chain("C21.O1", fn, nil,
			Step{Name: "q.push", M: CallTo("wal.(*recordQueue).push")},
			Step{Name: "SyncRecordGeneralized", M: CallTo("rec.(*LogWriter).SyncRecordGeneralized")},
		)
	}
	// C21.G1
	if fn := c.Fn("C21.G1", "wal.(*failoverWriter).doneSyncCallback"); fn != nil {
		fl := NewFlow(c.P).Edge("sync-ok", ZeroGuard(ParamName(fn, 2)))
		res := fl.Analyze(fn, emptyState())
		n := c.Require("C21.G1", res, CallTo("wal.(*recordQueue).pop"), "records are dequeued only after a successful sync", []string{"sync-ok"})
		if n == 0 {
			c.Unresolved("C21.G1", "q.pop not found in doneSyncCallback")
		}
	}
	// C21.O2: switch: writer installation and queue snapshot in one ww.mu region
	if outer := c.Fn("C21.O2", "wal.(*failoverWriter).switchToNewDir"); outer != nil {
		if clo := c.ClosureWith("C21.O2", outer, CallTo("wal.(*recordQueue).snapshotAndSwitchWriter")); clo != nil {
			fl := NewFlow(c.P).After("held:ww.mu", MethodOn("Lock", "recv.mu")).KillAfter("held:ww.mu", MethodOn("Unlock", "recv.mu"))
			res := fl.Analyze(clo, emptyState())
			c.noteFlow(fl)
			n := c.Require("C21.O2", res, CallTo("wal.(*recordQueue).snapshotAndSwitchWriter"), "queue snapshot/replay under ww.mu", []string{"held:ww.mu"})
			n += c.Require("C21.O2", res, StorePath("writers[].w"), "new writer published under ww.mu", []string{"held:ww.mu"})
			if n < 2 {
				c.Unresolved("C21.O2", "writer installation / snapshotAndSwitchWriter not found in the switch closure")
			}
			c.Chain("C21.O2", clo, nil,
				Step{Name: "publish writers[i].w", M: StorePath("writers[].w")},
				Step{Name: "snapshotAndSwitchWriter", M: CallTo("wal.(*recordQueue).snapshotAndSwitchWriter")},
			)
		}
	}
	// C21.G3: only the last writer acknowledges the last queued record at Close
	if fn := c.Fn("C21.G3", "wal.(*failoverWriter).closeInternal"); fn != nil {
		closesWithLast := Pred("closure calling CloseWithLastQueuedRecord(lastRecordIndex)", func(in ssa.Instruction) bool {
			mc, ok := in.(*ssa.MakeClosure)
			if !ok {
				return false
			}
			clo, ok := mc.Fn.(*ssa.Function)
			if !ok {
				return false
			}
			for _, x := range instrs(clo, CallTo("rec.(*LogWriter).CloseWithLastQueuedRecord")) {
				args := x.(*ssa.Call).Common().Args
				if !isNoSyncIndexLiteral(c, args[len(args)-1]) {
					return true
				}
			}
			return false
		})
		fl := NewFlow(c.P).Edge("is-last-writer", lastWriterGuard())
		res := fl.Analyze(fn, emptyState())
		c.noteFlow(fl)
		n := c.Require("C21.G3", res, closesWithLast, "only the last writer is closed with the last queued record index", []string{"is-last-writer"})
		if n == 0 {
			c.Unresolved("C21.G3", "Close path passing lastRecordIndex not found in closeInternal")
		}
	}
	// C21.Q1: queue push: reclaim consumed slots before writing the new entry
	if fn := c.Fn("C21.Q1", "wal.(*recordQueue).push"); fn != nil {
		isEntryStore := func(zero bool) M {
			return Pred("store to q.buffer[…]", func(in ssa.Instruction) bool {
				st, ok := in.(*ssa.Store)
				if !ok {
					return false
				}
				ia, ok := st.Addr.(*ssa.IndexAddr)
				if !ok || !pathHasSuffix(pathOf(ia.X), "recv.buffer") {
					return false
				}
				// the reclaim store writes the zero value; the push store writes a literal built from p/opts
				isZero := false
				if k, ok := st.Val.(*ssa.Const); ok && k.Value == nil {
					isZero = true
				}
				if u, ok := st.Val.(*ssa.UnOp); ok {
					if a, ok := u.X.(*ssa.Alloc); ok {
						// complit alloc with no field stores == zero value
						hasFieldStore := false
						if a.Referrers() != nil {
							for _, r := range *a.Referrers() {
								if _, ok := r.(*ssa.FieldAddr); ok {
									hasFieldStore = true
								}
							}
						}
						isZero = !hasFieldStore
					}
				}
				return isZero == zero
			})
		}
		fl := NewFlow(c.P).KillAfter("new-entry-not-written-yet", isEntryStore(false))
		entry := emptyState()
		entry.add("new-entry-not-written-yet")
		res := fl.Analyze(fn, entry)
		c.noteFlow(fl)
		n := c.Require("C21.Q1", res, isEntryStore(true), "consumed slots are reclaimed before the new entry is written", []string{"new-entry-not-written-yet"})
		if n == 0 || len(instrs(fn, isEntryStore(false))) == 0 {
			c.Unresolved("C21.Q1", "reclaim store / new-entry store not found in recordQueue.push")
		}
	}
	// C21.G2: reader dedup gate
	if fn := c.Fn("C21.G2", "wal.(*virtualWALReader).nextRecord"); fn != nil {
		lastSeq := c.Field("C21.G2", "wal.virtualWALReader.lastSeqNum")
		fl := NewFlow(c.P).
			Edge("seqnum-above-last", CmpGuard(token.GTR, "SeqNum", "recv.lastSeqNum")).
			After("watermark-advanced", StoreTo(lastSeq)).
			Edge("non-empty-batch", NonZeroGuard("Count")).
			IterationLocal("seqnum-above-last", "watermark-advanced", "non-empty-batch")
		res := fl.Analyze(fn, emptyState())
		c.noteFlow(fl)
		c.RequireAtSuccess("C21.G2", res, "dedup gate (SeqNum > lastSeqNum) and watermark update", []string{"seqnum-above-last", "watermark-advanced", "non-empty-batch"})
		n := c.Require("C21.G2", res, StoreTo(lastSeq), "watermark only moves to a larger sequence number", []string{"seqnum-above-last"})
		if n == 0 {
			c.Unresolved("C21.G2", "store to r.lastSeqNum not found")
		}
		for _, in := range instrs(fn, StoreTo(lastSeq)) {
			v := in.(*ssa.Store).Val
			ok := pathHasSuffix(pathOf(v), "SeqNum")
			c.Ob("C21.G2", fn, "watermark is set to the returned batch's SeqNum", c.P.Pos(in.Pos()), ok, "")
		}
	}
	// shared
	c21Shared(c)
}

func c21Shared(c *Ctx) {
	// the reader's tolerated-error classification (C19.S1) and the dir sync on segment creation (C10.O2b)
	if outer := c.Fn("C10.O2b", "wal.(*failoverWriter).switchToNewDir"); outer != nil {
		if clo := c.ClosureWith("C10.O2b", outer, CallTo("rec.NewLogWriter")); clo != nil {
			c.Chain("C10.O2b", clo, nil,
				Step{Name: "logCreator", M: DynCall("opts.logCreator"), Gated: true},
				Step{Name: "dir.Sync", M: MethodOn("Sync", ParamName(outer, 1)), Gated: true},
				Step{Name: "NewLogWriter", M: CallTo("rec.NewLogWriter")},
			)
		}
	}
}

// isNoSyncIndexLiteral: v is record.PendingSyncIndex{Index: record.NoSyncIndex}.
func isNoSyncIndexLiteral(c *Ctx, v ssa.Value) bool {
	noSync, ok := c.ConstInt("rec", "NoSyncIndex")
	if !ok {
		return false
	}
	u, isLoad := v.(*ssa.UnOp)
	if !isLoad {
		return false
	}
	a, isAlloc := u.X.(*ssa.Alloc)
	if !isAlloc || a.Referrers() == nil {
		return false
	}
	for _, r := range *a.Referrers() {
		if fa, ok := r.(*ssa.FieldAddr); ok && fa.Referrers() != nil {
			for _, rr := range *fa.Referrers() {
				if st, ok := rr.(*ssa.Store); ok {
					if k, isK := constInt(st.Val); isK && k == noSync {
						return true
					}
				}
			}
		}
	}
	return false
}

// lastWriterGuard: the condition "<loop index> == <lastWriterState>.index".
func lastWriterGuard() CondM {
	return func(v ssa.Value) (bool, bool) {
		bo, ok := v.(*ssa.BinOp)
		if !ok || (bo.Op != token.EQL && bo.Op != token.NEQ) {
			return false, false
		}
		isIdx := func(x ssa.Value) bool {
			f := fieldOfValue(x)
			return f != nil && f.Name() == "index"
		}
		if isIdx(bo.X) || isIdx(bo.Y) {
			return true, bo.Op == token.NEQ
		}
		return false, false
	}
}
