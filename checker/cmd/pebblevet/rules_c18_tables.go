package main

func runC18Tables(c *Ctx) {}
