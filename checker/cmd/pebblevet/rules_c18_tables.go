package main

import (
	"fmt"
	"go/ast"
	"go/types"
	"sort"
	"strings"
)

// runC18Tables: C18.T1 — the record wire tables agree: every chunk encoding has an entry in
// headerFormatMappings; entries of one wire format share one header size and cover the four
// chunk positions; every function that writes chunk-encoding constants into a header writes
// encodings of ONE wire format and uses that format's header-size constant (and no other).
func runC18Tables(c *Ctx) {
	pkg := c.pkgOf("C18.T1", "rec")
	if pkg == nil {
		return
	}
	encs := constsInBlockOf(pkg, "fullChunkEncoding")
	delete(encs, "invalidChunkEncoding")
	if len(encs) < 12 {
		c.Unresolved("C18.T1", fmt.Sprintf("only %d chunk encodings found", len(encs)))
		return
	}
	init, _ := c.VarInit("C18.T1", "rec", "headerFormatMappings")
	lit, ok := init.(*ast.CompositeLit)
	if !ok {
		c.Unresolved("C18.T1", "headerFormatMappings is not a composite literal")
		return
	}
	type entry struct{ pos, wire, size string }
	table := map[string]entry{}
	for _, el := range lit.Elts {
		kv, ok := el.(*ast.KeyValueExpr)
		if !ok {
			continue
		}
		key := exprString(kv.Key)
		var e entry
		if cl, ok := kv.Value.(*ast.CompositeLit); ok {
			for _, f := range cl.Elts {
				fkv, ok := f.(*ast.KeyValueExpr)
				if !ok {
					continue
				}
				switch exprString(fkv.Key) {
				case "chunkPosition":
					e.pos = exprString(fkv.Value)
				case "wireFormat":
					e.wire = exprString(fkv.Value)
				case "headerSize":
					e.size = exprString(fkv.Value)
				}
			}
		}
		table[key] = e
	}
	var names []string
	for n := range encs {
		names = append(names, n)
	}
	sort.Strings(names)
	sizeOf := map[string]string{}
	positions := map[string]map[string]bool{}
	for _, n := range names {
		e, has := table[n]
		c.Ob("C18.T1", nil, "headerFormatMappings has an entry for "+n, c.P.Pos(lit.Pos()), has,
			map[bool]string{true: "", false: "chunk encoding " + n + " has no header format: the reader treats such chunks as invalid"}[has])
		if !has {
			continue
		}
		if prev, seen := sizeOf[e.wire]; seen && prev != e.size {
			c.Ob("C18.T1", nil, "entries of "+e.wire+" share one header size", c.P.Pos(lit.Pos()), false,
				fmt.Sprintf("%s uses %s but another %s entry uses %s", n, e.size, e.wire, prev))
		}
		sizeOf[e.wire] = e.size
		if positions[e.wire] == nil {
			positions[e.wire] = map[string]bool{}
		}
		positions[e.wire][e.pos] = true
	}
	for w, ps := range positions {
		ok := len(ps) == 4
		c.Ob("C18.T1", nil, "wire format "+w+" has an encoding for each of the four chunk positions", c.P.Pos(lit.Pos()), ok,
			map[bool]string{true: "", false: fmt.Sprintf("only %d distinct positions", len(ps))}[ok])
	}
	// writers
	headerSizes := map[string]bool{}
	for _, s := range sizeOf {
		headerSizes[s] = true
	}
	nWriters := 0
	for _, f := range pkg.Syntax {
		for _, d := range f.Decls {
			fd, ok := d.(*ast.FuncDecl)
			if !ok || fd.Body == nil {
				continue
			}
			used := map[string]bool{}
			usedSizes := map[string]bool{}
			ast.Inspect(fd.Body, func(n ast.Node) bool {
				switch x := n.(type) {
				case *ast.AssignStmt:
					for _, r := range x.Rhs {
						if id, ok := r.(*ast.Ident); ok {
							if _, isEnc := encs[id.Name]; isEnc {
								if _, isConst := pkg.TypesInfo.Uses[id].(*types.Const); isConst {
									used[id.Name] = true
								}
							}
						}
					}
				case *ast.Ident:
					if headerSizes[x.Name] {
						if _, isConst := pkg.TypesInfo.Uses[x].(*types.Const); isConst {
							usedSizes[x.Name] = true
						}
					}
				}
				return true
			})
			if len(used) == 0 {
				continue
			}
			nWriters++
			wires := map[string]bool{}
			for e := range used {
				wires[table[e].wire] = true
			}
			name := fd.Name.Name
			okWire := len(wires) == 1
			c.Ob("C18.T1", nil, "writer "+name+" emits encodings of a single wire format", c.P.Pos(fd.Pos()), okWire,
				map[bool]string{true: "", false: fmt.Sprintf("writes encodings of %d wire formats %v", len(wires), sortedKeys(wires))}[okWire])
			if !okWire {
				continue
			}
			var w string
			for k := range wires {
				w = k
			}
			okSize := usedSizes[sizeOf[w]]
			var extra []string
			for s := range usedSizes {
				if s != sizeOf[w] {
					okSize = false
					extra = append(extra, s)
				}
			}
			c.Ob("C18.T1", nil, "writer "+name+" lays out its payload with the header size of "+w, c.P.Pos(fd.Pos()), okSize,
				map[bool]string{true: "", false: fmt.Sprintf("expected only %s, found %v %s: the reader would locate the payload at a different offset", sizeOf[w], sortedKeys(usedSizes), strings.Join(extra, ","))}[okSize])
		}
	}
	if nWriters < 3 {
		c.Unresolved("C18.T1", fmt.Sprintf("only %d header-writing functions found in package record", nWriters))
	}
}
