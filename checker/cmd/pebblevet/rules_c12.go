package main

import (
	"fmt"
	"go/token"
	"go/types"
	"strings"

	"golang.org/x/tools/go/ssa"
)

func init() {
	register("C12", []string{".", "./record", "./objstorage/objstorageprovider", "./internal/manifest", "./vfs/atomicfs"}, runC12)
	propExplain["C12"] = "Decides ordering clauses of C12: in DB.flush1 the flushed memtables are removed from the queue, the read state is refreshed and the flushed channels are closed only through the nil-error edge of the MANIFEST update, which itself follows the (synced) write of the tables; Flush waits for the flushed channel captured before the memtable rotation; LogWriter.Close waits for the flush loop and syncs before closing; the object provider publishes as 'synced' only a change counter it captured BEFORE the directory sync started (a creation racing with the sync must be synced again). Shares C10.O3 (tables synced before named), C22 (MANIFEST protocol) and C10.E1 (no error of a durability call — closing the old WAL at a rotation, syncing, creating the next log — is dropped). Does not cover NoSyncOnClose configurations. (V1 gate) the object provider advances a tier's directory-sync watermark only through the nil-error edge of that tier's directory Sync."
}

func runC12(c *Ctx) {
	// C10.E1 shared: "Flush/Close returned nil" means something only if no error of a durability
	// call on the way (closing the old WAL at a rotation, syncing, creating the next log) is dropped.
	if n := c.ErrFlow("C10.E1", durabilityCallees(c, "C10.E1"), enginePkg, c10ErrExceptions); n < 50 {
		c.Unresolved("C10.E1", fmt.Sprintf("only %d durability call sites found", n))
	}
	// C12.O1
	if fn := c.Fn("C12.O1", "p.(*DB).flush1"); fn != nil {
		ingestKind, _ := c.ConstInt("p", "compactionKindIngestedFlushable")
		fl := NewFlow(c.P).Edge("wrote-tables|ingest", CmpGuard(token.EQL, "kind", fmt.Sprint(ingestKind)))
		queue := c.Field("C12.O1", "p.DB.mu.mem.queue")
		res := c.Chain("C12.O1", fn, fl,
			Step{Name: "runCompaction", M: CallTo("p.(*DB).runCompaction"), Also: "wrote-tables|ingest", Free: true},
			Step{Name: "UpdateVersionLocked", M: CallTo("p.(*versionSet).UpdateVersionLocked"), Gated: true, Need: []string{"wrote-tables|ingest"}},
			Step{Name: "truncate mem.queue", M: StoreTo(queue)},
		)
		c.Require("C12.O1", res, CallTo("p.(*DB).updateReadStateLocked"), "UpdateVersionLocked ⊢ updateReadStateLocked", []string{"ok:UpdateVersionLocked"})
		c.Require("C12.O1", res, CallTo("p.(*DB).maybeTransitionSnapshotsToFileOnlyLocked"), "UpdateVersionLocked ⊢ EFOS transition", []string{"ok:UpdateVersionLocked"})
		// close(flushed[i].flushed): the slice being ranged over was taken from the queue on the success edge
		n := 0
		for _, in := range instrs(fn, BuiltinCall("close", "flushed")) {
			n++
			arg := in.(*ssa.Call).Common().Args[0]
			leaves := derivesFrom(arg, func(v ssa.Value) bool {
				sl, ok := v.(*ssa.Slice)
				return ok && isLoadOfField(sl.X, queue)
			}, 8)
			ok := len(leaves) > 0
			detail := ""
			if !ok {
				detail = "the channels closed no longer come from a slice of d.mu.mem.queue"
			}
			for _, l := range leaves {
				if !res.stateBefore(l.(ssa.Instruction)).has("ok:UpdateVersionLocked") {
					ok = false
					detail = "the flushables whose 'flushed' channel is closed are taken from the queue on a path where the MANIFEST update did not succeed"
				}
			}
			c.Ob("C12.O1", fn, "flushed channels closed only for memtables recorded in the MANIFEST", c.P.Pos(in.Pos()), ok, detail)
		}
		if n == 0 {
			c.Unresolved("C12.O1", "close(flushed[i].flushed) not found in flush1")
		}
	}
	// C12.O2
	if fn := c.Fn("C12.O2", "p.(*DB).AsyncFlush"); fn != nil {
		flushedF := c.Field("C12.O2", "p.flushableEntry.flushed")
		c.Chain("C12.O2", fn, nil,
			Step{Name: "capture queue[last].flushed", M: Pred("load .flushed", func(in ssa.Instruction) bool {
				u, ok := in.(*ssa.UnOp)
				return ok && isLoadOfField(u, flushedF)
			})},
			Step{Name: "makeRoomForWrite", M: CallTo("p.(*DB).makeRoomForWrite")},
		)
		// the channel returned is the captured one
		res := NewFlow(c.P).Ok("ok:makeRoom", CallTo("p.(*DB).makeRoomForWrite")).Analyze(fn, emptyState())
		c.RequireAtSuccess("C12.O2", res, "makeRoomForWrite", []string{"ok:makeRoom"})
	}
	if fn := c.Fn("C12.O2", "p.(*DB).Flush"); fn != nil {
		fl := NewFlow(c.P).After("did:wait", Pred("<-flushDone", func(in ssa.Instruction) bool {
			u, ok := in.(*ssa.UnOp)
			return ok && u.Op == token.ARROW && len(derivesFrom(u.X, CallPred("AsyncFlush", ""), 3)) > 0
		}))
		res := fl.Analyze(fn, emptyState())
		c.RequireAtSuccess("C12.O2", res, "wait for the flush", []string{"did:wait"})
	}
	// C12.O3 (= C20.O4)
	c20CloseInternal(c, "C12.O3")
	// C12.V1: sync watermark captured before the sync
	c12SyncWatermark(c, "C12.V1")
	// shared
	runC10O3(c)
	runC22(c)
}

// c12SyncWatermark: in provider.localSync every value stored into
// objChangeCounterLastSync derives from a read of objChangeCounter that
// happened before the directory sync.
func c12SyncWatermark(c *Ctx, rule string) {
	fn := c.Fn(rule, "osp.(*provider).localSync")
	if fn == nil {
		return
	}
	isCounterRead := func(v ssa.Value) bool {
		switch x := v.(type) {
		case *ssa.Field:
			f := fieldVar(x.X.Type(), x.Field)
			return f != nil && f.Name() == "objChangeCounter"
		case *ssa.UnOp:
			if x.Op != token.MUL {
				return false
			}
			if fa, ok := x.X.(*ssa.FieldAddr); ok {
				f := fieldVar(fa.X.Type(), fa.Field)
				return f != nil && f.Name() == "objChangeCounter"
			}
		}
		return false
	}
	// "no directory sync has started yet" as a must-fact: killed by the sync.
	fl := NewFlow(c.P).KillAfter("no-dirsync-yet", MethodOn("Sync", "fsDir"))
	entry := emptyState()
	entry.add("no-dirsync-yet")
	res := fl.Analyze(fn, entry)
	if len(instrs(fn, MethodOn("Sync", "fsDir"))) == 0 {
		c.Unresolved(rule, "fsDir.Sync not found in localSync")
	}
	c.noteFlow(fl)
	n := 0
	// the values published as "last synced": stored directly, or handed to a helper of the
	// provider that stores one of its parameters (followed back to the argument here)
	type published struct {
		val ssa.Value
		at  ssa.Instruction
	}
	var pubs []published
	for _, in := range instrs(fn, StorePath("objChangeCounterLastSync")) {
		pubs = append(pubs, published{in.(*ssa.Store).Val, in})
	}
	if len(pubs) == 0 {
		for _, b := range fn.Blocks {
			for _, in := range b.Instrs {
				call, ok := in.(*ssa.Call)
				if !ok {
					continue
				}
				cal := call.Common().StaticCallee()
				if cal == nil || !inModule(cal) || len(cal.Blocks) == 0 {
					continue
				}
				for _, sin := range instrs(cal, StorePath("objChangeCounterLastSync")) {
					params := derivesFrom(sin.(*ssa.Store).Val, func(v ssa.Value) bool { _, isP := v.(*ssa.Parameter); return isP }, 4)
					if len(params) == 0 {
						pubs = append(pubs, published{sin.(*ssa.Store).Val, sin})
						continue
					}
					for _, pv := range params {
						for i, fp := range cal.Params {
							if ssa.Value(fp) == pv && i < len(call.Common().Args) {
								pubs = append(pubs, published{call.Common().Args[i], in})
							}
						}
					}
				}
			}
		}
	}
	for _, pb := range pubs {
		n++
		in := pb.at
		leaves := derivesFrom(pb.val, isCounterRead, 4)
		ok := len(leaves) > 0
		detail := ""
		if !ok {
			detail = "the value published as last-synced no longer derives from objChangeCounter"
		}
		for _, l := range leaves {
			// the memory read is the load of the struct (Field of a loaded copy) or the load itself
			var rd ssa.Instruction
			switch x := l.(type) {
			case *ssa.Field:
				if ld, ok2 := x.X.(*ssa.UnOp); ok2 {
					rd = ld
				} else if li, ok2 := x.X.(ssa.Instruction); ok2 {
					rd = li
				}
			case *ssa.UnOp:
				rd = x
			}
			// a read of a LOCAL copy is not the shared-memory read: go back to the
			// instruction that filled the copy.
			if u, ok2 := rd.(*ssa.UnOp); ok2 {
				if root := rootAlloc(u.X); root != nil && root.Referrers() != nil {
					for _, rr := range *root.Referrers() {
						if st2, ok3 := rr.(*ssa.Store); ok3 && st2.Addr == ssa.Value(root) {
							if ld, ok4 := st2.Val.(*ssa.UnOp); ok4 {
								rd = ld
							} else {
								rd = st2
							}
						}
					}
				}
			}
			if rd == nil {
				continue
			}
			if !res.stateBefore(rd).has("no-dirsync-yet") {
				ok = false
				detail = "objChangeCounterLastSync is set from a counter value read AFTER the directory sync: objects created while the sync was in flight are recorded as synced"
			}
		}
		c.Ob(rule, fn, "published sync watermark was captured before the directory sync", c.P.Pos(in.Pos()), ok, detail)
	}
	if n == 0 {
		c.Unresolved(rule, "store to objChangeCounterLastSync not found in localSync")
	}
	// Gate (added after seed C43-c): a tier's watermark advances only through the nil-error edge of
	// THAT tier's directory sync. A watermark claimed before (or regardless of) the sync makes the
	// next Sync() of a concurrent creator return without syncing anything.
	tierDir := map[string]string{"hotTier": "recv.local.fsDir", "coldTier": "recv.local.coldTier.fsDir"}
	tierOf := func(in ssa.Instruction) string {
		pth := pathOf(in.(*ssa.Store).Addr)
		for t := range tierDir {
			if strings.Contains(pth, "."+t+".") {
				return t
			}
		}
		return ""
	}
	gate := NewFlow(c.P)
	for t, d := range tierDir {
		gate.Ok("ok:dirsync:"+t, MethodOn("Sync", d))
	}
	gate.MaxDepth = 0
	gres := gate.Analyze(fn, emptyState())
	c.noteFlow(gate)
	ng := 0
	for _, in := range instrs(fn, StorePath("objChangeCounterLastSync")) {
		t := tierOf(in)
		if t == "" {
			c.Unresolved(rule, "a store to objChangeCounterLastSync is not under hotTier/coldTier")
			continue
		}
		only := Pred("store "+t+".objChangeCounterLastSync", func(i2 ssa.Instruction) bool { return i2 == in })
		ng += c.Require(rule, gres, only, "the "+t+" watermark advances only after that tier's directory sync returned nil", []string{"ok:dirsync:" + t})
	}
	if ng == 0 {
		// stores moved into a helper: the helper's store is guarded by boolean parameters; what
		// those booleans stand for is decided at the call site
		for _, b := range fn.Blocks {
			for _, in := range b.Instrs {
				call, ok := in.(*ssa.Call)
				if !ok {
					continue
				}
				cal := call.Common().StaticCallee()
				if cal == nil || !inModule(cal) || len(cal.Blocks) == 0 || len(instrs(cal, StorePath("objChangeCounterLastSync"))) == 0 {
					continue
				}
				hf := NewFlow(c.P)
				for i, prm := range cal.Params {
					if bt, isB := prm.Type().Underlying().(*types.Basic); isB && bt.Kind() == types.Bool {
						prm := prm
						hf.Edge(fmt.Sprintf("param-true:%d", i), func(v ssa.Value) (bool, bool) { return v == ssa.Value(prm), false })
					}
				}
				hf.MaxDepth = 0
				hres := hf.Analyze(cal, emptyState())
				c.noteFlow(hf)
				for _, sin := range instrs(cal, StorePath("objChangeCounterLastSync")) {
					t := tierOf(sin)
					st := gres.stateBefore(call).clone()
					hs := hres.stateBefore(sin)
					for i := range cal.Params {
						if hs.has(fmt.Sprintf("param-true:%d", i)) && i < len(call.Common().Args) {
							gres.condFacts(call.Common().Args[i], true, &st)
						}
					}
					ok := t != "" && st.has("ok:dirsync:"+t)
					ng++
					c.Ob(rule, cal, "the "+t+" watermark advances only after that tier's directory sync returned nil", c.P.Pos(sin.Pos()), ok,
						map[bool]string{true: "", false: "the helper's store is reachable from localSync without a successful directory sync of that tier"}[ok])
				}
			}
		}
	}
	if ng == 0 {
		c.Unresolved(rule, "no watermark store found to gate in localSync or its helper")
	}
}

// rootAlloc returns the local allocation an address is rooted in (through
// field/index selection), or nil.
func rootAlloc(addr ssa.Value) *ssa.Alloc {
	for i := 0; i < 8; i++ {
		switch x := addr.(type) {
		case *ssa.Alloc:
			return x
		case *ssa.FieldAddr:
			addr = x.X
		case *ssa.IndexAddr:
			addr = x.X
		default:
			return nil
		}
	}
	return nil
}
