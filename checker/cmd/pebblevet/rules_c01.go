package main

func init() {
	register("C01", []string{".", "./internal/compact", "./internal/rangekey", "./internal/rangekeystack", "./batchrepr"}, runC01)
	propExplain["C01"] = "Decides structural necessary conditions of C01: (O1) every read entry point pins its view (read state / version) before it reads the visible sequence number, so a flush+compaction between the two cannot elide a version visible at that sequence number; (T1) every dispatch on the internal key kind in the read, apply and compaction paths that distinguishes most point kinds names all of them (or ends in a fail-stop default), and likewise for the range-key kinds — a kind silently falling into another kind's arm changes what reads return. Shares C17.S1 (a SINGLEDEL treats a SETWITHDEL beneath it as a DELETE in both the emitting and the eliding variant) and C17.U1 (whole user keys are compared with the configured comparer, never bytewise). Does not decide shadowing, merge semantics or level ordering (value-level)."
}

var kindSwitchExceptions = map[string]string{
	"p.(*flushableBatchIter).extractValue Delete,SingleDelete": "value-arity table (which kinds carry a value), not a dispatch: key-only kinds correctly fall through to 'no value'; its agreement with the writers is decided by C31.T1",
	"p.(*batchIter).value Delete,SingleDelete":                 "value-arity table, see above",
}

func kindPkgs() []string {
	return []string{modPath, modPath + "/internal/compact", modPath + "/internal/rangekey", modPath + "/internal/rangekeystack"}
}

func runC01(c *Ctx) {
	viewBeforeSeqNum(c, "C01.O1")
	n := surveyKindSwitches(c, "C01.T1", kindPkgs(), kindSwitchExceptions)
	if n < 15 {
		c.Unresolved("C01.T1", "fewer than 15 kind-dispatch switches found")
	}
	hideObsoleteAtReaderSeqNum(c, "C01.V1")
	// shared with C17: what a compaction does to the keys under a SINGLEDEL decides what the
	// latest view reads afterwards
	runC17S1(c)
	runC17U1(c)
}
