package main

import (
	"fmt"
	"strings"

	"golang.org/x/tools/go/ssa"
)

var c10ErrExceptions = []ErrException{
	{"p.(*versionSet).createManifest", "record.(*Writer).Close", "deferred cleanup of the half-written NEW manifest on a path that already returns the original error; the old manifest is untouched"},
	{"osp/remoteobjcat.(*Catalog).createNewCatalogFileLocked", "record.(*Writer).Close", "cleanup of the half-written new catalog file after an error that is being returned"},
	{"wal.(*dirProber).probeLoop", "vfs.(FS).Create", "disk-health probe on a scratch file: a failure is converted into failedProbeDuration, no user data involved"},
	{"wal.(*dirProber).probeLoop", "vfs.(File).Write", "disk-health probe (see above)"},
	{"wal.(*dirProber).probeLoop", "vfs.(File).Sync", "disk-health probe (see above)"},
	{"wal.(*failoverWriter).closeInternal", "CloseWithLastQueuedRecord", "non-last failover segment: every record it carried was already written and synced by a later writer (comment at the site); the last writer's error IS recorded in lastWriter.err"},
	{"wal.(*failoverWriter).switchToNewDir", "record.(*LogWriter).Close", "writer that lost the switch race and never received a record"},
}

func init() {
	register("C10", []string{".", "./wal", "./record", "./objstorage/...", "./vfs", "./vfs/atomicfs", "./internal/manifest", "./sstable", "./sstable/blob", "./sstable/block", "./valsep", "./internal/compact", "./vfs/atomicfs"}, runC10)
	propExplain["C10"] = "Decides the ordering clause of C10: every durability point (directory sync after WAL creation, object-provider sync before a table is named by the MANIFEST, file sync before close) dominates — through its nil-error edge — the acknowledgement that depends on it, in every path of the listed functions. Does not decide the crash model or file-system semantics. (V2 gate) the object provider advances a tier's directory-sync watermark only through the nil-error edge of that tier's directory Sync."
}

// durabilityCallees is the callee table of C10.E1: calls whose failure means
// data is not (known to be) durable.
func durabilityCallees(c *Ctx, rule string) M {
	return Or(
		ImplCall(c.Iface(rule, "vfs.File"), "vfs.File", "Sync", "SyncData", "SyncTo", "Write", "WriteAt"),
		ImplCall(c.Iface(rule, "vfs.FS"), "vfs.FS", "Create", "Rename", "Link", "ReuseForWrite"),
		ImplCall(c.Iface(rule, "objs.Writable"), "objstorage.Writable", "Write", "Finish"),
		ImplCall(c.Iface(rule, "objs.Provider"), "objstorage.Provider", "Sync", "Create", "LinkOrCopyFromLocal"),
		ImplCall(c.Iface(rule, "wal.Manager"), "wal.Manager", "Create"),
		ImplCall(c.Iface(rule, "wal.Writer"), "wal.Writer", "WriteRecord", "Close"),
		CallTo("rec.(*Writer).Flush", "rec.(*Writer).Close", "rec.(*Writer).Next",
			"rec.(*LogWriter).Close", "rec.(*LogWriter).CloseWithLastQueuedRecord", "rec.(*LogWriter).WriteRecord", "rec.(*LogWriter).SyncRecord", "rec.(*LogWriter).SyncRecordGeneralized",
			"rec.(*LogWriter).flushBlock", "rec.(*LogWriter).syncWithLatency",
			"afs.(*Marker).Move", "afs.(*Marker).SyncDir",
			"man.(*VersionEdit).Encode", "p.(*versionSet).UpdateVersionLocked", "p.(*versionSet).createManifest"),
	)
}

func enginePkg(path string) bool {
	for _, bad := range []string{"/cmd/", "/tool", "/internal/testutils", "/metamorphic", "/replay", "/bench", "/internal/mkbench", "/internal/devtools", "/testkeys", "/internal/testkeys", "/errorfs", "/vfstest", "/internal/dsl", "/internal/datatest", "/internal/itertest", "/internal/testkeys", "/internal/ewma", "/scripts", "/internal/lint", "/internal/crdbtest"} {
		if strings.Contains(path, bad) {
			return false
		}
	}
	return true
}

func runC10(c *Ctx) {
	// C10.E1: errors of durability calls are never dropped (module-wide on thorough; the
	// packages loaded for this property on quick).
	n := c.ErrFlow("C10.E1", durabilityCallees(c, "C10.E1"), enginePkg, c10ErrExceptions)
	if n < 100 {
		c.Unresolved("C10.E1", fmt.Sprintf("only %d durability call sites found (expected well over 100)", n))
	}

	// C10.O2a: StandaloneManager.Create: Create|ReuseForWrite ⊢ walDir.Sync ⊢ NewLogWriter; ret✓ passes walDir.Sync
	if fn := c.Fn("C10.O2a", "wal.(*StandaloneManager).Create"); fn != nil {
		res := c.Chain("C10.O2a", fn, nil,
			Step{Name: "create", M: CallTo("vfs.(FS).Create", "vfs.(FS).ReuseForWrite"), Gated: true},
			Step{Name: "walDir.Sync", M: MethodOn("Sync", "walDir"), Gated: true},
			Step{Name: "NewLogWriter", M: CallTo("rec.NewLogWriter")},
		)
		c.RequireAtSuccess("C10.O2a", res, "walDir.Sync", []string{"ok:walDir.Sync"})
	}

	// C10.O2b: failover: logCreator ⊢ dir.Sync ⊢ NewLogWriter in the async creation closure
	if outer := c.Fn("C10.O2b", "wal.(*failoverWriter).switchToNewDir"); outer != nil {
		if clo := c.ClosureWith("C10.O2b", outer, CallTo("rec.NewLogWriter")); clo != nil {
			c.Chain("C10.O2b", clo, nil,
				Step{Name: "logCreator", M: DynCall("opts.logCreator"), Gated: true},
				Step{Name: "dir.Sync", M: MethodOn("Sync", ParamName(outer, 1)), Gated: true},
				Step{Name: "NewLogWriter", M: CallTo("rec.NewLogWriter")},
			)
		}
	}
	runC10O3(c)
	runC10Open(c)
	runC10V1(c)
	c12SyncWatermark(c, "C10.V2")
	// shared: sync-before-ack (C20), MANIFEST protocol (C22), marker (C24)
	runC20Core(c)
	runC22(c)
	runC24(c)
}

// runC10O3: tables are synced before the MANIFEST names them (shared with C12, C36).
func runC10O3(c *Ctx) {
	provSync := ImplCall(c.Iface("C10.O3", "objs.Provider"), "objstorage.Provider", "Sync")
	// C10.O3a: compactAndWrite: every return whose result may carry Err == nil passed objProvider.Sync
	if fn := c.Fn("C10.O3a", "p.(*DB).compactAndWrite"); fn != nil {
		fl := NewFlow(c.P).
			After("synced|failed", provSync).
			Edge("synced|failed", NonZeroGuard("Err")).
			After("synced|failed", CallTo("compact.(Result).WithError", "compact.(*Result).WithError"))
		res := fl.Analyze(fn, emptyState())
		c.noteFlow(fl)
		n := len(instrs(fn, provSync))
		c.Ob("C10.O3a", fn, "step objProvider.Sync present", c.P.Pos(fn.Pos()), n > 0, "compactAndWrite no longer syncs the object provider")
		c.Require("C10.O3a", res, Pred("return of a possibly successful compact.Result", func(in ssa.Instruction) bool {
			ret, ok := in.(*ssa.Return)
			if !ok || ret.Block() == ret.Parent().Recover || len(ret.Results) != 1 {
				return false
			}
			// returns of a literal Result{Err: err} on an error path are excluded by construction below
			return !resultLiteralWithErr(ret.Results[0])
		}), "outputs are synced before a successful result is returned", []string{"synced|failed"})
		// the sync's error becomes the result's error
		for _, in := range instrs(fn, provSync) {
			call := in.(*ssa.Call)
			stored := false
			if call.Referrers() != nil {
				for _, r := range *call.Referrers() {
					if st, ok := r.(*ssa.Store); ok && pathHasSuffix(pathOf(st.Addr), "result.Err") {
						stored = true
					}
				}
			}
			c.Ob("C10.O3a", fn, "sync error is recorded in result.Err", c.P.Pos(in.Pos()), stored, "")
		}
	}
	// C10.O3b: runCopyCompaction
	if fn := c.Fn("C10.O3b", "p.(*DB).runCopyCompaction"); fn != nil {
		fl := NewFlow(c.P).Edge("empty-span", ErrorsIsGuard("ErrEmptySpan"))
		res := c.Chain("C10.O3b", fn, fl,
			Step{Name: "create|link", M: Or(ImplCall(c.Iface("C10.O3b", "objs.Provider"), "objstorage.Provider", "Create", "LinkOrCopyFromLocal")), Gated: true, Free: true},
			Step{Name: "objProvider.Sync", M: provSync, Gated: true, Need: []string{"ok:create|link"}},
		)
		c.RequireAtSuccess("C10.O3b", res, "objProvider.Sync (or nothing was created: empty span)", []string{"ok:objProvider.Sync"}, "empty-span")
	}
	// C10.O3c: ingest: link ⊢ attach ⊢ Sync ⊢ AllocateSeqNum
	if fn := c.Fn("C10.O3c", "p.(*DB).ingest"); fn != nil {
		c.Chain("C10.O3c", fn, nil,
			Step{Name: "ingestLinkLocal", M: CallTo("p.ingestLinkLocal"), Gated: true},
			Step{Name: "ingestAttachRemote", M: CallTo("p.(*DB).ingestAttachRemote"), Gated: true},
			Step{Name: "objProvider.Sync", M: provSync, Gated: true},
			Step{Name: "commit.AllocateSeqNum", M: CallTo("p.(*commitPipeline).AllocateSeqNum")},
		)
	}
	// C10.O3d: blob file rewrite
	if fn := c.Fn("C10.O3d", "p.(*DB).runBlobFileRewriteLocked"); fn != nil {
		res := c.Chain("C10.O3d", fn, nil,
			Step{Name: "Rewrite", M: CallTo("p.(*blobFileRewriter).Rewrite"), Gated: true},
			Step{Name: "objProvider.Sync", M: provSync, Gated: true},
		)
		c.RequireAtSuccess("C10.O3d", res, "Rewrite + objProvider.Sync", []string{"ok:Rewrite", "ok:objProvider.Sync"})
	}
	// C10.O3e: local writable: Flush ⊢ Sync ≺ Close, success implies both
	if fn := c.Fn("C10.O3e", "osp.(*fileBufferedWritable).Finish"); fn != nil {
		res := c.Chain("C10.O3e", fn, nil,
			Step{Name: "bw.Flush", M: MethodOn("Flush", "recv.bw"), Gated: true},
			Step{Name: "file.Sync", M: MethodOn("Sync", "recv.file"), Gated: true},
		)
		fl := NewFlow(c.P).After("did:sync|flushfailed", MethodOn("Sync", "recv.file")).Ok("ok:flush", MethodOn("Flush", "recv.bw")).Ok("ok:sync", MethodOn("Sync", "recv.file"))
		res = fl.Analyze(fn, emptyState())
		c.RequireAtSuccess("C10.O3e", res, "Flush + Sync", []string{"ok:flush", "ok:sync"})
	}
}

// resultLiteralWithErr: the returned value is a freshly built compact.Result
// whose Err field was set from an error value (an explicit failure result).
func resultLiteralWithErr(v ssa.Value) bool {
	switch x := v.(type) {
	case *ssa.UnOp:
		if a, ok := x.X.(*ssa.Alloc); ok && a.Comment != "complit" {
			// named result cell: look at what was just stored into it
			if st := precedingStore(x); st != nil && st.Val != v {
				return resultLiteralWithErr(st.Val)
			}
			return false
		}
		if a, ok := x.X.(*ssa.Alloc); ok && a.Comment == "complit" {
			if a.Referrers() != nil {
				for _, r := range *a.Referrers() {
					if fa, ok := r.(*ssa.FieldAddr); ok {
						if f := fieldVar(fa.X.Type(), fa.Field); f != nil && f.Name() == "Err" {
							return true
						}
					}
				}
			}
		}
	}
	return false
}
