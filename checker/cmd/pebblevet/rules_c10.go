package main

func init() {
	register("C10", []string{".", "./wal", "./record", "./objstorage/objstorageprovider"}, runC10)
	propExplain["C10"] = "Decides the ordering clause of C10: every durability point (directory sync after WAL creation, object-provider sync before a table is named by the MANIFEST, file sync before close) dominates — through its nil-error edge — the acknowledgement that depends on it, in every path of the listed functions. Does not decide the crash model or file-system semantics."
}

func runC10(c *Ctx) {
	// C10.O2a: StandaloneManager.Create: Create|ReuseForWrite ⊢ walDir.Sync ⊢ NewLogWriter; ret✓ passes walDir.Sync
	if fn := c.Fn("C10.O2a", "wal.(*StandaloneManager).Create"); fn != nil {
		res := c.Chain("C10.O2a", fn, nil,
			Step{Name: "create", M: CallTo("vfs.(FS).Create", "vfs.(FS).ReuseForWrite"), Gated: true},
			Step{Name: "walDir.Sync", M: MethodOn("Sync", "walDir"), Gated: true},
			Step{Name: "NewLogWriter", M: CallTo("rec.NewLogWriter")},
		)
		c.RequireAtSuccess("C10.O2a", res, "walDir.Sync", []string{"ok:walDir.Sync"})
	}
}
