package main

import (
	"fmt"
	"strings"
)

var c10ErrExceptions = []ErrException{
	{"p.(*versionSet).createManifest", "record.(*Writer).Close", "deferred cleanup of the half-written NEW manifest on a path that already returns the original error; the old manifest is untouched"},
	{"osp/remoteobjcat.(*Catalog).createNewCatalogFileLocked", "record.(*Writer).Close", "cleanup of the half-written new catalog file after an error that is being returned"},
	{"wal.(*dirProber).probeLoop", "vfs.(FS).Create", "disk-health probe on a scratch file: a failure is converted into failedProbeDuration, no user data involved"},
	{"wal.(*dirProber).probeLoop", "vfs.(File).Write", "disk-health probe (see above)"},
	{"wal.(*dirProber).probeLoop", "vfs.(File).Sync", "disk-health probe (see above)"},
	{"wal.(*failoverWriter).closeInternal", "CloseWithLastQueuedRecord", "non-last failover segment: every record it carried was already written and synced by a later writer (comment at the site); the last writer's error IS recorded in lastWriter.err"},
	{"wal.(*failoverWriter).switchToNewDir", "record.(*LogWriter).Close", "writer that lost the switch race and never received a record"},
}

func init() {
	register("C10", []string{".", "./wal", "./record", "./objstorage/...", "./vfs", "./vfs/atomicfs", "./internal/manifest", "./sstable", "./sstable/blob", "./sstable/block", "./valsep", "./internal/compact"}, runC10)
	propExplain["C10"] = "Decides the ordering clause of C10: every durability point (directory sync after WAL creation, object-provider sync before a table is named by the MANIFEST, file sync before close) dominates — through its nil-error edge — the acknowledgement that depends on it, in every path of the listed functions. Does not decide the crash model or file-system semantics."
}

// durabilityCallees is the callee table of C10.E1: calls whose failure means
// data is not (known to be) durable.
func durabilityCallees(c *Ctx, rule string) M {
	return Or(
		ImplCall(c.Iface(rule, "vfs.File"), "vfs.File", "Sync", "SyncData", "SyncTo", "Write", "WriteAt"),
		ImplCall(c.Iface(rule, "vfs.FS"), "vfs.FS", "Create", "Rename", "Link", "ReuseForWrite"),
		ImplCall(c.Iface(rule, "objs.Writable"), "objstorage.Writable", "Write", "Finish"),
		ImplCall(c.Iface(rule, "objs.Provider"), "objstorage.Provider", "Sync", "Create", "LinkOrCopyFromLocal"),
		ImplCall(c.Iface(rule, "wal.Manager"), "wal.Manager", "Create"),
		ImplCall(c.Iface(rule, "wal.Writer"), "wal.Writer", "WriteRecord", "Close"),
		CallTo("rec.(*Writer).Flush", "rec.(*Writer).Close", "rec.(*Writer).Next",
			"rec.(*LogWriter).Close", "rec.(*LogWriter).CloseWithLastQueuedRecord", "rec.(*LogWriter).WriteRecord", "rec.(*LogWriter).SyncRecord", "rec.(*LogWriter).SyncRecordGeneralized",
			"rec.(*LogWriter).flushBlock", "rec.(*LogWriter).syncWithLatency",
			"afs.(*Marker).Move", "afs.(*Marker).SyncDir",
			"man.(*VersionEdit).Encode", "p.(*versionSet).UpdateVersionLocked", "p.(*versionSet).createManifest"),
	)
}

func enginePkg(path string) bool {
	for _, bad := range []string{"/cmd/", "/tool", "/internal/testutils", "/metamorphic", "/replay", "/bench", "/internal/mkbench", "/internal/devtools", "/testkeys", "/internal/testkeys", "/errorfs", "/vfstest", "/internal/dsl", "/internal/datatest", "/internal/itertest", "/internal/testkeys", "/internal/ewma", "/scripts", "/internal/lint", "/internal/crdbtest"} {
		if strings.Contains(path, bad) {
			return false
		}
	}
	return true
}

func runC10(c *Ctx) {
	// C10.E1: errors of durability calls are never dropped (module-wide on thorough; the
	// packages loaded for this property on quick).
	n := c.ErrFlow("C10.E1", durabilityCallees(c, "C10.E1"), enginePkg, c10ErrExceptions)
	if n < 100 {
		c.Unresolved("C10.E1", fmt.Sprintf("only %d durability call sites found (expected well over 100)", n))
	}

	// C10.O2a: StandaloneManager.Create: Create|ReuseForWrite ⊢ walDir.Sync ⊢ NewLogWriter; ret✓ passes walDir.Sync
	if fn := c.Fn("C10.O2a", "wal.(*StandaloneManager).Create"); fn != nil {
		res := c.Chain("C10.O2a", fn, nil,
			Step{Name: "create", M: CallTo("vfs.(FS).Create", "vfs.(FS).ReuseForWrite"), Gated: true},
			Step{Name: "walDir.Sync", M: MethodOn("Sync", "walDir"), Gated: true},
			Step{Name: "NewLogWriter", M: CallTo("rec.NewLogWriter")},
		)
		c.RequireAtSuccess("C10.O2a", res, "walDir.Sync", []string{"ok:walDir.Sync"})
	}
}
