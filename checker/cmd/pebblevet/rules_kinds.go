package main

import (
	"fmt"
	"go/types"
	"sort"
	"strings"
)

// Kind-dispatch completeness (C01.T1 / C17.T1 / C45.T1 / C08.T1): each listed
// function's switches over base.InternalKeyKind either name every required
// kind in an explicit case or end in a fail-stop default.

type kindSwitchSpec struct {
	Fn       string
	Required string // "point" | "rangekey" | "pointnoMerge"
	MinCases int    // only switches with at least this many constant cases are dispatch switches
	Reason   string
}

func kindSets(c *Ctx, rule string) (names map[int64]string, point, rangeKey map[int64]bool) {
	names = map[int64]string{}
	for _, k := range c.ConstsOfType(rule, "base.InternalKeyKind") {
		if _, dup := names[k.Val]; !dup && !strings.Contains(k.Name, "Max") && !strings.Contains(k.Name, "Min") && !strings.Contains(k.Name, "Boundary") && !strings.Contains(k.Name, "Invalid") {
			names[k.Val] = k.Name
		}
	}
	point, rangeKey = map[int64]bool{}, map[int64]bool{}
	for v, n := range names {
		switch n {
		case "InternalKeyKindSet", "InternalKeyKindMerge", "InternalKeyKindDelete", "InternalKeyKindSingleDelete", "InternalKeyKindSetWithDelete", "InternalKeyKindDeleteSized":
			point[v] = true
		case "InternalKeyKindRangeKeySet", "InternalKeyKindRangeKeyUnset", "InternalKeyKindRangeKeyDelete":
			rangeKey[v] = true
		}
	}
	return
}

func checkKindSwitches(c *Ctx, rule string, specs []kindSwitchSpec) {
	kindT := c.P.TypeByPath("base.InternalKeyKind")
	if kindT == nil {
		c.Unresolved(rule, "base.InternalKeyKind not found")
		return
	}
	names, point, rangeKey := kindSets(c, rule)
	if len(point) != 6 || len(rangeKey) != 3 {
		c.Unresolved(rule, fmt.Sprintf("expected 6 point kinds and 3 range-key kinds, found %d/%d", len(point), len(rangeKey)))
		return
	}
	for _, sp := range specs {
		fn := c.Fn(rule, sp.Fn)
		if fn == nil {
			continue
		}
		fd, pkg := c.P.Decl(fn)
		if fd == nil {
			c.Unresolved(rule, "no declaration for "+sp.Fn)
			continue
		}
		var sws []*switchInfo
		for _, s := range SwitchesOn(pkg, fd, kindT) {
			if len(s.Cases) >= sp.MinCases {
				sws = append(sws, s)
			}
		}
		if len(sws) == 0 {
			c.Unresolved(rule, fmt.Sprintf("no kind switch with >= %d cases in %s", sp.MinCases, sp.Fn))
			continue
		}
		req := point
		if sp.Required == "rangekey" {
			req = rangeKey
		}
		for _, sw := range sws {
			failStop := sw.Default != nil && clauseFailStop(pkg, sw.Default)
			var missing []string
			for k := range req {
				if _, ok := sw.Cases[k]; !ok {
					missing = append(missing, strings.TrimPrefix(names[k], "InternalKeyKind"))
				}
			}
			sort.Strings(missing)
			ok := len(missing) == 0 || failStop
			detail := ""
			if !ok {
				detail = fmt.Sprintf("kinds %v fall into a default arm that is not fail-stop (no default, or the default silently treats them like another kind)", missing)
			}
			what := "kind dispatch names every " + sp.Required + " kind or fails closed"
			c.Ob(rule, fn, what, c.P.Pos(sw.Stmt.Pos()), ok, detail)
			if len(missing) == 0 && sp.Required == "point" && sw.Default == nil {
				// complete and without default: fine
			}
		}
	}
}

var _ = types.Identical

// surveyKindSwitches applies the completeness rule to every kind switch of the
// given packages: a switch naming most point kinds (>= 4 of 6) must name all of
// them or fail closed; likewise for range-key kinds (>= 2 of 3).
func surveyKindSwitches(c *Ctx, rule string, pkgPaths []string, exceptions map[string]string) int {
	kindT := c.P.TypeByPath("base.InternalKeyKind")
	if kindT == nil {
		c.Unresolved(rule, "base.InternalKeyKind not found")
		return 0
	}
	names, point, rangeKey := kindSets(c, rule)
	n := 0
	for _, pp := range pkgPaths {
		pkg := c.P.ByPath[pp]
		if pkg == nil {
			c.Unresolved(rule, "package not loaded: "+pp)
			continue
		}
		for _, fn := range c.P.AllFuncs {
			if fn.Parent() != nil || fn.Pkg == nil || fn.Pkg.Pkg.Path() != pp || fn.Origin() != nil {
				continue
			}
			fd, _ := c.P.Decl(fn)
			if fd == nil || fd.Body == nil {
				continue
			}
			for _, sw := range SwitchesOn(pkg, fd, kindT) {
				np, nr := 0, 0
				for k := range sw.Cases {
					if point[k] {
						np++
					}
					if rangeKey[k] {
						nr++
					}
				}
				failStop := sw.Default != nil && clauseFailStop(pkg, sw.Default)
				check := func(what string, req map[int64]bool) {
					var missing []string
					for k := range req {
						if _, ok := sw.Cases[k]; !ok {
							missing = append(missing, strings.TrimPrefix(names[k], "InternalKeyKind"))
						}
					}
					sort.Strings(missing)
					ok := len(missing) == 0 || failStop
					detail := ""
					key := shortKey(QName(fn))
					if !ok {
						if why, has := exceptions[key+" "+strings.Join(missing, ",")]; has {
							ok = true
							c.Note("%s: exception %s missing %v: %s", rule, key, missing, why)
						} else {
							detail = fmt.Sprintf("%s kinds %v are not named and the default arm is not fail-stop: such keys are silently handled like another kind", what, missing)
						}
					}
					n++
					c.Ob(rule, fn, "kind dispatch names every "+what+" kind or fails closed", c.P.Pos(sw.Stmt.Pos()), ok, detail)
				}
				if np >= 4 {
					check("point", point)
				}
				if nr >= 2 {
					check("range-key", rangeKey)
				}
			}
		}
	}
	return n
}
