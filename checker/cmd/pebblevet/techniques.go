package main

func init() {
	t := propTechnique
	t["C01"] = "SSA ordering (view pinned before seqnum) + enum-switch exhaustiveness survey (AST+types)"
	t["C03"] = "SSA lock-region dataflow, DB.mu lockset with requires-held summaries, value provenance, comparison-guard analysis"
	t["C08"] = "enum-switch exhaustiveness survey (AST+types) + routing table check + sort-stability discipline on []keyspan.Key call sites (SSA, resolved callees)"
	t["C17"] = "SSA guard dataflow with derived/iteration-local facts, enum-switch exhaustiveness"
	t["C21"] = "SSA ordering / guard / lock-region dataflow, obligation-as-fact"
	t["C23"] = "codec agreement on AST+types (tags, fields) + SSA obligation-as-fact (section terminator) + untrusted-size allocation check"
	t["C31"] = "writer/reader table agreement recomputed from AST+SSA constants"
	t["C45"] = "enum-switch exhaustiveness, SSA ordering, constructor-release obligation"
	t["C46"] = "format-string / parse-switch key agreement on AST+types"
	t["C04"] = "SSA resource pairing (acquire/release obligation-as-fact dataflow), who-may-write, ordering"
	t["C06"] = "SSA error-gated dominance, who-may-call/write"
	t["C07"] = "SSA lock-region + ordering dataflow, guarded CAS (ratchet), who-may-write"
	t["C10"] = "SSA error-gated dominance with callee summaries, error-result consumption (ERRFLOW), value provenance"
	t["C12"] = "SSA error-gated dominance, value provenance (watermark captured before sync)"
	t["C13"] = "SSA guarded taint (edge-sensitive), phi-edge guard analysis"
	t["C18"] = "SSA must-facts dataflow with iteration-local and derived facts (validation gates)"
	t["C19"] = "SSA obligation-as-fact dataflow (tolerated-error classification), who-may-write"
	t["C20"] = "SSA sticky-error gating and ordering dataflow, error-result consumption, who-may-call, lockset for flusher.Mutex"
	t["C22"] = "SSA error-gated dominance with closure summaries, lock region, who-may-call/write, error-identity (no-wrap) check over the producers' call trees"
	t["C24"] = "SSA error-gated dominance + value provenance"
	t["C27"] = "SSA error-gated dominance (checksum gate), who-may-call, derived guard facts"
	t["C40"] = "enum/map-literal table agreement (AST+types) + SSA error-gated dominance, who-may-write"
	t["C41"] = "SSA ordering / obligation-as-fact dataflow with argument provenance, error-identity (no-wrap) check"
}
