package main

func init() {
	t := propTechnique
	t["C04"] = "SSA resource pairing (acquire/release obligation-as-fact dataflow), who-may-write, ordering"
	t["C06"] = "SSA error-gated dominance, who-may-call/write"
	t["C07"] = "SSA lock-region + ordering dataflow, guarded CAS (ratchet), who-may-write"
	t["C10"] = "SSA error-gated dominance with callee summaries, error-result consumption (ERRFLOW), value provenance"
	t["C12"] = "SSA error-gated dominance, value provenance (watermark captured before sync)"
	t["C13"] = "SSA guarded taint (edge-sensitive), phi-edge guard analysis"
	t["C18"] = "SSA must-facts dataflow with iteration-local and derived facts (validation gates)"
	t["C19"] = "SSA obligation-as-fact dataflow (tolerated-error classification), who-may-write"
	t["C20"] = "SSA sticky-error gating and ordering dataflow, error-result consumption, who-may-call"
	t["C22"] = "SSA error-gated dominance with closure summaries, lock region, who-may-call/write"
	t["C24"] = "SSA error-gated dominance + value provenance"
	t["C27"] = "SSA error-gated dominance (checksum gate), who-may-call, derived guard facts"
	t["C40"] = "enum/map-literal table agreement (AST+types) + SSA error-gated dominance, who-may-write"
	t["C41"] = "SSA ordering / obligation-as-fact dataflow with argument provenance"
}
