package main

import (
	"fmt"
	"go/token"

	"golang.org/x/tools/go/ssa"
)

// ---------------------------------------------------------------------------
// E8 GUARD: a value read from a source may reach a sink (a call taking it)
// only at program points where the guard fact holds. Edge-sensitive for phis.
// ---------------------------------------------------------------------------

type taintReport struct {
	Sink ssa.Instruction
	Src  ssa.Instruction
	Desc string
}

// guardedTaint propagates *unguarded* taint from the source values through
// res.Fn and returns the sinks reached. guard is the fact that must hold.
func guardedTaint(res *FnResult, sources []ssa.Value, guard string) (reports []taintReport, sinksSeen int) {
	tainted := map[ssa.Value]ssa.Instruction{} // value -> originating source
	var work []ssa.Value
	guardedAt := func(in ssa.Instruction) bool {
		return res.stateBefore(in).has(guard)
	}
	for _, s := range sources {
		in, ok := s.(ssa.Instruction)
		if !ok {
			continue
		}
		if guardedAt(in) {
			continue
		}
		tainted[s] = in
		work = append(work, s)
	}
	reported := map[ssa.Instruction]bool{}
	for len(work) > 0 {
		v := work[len(work)-1]
		work = work[:len(work)-1]
		refs := v.Referrers()
		if refs == nil {
			continue
		}
		for _, r := range *refs {
			switch x := r.(type) {
			case *ssa.Phi:
				if _, done := tainted[x]; done {
					continue
				}
				// tainted only through an incoming edge that is itself unguarded
				for i, e := range x.Edges {
					if e != v {
						continue
					}
					es := res.edgeState(x.Block().Preds[i], x.Block())
					if !es.top && !es.has(guard) {
						tainted[x] = tainted[v]
						work = append(work, x)
						break
					}
				}
			case *ssa.Call:
				if b, ok := x.Common().Value.(*ssa.Builtin); ok {
					switch b.Name() {
					case "len", "cap":
						continue
					}
				}
				sinksSeen++
				if guardedAt(x) || reported[x] {
					continue
				}
				reported[x] = true
				reports = append(reports, taintReport{Sink: x, Src: tainted[v], Desc: pathOf(x)})
			case *ssa.Store:
				if x.Val == v && !guardedAt(x) {
					if isCell(x.Addr) {
						// local variable: follow its loads
						if x.Addr.Referrers() != nil {
							for _, ar := range *x.Addr.Referrers() {
								if ld, ok := ar.(*ssa.UnOp); ok && ld.Op == token.MUL {
									if _, done := tainted[ld]; !done && !guardedAt(ld) {
										tainted[ld] = tainted[v]
										work = append(work, ld)
									}
								}
							}
						}
						continue
					}
					sinksSeen++
					if !reported[x] {
						reported[x] = true
						reports = append(reports, taintReport{Sink: x, Src: tainted[v], Desc: "store to " + pathOf(x.Addr)})
					}
				}
			case ssa.Value:
				switch x.(type) {
				case *ssa.Slice, *ssa.Index, *ssa.IndexAddr, *ssa.Range, *ssa.Next, *ssa.Extract, *ssa.UnOp, *ssa.Field, *ssa.FieldAddr,
					*ssa.ChangeType, *ssa.Convert, *ssa.MakeInterface, *ssa.ChangeInterface, *ssa.Lookup:
					if _, done := tainted[x]; done {
						continue
					}
					if guardedAt(r) {
						continue
					}
					tainted[x] = tainted[v]
					work = append(work, x)
				}
			}
		}
	}
	return reports, sinksSeen
}

func describeTaint(p *Program, t taintReport) string {
	return fmt.Sprintf("value read at %s reaches %s at %s without the guard", p.Pos(t.Src.Pos()), t.Desc, p.Pos(t.Sink.Pos()))
}
