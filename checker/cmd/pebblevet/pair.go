package main

import (
	"fmt"
	"go/token"

	"golang.org/x/tools/go/ssa"
)

// ---------------------------------------------------------------------------
// E4 PAIR (intra-procedural): a reference obtained at an acquire site is, on
// every path to every return, released (a listed release method called on it,
// directly or deferred), or handed over (stored into a struct field / heap
// object, captured by a closure, returned to the caller).
// Encoded as obligation-as-fact: "balanced" is dropped after the acquire and
// re-established by a release / hand-over; every return must hold it.
// ---------------------------------------------------------------------------

// aliasesOf collects v, loads of local cells v was stored into, phis and
// conversions of those (a small flow-insensitive closure).
func aliasesOf(v ssa.Value) map[ssa.Value]bool {
	al := map[ssa.Value]bool{v: true}
	work := []ssa.Value{v}
	for len(work) > 0 {
		x := work[len(work)-1]
		work = work[:len(work)-1]
		refs := x.Referrers()
		if refs == nil {
			continue
		}
		for _, r := range *refs {
			switch y := r.(type) {
			case *ssa.Phi, *ssa.ChangeInterface, *ssa.MakeInterface, *ssa.ChangeType, *ssa.Convert:
				yv := y.(ssa.Value)
				if !al[yv] {
					al[yv] = true
					work = append(work, yv)
				}
			case *ssa.Store:
				if y.Val == x && isCell(y.Addr) && y.Addr.Referrers() != nil {
					for _, ar := range *y.Addr.Referrers() {
						if ld, ok := ar.(*ssa.UnOp); ok && ld.Op == token.MUL && !al[ld] {
							al[ld] = true
							work = append(work, ld)
						}
					}
				}
			}
		}
	}
	return al
}

type PairSpec struct {
	Rule    string
	What    string
	Release []string // short method names that release when called on the value
	// Consumers: qualified callee names that take over the reference when the
	// value is passed as an argument.
	Consumers []string
	// ErrGated: the acquire call returns (value, error); the obligation exists only where the
	// error is nil (on the non-nil edge nothing was acquired).
	ErrGated bool
	// Derived: short method names whose result, when called on the value, stands for the value
	// when it is passed to a consumer (ref.Value()).
	Derived []string
	// OwnedWhere: additional conditions under which the reference is known to be owned by
	// something else (e.g. "the point iterator exists": its close hook releases the reference).
	OwnedWhere []CondM
}

// Pairing checks one acquire site. v is the acquired value (call result or the
// receiver of a Ref()-style call).
func (c *Ctx) Pairing(spec PairSpec, fn *ssa.Function, acquire ssa.Instruction, v ssa.Value) {
	al := aliasesOf(v)
	if len(spec.Derived) > 0 {
		der := map[string]bool{}
		for _, d := range spec.Derived {
			der[d] = true
		}
		// results of ref.Value()-style calls on an alias are aliases for consumer purposes
		for changed := true; changed; {
			changed = false
			for x := range al {
				if x.Referrers() == nil {
					continue
				}
				for _, r := range *x.Referrers() {
					call, ok := r.(*ssa.Call)
					if !ok {
						continue
					}
					ci := infoOfCommon(call.Common())
					if ci.Recv != nil && stripConv(ci.Recv) == x && der[ci.Short] && !al[call] {
						for y := range aliasesOf(call) {
							al[y] = true
						}
						changed = true
					}
				}
			}
		}
	}
	rel := map[string]bool{}
	for _, r := range spec.Release {
		rel[r] = true
	}
	cons := map[string]bool{}
	for _, r := range spec.Consumers {
		cons[expandAlias(r)] = true
	}
	isAlias := func(x ssa.Value) bool {
		x = stripConv(x)
		return al[x]
	}
	commonOf := func(in ssa.Instruction) *ssa.CallCommon {
		switch x := in.(type) {
		case *ssa.Call:
			return x.Common()
		case *ssa.Defer:
			return &x.Call
		case *ssa.Go:
			return &x.Call
		}
		return nil
	}
	discharge := Pred("release / hand-over of "+pathOf(v), func(in ssa.Instruction) bool {
		if cc := commonOf(in); cc != nil {
			ci := infoOfCommon(cc)
			if ci.Recv != nil && rel[ci.Short] && isAlias(ci.Recv) {
				return true
			}
			if cons[ci.QName] {
				for _, a := range cc.Args {
					if isAlias(a) {
						return true
					}
				}
			}
			// closure invoked/deferred that captured the value
			if mc, ok := cc.Value.(*ssa.MakeClosure); ok {
				for _, b := range mc.Bindings {
					if isAlias(b) || cellHolds(b, al) {
						return true
					}
				}
			}
			return false
		}
		switch x := in.(type) {
		case *ssa.Store:
			if isAlias(x.Val) && !isCell(x.Addr) {
				return true // stored into a field / heap object: ownership handed over
			}
		case *ssa.MakeClosure:
			for _, b := range x.Bindings {
				if isAlias(b) || cellHolds(b, al) {
					return true
				}
			}
		case *ssa.Send:
			return isAlias(x.X)
		case *ssa.Return:
			for _, r := range x.Results {
				if isAlias(r) {
					return true
				}
			}
		}
		return false
	})
	fl := NewFlow(c.P).
		KillAfter("balanced", Pred("acquire", func(in ssa.Instruction) bool { return in == acquire })).
		After("balanced", discharge)
	if spec.ErrGated {
		// the error tested must be exactly the acquire call's error result (a variable that is
		// reused for later calls does not count once it may hold another call's error)
		isAcquireErr := func(x ssa.Value) bool {
			x = stripConv(x)
			if ex, ok := x.(*ssa.Extract); ok {
				return ex.Tuple == ssa.Value(acquire.(*ssa.Call))
			}
			if ld, ok := x.(*ssa.UnOp); ok && ld.Op == token.MUL && isCell(ld.X) {
				stores, complete := reachingStores(ld)
				if !complete || len(stores) == 0 {
					return false
				}
				for _, st := range stores {
					ex, ok := stripConv(st.Val).(*ssa.Extract)
					if !ok || ex.Tuple != ssa.Value(acquire.(*ssa.Call)) {
						return false
					}
				}
				return true
			}
			return false
		}
		fl.Edge("balanced", func(v ssa.Value) (bool, bool) {
			bo, ok := v.(*ssa.BinOp)
			if !ok || (bo.Op != token.EQL && bo.Op != token.NEQ) {
				return false, false
			}
			var x ssa.Value
			if isNilConst(bo.Y) {
				x = bo.X
			} else if isNilConst(bo.X) {
				x = bo.Y
			} else {
				return false, false
			}
			if !isErrorType(x.Type()) || !isAcquireErr(x) {
				return false, false
			}
			return true, bo.Op == token.EQL // balanced where err != nil: nothing was acquired
		})
	}
	for _, cm := range spec.OwnedWhere {
		fl.Edge("balanced", cm)
	}
	entry := emptyState()
	entry.add("balanced")
	res := fl.Analyze(fn, entry)
	c.noteFlow(fl)
	bad := 0
	res.At(AnyReturn, func(in ssa.Instruction, s State) {
		if !s.Reachable() || s.has("balanced") {
			return
		}
		// the return itself may hand the value to the caller
		if discharge.F(in) {
			return
		}
		bad++
		pos := in.Pos()
		if !pos.IsValid() {
			pos = fn.Pos()
		}
		c.Ob(spec.Rule, fn, spec.What, c.P.Pos(pos), false,
			fmt.Sprintf("reference acquired at %s (%s) is neither released (%v) nor handed over on a path to this return", c.P.Pos(acquire.Pos()), pathOf(v), spec.Release))
	})
	if bad == 0 {
		c.Ob(spec.Rule, fn, spec.What, c.P.Pos(acquire.Pos()), true, "")
	}
}

// cellHolds reports whether cell (a local variable captured by reference) is
// one into which an alias was stored.
func cellHolds(cell ssa.Value, al map[ssa.Value]bool) bool {
	if !isCell(cell) || cell.Referrers() == nil {
		return false
	}
	for _, r := range *cell.Referrers() {
		if st, ok := r.(*ssa.Store); ok && st.Addr == cell && al[stripConv(st.Val)] {
			return true
		}
	}
	return false
}

// ParamDisposed checks that a function which takes ownership of parameter
// `param` disposes of it on every path: releases it or stores it away.
func (c *Ctx) ParamDisposed(spec PairSpec, fn *ssa.Function, param string) {
	var pv ssa.Value
	for _, p := range fn.Params {
		if p.Name() == param {
			pv = p
		}
	}
	if pv == nil {
		c.Unresolved(spec.Rule, "parameter "+param+" not found in "+QName(fn))
		return
	}
	// acquire = function entry: use the first instruction
	first := fn.Blocks[0].Instrs[0]
	c.pairingFromEntry(spec, fn, first, pv)
}

func (c *Ctx) pairingFromEntry(spec PairSpec, fn *ssa.Function, first ssa.Instruction, v ssa.Value) {
	// same as Pairing but the obligation exists from entry
	c.Pairing(spec, fn, first, v)
}
