package main

import (
	"go/token"

	"golang.org/x/tools/go/ssa"
)

func init() {
	register("C11", []string{".", "./record", "./wal"}, runC11)
	propExplain["C11"] = "Decides structural clauses of C11: a WAL is closed (fatal on error) before its successor is created, so only the last WAL may end uncleanly; Open classifies exactly the last WAL as non-strict (strictWALTail = i < len-1); replay tolerates only EOF-class read errors and applies a batch only if it was read and decoded without error (C19.S1); every version edit carries LastSeqNum taken from the next sequence number before it is encoded; a sync acknowledgement covers the bytes it claims (C20.O1/O2) and corruption of synced data is confirmed and reported (C19.O1/G2, C18). (O4) newFlushableBatch takes the batch's sequence number before it fragments the batch's range deletions and range keys (a large batch replayed from the WAL). Does not decide de-duplication by sequence number across segments or the prefix property itself."
	propTechnique["C11"] = "SSA error-gated dominance, value provenance, obligation-as-fact dataflow (shared C18/C19/C20 rules)"
}

func runC11(c *Ctx) {
	// C11.O4: a large batch replayed from the WAL becomes a flushable batch whose header already
	// carries its sequence number; newFlushableBatch takes it BEFORE it fragments the batch's range
	// deletions / range keys (the fragments are built relative to b.seqNum) — otherwise the
	// recovered point keys get their real sequence numbers and the range operations sequence
	// numbers near zero: the batch is recovered in part.
	if fn := c.Fn("C11.O4", "p.newFlushableBatch"); fn != nil {
		seqF := c.Field("C11.O4", "p.flushableBatch.seqNum")
		dataF := c.Field("C11.O4", "p.flushableBatch.data")
		noData := func(v ssa.Value) (bool, bool) {
			bo, ok := v.(*ssa.BinOp)
			if !ok || (bo.Op != token.EQL && bo.Op != token.NEQ) {
				return false, false
			}
			var x ssa.Value
			switch {
			case isNilConst(bo.Y):
				x = bo.X
			case isNilConst(bo.X):
				x = bo.Y
			default:
				return false, false
			}
			if !isLoadOfField(x, dataF) {
				return false, false
			}
			return true, bo.Op == token.NEQ
		}
		fl := NewFlow(c.P).After("seqnum-taken", StoreTo(seqF)).Edge("no-data", noData).
			Derive("seqnum-taken|no-data", []string{"seqnum-taken"}, []string{"no-data"})
		fl.MaxDepth = 0
		res := fl.Analyze(fn, emptyState())
		c.noteFlow(fl)
		if n := c.Require("C11.O4", res, CallTo("p.fragmentRangeDels", "p.fragmentRangeKeys"), "the batch's sequence number is taken before its range fragments are built", []string{"seqnum-taken|no-data"}); n < 2 {
			c.Unresolved("C11.O4", "fragmentRangeDels / fragmentRangeKeys calls not found in newFlushableBatch")
		}
	}
	// O1
	if fn := c.Fn("C11.O1", "p.(*DB).rotateWAL"); fn != nil {
		c.Chain("C11.O1", fn, nil,
			Step{Name: "log.writer.Close", M: MethodOn("Close", "log.writer"), Gated: true},
			Step{Name: "log.manager.Create", M: MethodOn("Create", "log.manager"), Gated: true},
			Step{Name: "install the new writer", M: StoreTo(c.Field("C11.O1", "p.DB.mu.log.writer"))},
		)
	}
	// G1
	if fn := c.Fn("C11.G1", "p.Open"); fn != nil {
		n := 0
		for _, in := range instrs(fn, CallTo("p.(*DB).replayWAL")) {
			n++
			args := in.(*ssa.Call).Common().Args
			v := args[len(args)-1]
			ok := false
			if bo, isB := v.(*ssa.BinOp); isB && bo.Op == token.LSS {
				if sub, isSub := bo.Y.(*ssa.BinOp); isSub && sub.Op == token.SUB {
					k, isK := constInt(sub.Y)
					isLen := false
					if call, isCall := sub.X.(*ssa.Call); isCall {
						if b, isBuiltin := call.Common().Value.(*ssa.Builtin); isBuiltin && b.Name() == "len" {
							isLen = true
						}
					}
					ok = isK && k == 1 && isLen
				}
			}
			c.Ob("C11.G1", fn, "strictWALTail is `index < len(wals)-1` (only the last WAL may end uncleanly)", c.P.Pos(in.Pos()), ok,
				map[bool]string{true: "", false: "replayWAL's strictWALTail argument is " + pathOf(v)}[ok])
		}
		if n == 0 {
			c.Unresolved("C11.G1", "replayWAL call not found in Open")
		}
	}
	// O2
	if fn := c.Fn("C11.O2", "p.(*versionSet).UpdateVersionLocked"); fn != nil {
		lastSeq := c.Field("C11.O2", "man.VersionEdit.LastSeqNum")
		c.Chain("C11.O2", fn, nil,
			Step{Name: "store ve.LastSeqNum", M: StoreTo(lastSeq)},
			Step{Name: "ve.Encode", M: Reaching(CallTo("man.(*VersionEdit).Encode"), 2)},
		)
		for _, in := range instrs(fn, StoreTo(lastSeq)) {
			v := in.(*ssa.Store).Val
			ok := len(derivesFrom(v, func(x ssa.Value) bool {
				call, isCall := x.(*ssa.Call)
				return isCall && MethodOn("Load", "logSeqNum").F(call)
			}, 4)) > 0
			c.Ob("C11.O2", fn, "LastSeqNum derives from the next sequence number", c.P.Pos(in.Pos()), ok, "")
		}
	}
	// O3
	if fn := c.Fn("C11.O3", "p.(*DB).replayWAL"); fn != nil {
		fl := NewFlow(c.P).
			Ok("ok:SetRepr", CallTo("p.(*Batch).SetRepr")).
			KillAfter("ok:SetRepr", ImplCall(c.Iface("C11.O3", "wal.Reader"), "wal.Reader", "NextRecord"))
		res := fl.Analyze(fn, emptyState())
		n := c.Require("C11.O3", res, CallTo("p.(*memTable).apply"), "a replayed batch is applied only after it decoded", []string{"ok:SetRepr"})
		n += c.Require("C11.O3", res, CallTo("p.(*memTable).prepare"), "a replayed batch is prepared only after it decoded", []string{"ok:SetRepr"})
		if n < 2 {
			c.Unresolved("C11.O3", "memTable.prepare / apply not found in replayWAL")
		}
		// apply's error aborts the replay
		res2 := NewFlow(c.P).Ok("ok:apply", CallTo("p.(*memTable).apply")).Analyze(fn, emptyState())
		_ = res2
	}
	// shared
	runC19Core(c)
	runC20Core(c)
	runC18Core(c)
}
