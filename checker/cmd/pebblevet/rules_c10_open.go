package main

import (
	"go/token"

	"golang.org/x/tools/go/ssa"
)

// runC10Open: C10.O5 — recovery ordering inside pebble.Open.
func runC10Open(c *Ctx) {
	fn := c.Fn("C10.O5", "p.Open")
	if fn == nil {
		return
	}
	// O5a: every WAL is replayed before the recovered sequence number is published
	{
		fl := NewFlow(c.P).KillAfter("before-publication", MethodOn("Store", "visibleSeqNum"))
		entry := emptyState()
		entry.add("before-publication")
		res := fl.Analyze(fn, entry)
		n := c.Require("C10.O5", res, CallTo("p.(*DB).replayWAL"), "WALs are replayed before visibleSeqNum is published", []string{"before-publication"})
		if n == 0 || len(instrs(fn, MethodOn("Store", "visibleSeqNum"))) == 0 {
			c.Unresolved("C10.O5", "replayWAL / visibleSeqNum.Store not found in Open")
		}
		// a replay error aborts Open
		res2 := NewFlow(c.P).Ok("ok:replay", CallTo("p.(*DB).replayWAL")).Analyze(fn, emptyState())
		_ = res2
	}
	// O5b: replayed memtables are flushed before the new WAL is created (old WALs can then be deleted)
	{
		fl := NewFlow(c.P).
			After("flush-scheduled", CallTo("p.(*DB).maybeScheduleFlush")).
			Edge("flush-finished", BoolGuard("compact.flushing", false))
		res := fl.Analyze(fn, emptyState())
		n := c.Require("C10.O5", res, MethodOn("Create", "log.manager"), "recovered memtables are flushed before the new WAL is created", []string{"flush-scheduled", "flush-finished"})
		if n == 0 {
			c.Unresolved("C10.O5", "log.manager.Create not found in Open")
		}
	}
	// O5c: OPTIONS file protocol
	// the OPTIONS chain on the file returned by Create: identify calls on that value
	var optFile ssa.Value
	for _, in := range instrs(fn, ImplCall(c.Iface("C10.O5c", "vfs.FS"), "vfs.FS", "Create")) {
		call := in.(*ssa.Call)
		if call.Referrers() != nil {
			for _, r := range *call.Referrers() {
				if ex, ok := r.(*ssa.Extract); ok && ex.Index == 0 {
					optFile = ex
				}
			}
		}
	}
	if optFile == nil {
		c.Unresolved("C10.O5c", "OPTIONS file creation not found in Open")
		return
	}
	on := func(method string) M {
		return Pred("optionsFile."+method, func(in ssa.Instruction) bool {
			cc := getCallCommon(in)
			if cc == nil || !cc.IsInvoke() || cc.Method.Name() != method {
				return false
			}
			return cc.Value == optFile
		})
	}
	res := c.Chain("C10.O5c", fn, nil,
		Step{Name: "optionsFile.Write", M: on("Write"), Gated: true},
		Step{Name: "optionsFile.Sync", M: on("Sync"), Gated: true},
		Step{Name: "optionsFile.Close(success path)", M: Pred("optionsFile.Close whose error is checked", func(in ssa.Instruction) bool {
			if !on("Close").F(in) {
				return false
			}
			call := in.(*ssa.Call)
			if call.Referrers() == nil {
				return false
			}
			for _, r := range *call.Referrers() {
				if bo, ok := r.(*ssa.BinOp); ok && (bo.Op == token.NEQ || bo.Op == token.EQL) {
					return true
				}
			}
			return false
		}), Gated: true},
		Step{Name: "FS.Rename", M: ImplCall(c.Iface("C10.O5c", "vfs.FS"), "vfs.FS", "Rename"), Gated: true},
		Step{Name: "DataDir.Sync", M: MethodOn("Sync", "dirs.DataDir"), Gated: true},
		Step{Name: "scanObsoleteFiles", M: CallTo("p.(*DB).scanObsoleteFiles")},
	)
	_ = res
}

// runC10V1: the flush's version edit names the first log that is NOT flushed.
func runC10V1(c *Ctx) {
	fn := c.Fn("C10.V1", "p.(*DB).flush1")
	if fn == nil {
		return
	}
	queue := c.Field("C10.V1", "p.DB.mu.mem.queue")
	logNum := c.Field("C10.V1", "p.flushableEntry.logNum")
	// the cell of the local variable n
	// n: the variable that bounds the slice of the queue handed to newFlush.
	nName := "n"
	for _, in := range instrs(fn, CallTo("p.newFlush")) {
		for _, a := range in.(*ssa.Call).Common().Args {
			if sl, ok := a.(*ssa.Slice); ok && isLoadOfField(sl.X, queue) && sl.High != nil {
				switch h := stripConv(sl.High).(type) {
				case *ssa.Phi:
					if h.Comment != "" {
						nName = h.Comment
					}
				case *ssa.UnOp:
					if al, ok := h.X.(*ssa.Alloc); ok && al.Comment != "" {
						nName = al.Comment
					}
				}
			}
		}
	}
	// the variable whose value the version edit's MinUnflushedLogNum receives (in the closure)
	var minLogCell ssa.Value
	for _, a := range fn.AnonFuncs {
		for _, b := range a.Blocks {
			for _, in := range b.Instrs {
				st, ok := in.(*ssa.Store)
				if !ok {
					continue
				}
				fa, ok := st.Addr.(*ssa.FieldAddr)
				if !ok {
					continue
				}
				if f := fieldVar(fa.X.Type(), fa.Field); f == nil || f.Name() != "MinUnflushedLogNum" {
					continue
				}
				if u, ok := st.Val.(*ssa.UnOp); ok && u.Op == token.MUL {
					if fv, ok := u.X.(*ssa.FreeVar); ok {
						if al, ok := freeVarBinding(fv).(*ssa.Alloc); ok && al.Parent() == fn {
							minLogCell = al
						}
					}
				}
			}
		}
	}
	isLoadOfN := func(v ssa.Value) bool {
		u, ok := v.(*ssa.UnOp)
		if !ok || u.Op != token.MUL {
			return false
		}
		a, ok := u.X.(*ssa.Alloc)
		return ok && a.Comment == nName
	}
	isN := func(v ssa.Value) bool {
		v = stripConv(v)
		if isLoadOfN(v) {
			return true
		}
		if phi, ok := v.(*ssa.Phi); ok && phi.Comment == nName {
			return true
		}
		return false
	}
	// (1) the value that reaches ve.MinUnflushedLogNum
	nChecks := 0
	for _, b := range fn.Blocks {
		for _, in := range b.Instrs {
			st, ok := in.(*ssa.Store)
			if !ok {
				continue
			}
			a, ok := st.Addr.(*ssa.Alloc)
			if !ok || minLogCell == nil || ssa.Value(a) != minLogCell {
				continue
			}
			nChecks++
			// must be exactly: load of (&queue[n]).logNum
			ok2 := false
			what := pathOf(st.Val)
			if u, isLoad := st.Val.(*ssa.UnOp); isLoad && u.Op == token.MUL {
				if fa, isFA := u.X.(*ssa.FieldAddr); isFA && fieldVar(fa.X.Type(), fa.Field) == logNum {
					base := fa.X
					if ld, isLd := base.(*ssa.UnOp); isLd {
						base = ld.X
					}
					if ia, isIA := base.(*ssa.IndexAddr); isIA && isLoadOfField(ia.X, queue) {
						ok2 = isN(ia.Index)
						what = "queue[" + pathOf(ia.Index) + "].logNum"
					}
				}
			}
			c.Ob("C10.V1", fn, "MinUnflushedLogNum is the log of queue[n], the first flushable NOT being flushed", c.P.Pos(in.Pos()), ok2,
				map[bool]string{true: "", false: "minUnflushedLogNum is computed as " + what + " instead of queue[n].logNum: an off-by-one deletes a WAL whose memtable is still only in memory (or keeps WALs forever)"}[ok2])
		}
	}
	if nChecks == 0 {
		c.Unresolved("C10.V1", "definition of minUnflushedLogNum not found in flush1")
	}
	// (2) queue[:n] goes to newFlush; queue[n:] is what remains
	for _, in := range instrs(fn, CallTo("p.newFlush")) {
		okk := false
		for _, a := range in.(*ssa.Call).Common().Args {
			if sl, ok := a.(*ssa.Slice); ok && isLoadOfField(sl.X, queue) {
				okk = sl.Low == nil && sl.High != nil && isN(sl.High)
			}
		}
		c.Ob("C10.V1", fn, "the flush covers exactly queue[:n]", c.P.Pos(in.Pos()), okk, "")
	}
	for _, in := range instrs(fn, StoreTo(queue)) {
		st := in.(*ssa.Store)
		sl, ok := st.Val.(*ssa.Slice)
		okk := ok && isLoadOfField(sl.X, queue) && sl.Low != nil && isN(sl.Low) && sl.High == nil
		c.Ob("C10.V1", fn, "after the flush queue[n:] remains", c.P.Pos(in.Pos()), okk, "")
	}
	// (3) the closure stores that very variable into ve.MinUnflushedLogNum
	{
		found := false
		for _, a := range fn.AnonFuncs {
			for _, b := range a.Blocks {
				for _, in := range b.Instrs {
					st, ok := in.(*ssa.Store)
					if !ok {
						continue
					}
					fa, ok := st.Addr.(*ssa.FieldAddr)
					if !ok {
						continue
					}
					f := fieldVar(fa.X.Type(), fa.Field)
					if f == nil || f.Name() != "MinUnflushedLogNum" {
						continue
					}
					found = true
					okk := minLogCell != nil && pathOf(st.Val) == minLogCell.(*ssa.Alloc).Comment
					c.Ob("C10.V1", a, "ve.MinUnflushedLogNum is the value captured before the flush", c.P.Pos(in.Pos()), okk, "")
				}
			}
		}
		if !found {
			c.Ob("C10.V1", fn, "ve.MinUnflushedLogNum is set by the flush", c.P.Pos(fn.Pos()), false, "flush1's version edit no longer sets MinUnflushedLogNum: WALs of flushed memtables would never become obsolete (or recovery replays flushed data)")
		}
	}
	// n is not modified after it was used
	fl := NewFlow(c.P).KillAfter("n-not-used-yet", CallTo("p.newFlush"))
	entry := emptyState()
	entry.add("n-not-used-yet")
	res := fl.Analyze(fn, entry)
	c.Require("C10.V1", res, Pred("store to n", func(in ssa.Instruction) bool {
		st, ok := in.(*ssa.Store)
		if !ok {
			return false
		}
		a, ok := st.Addr.(*ssa.Alloc)
		return ok && a.Comment == nName
	}), "n is fixed before it selects the flushed prefix", []string{"n-not-used-yet"})
}
