package main

func runC10Open(c *Ctx) {}
func runC10V1(c *Ctx)   {}
