package main

import (
	"go/token"

	"golang.org/x/tools/go/ssa"
)

func init() {
	register("C18", []string{"./record"}, runC18)
	propExplain["C18"] = "Decides structural clauses of C18 in record.Reader.nextChunk: a chunk is handed out (return nil) only after its CRC matched — and, for the recyclable / WAL-sync wire formats, after its log number matched — for the chunk at the reader's current position; every return of an invalid-chunk sentinel is preceded by recording the invalid offset for the current position (without it read-ahead can never confirm corruption); plus agreement of the chunk-encoding table with the header-format table. Shares the LogWriter rules of C20 (a failed block write is never overwritten by a later successful one). (G4) once nextChunk has stepped onto a chunk it moves on to the next one only after that chunk's checksum matched (a chunk is never skipped on the strength of its unverified type byte). Does not decide byte-identical round trips for all sizes (value-level)."
}

func sentinelPred(names ...string) func(ssa.Value) bool {
	return func(v ssa.Value) bool { return isLoadOfGlobal(v, names...) }
}

func isCallNamed(v ssa.Value, short string, qnameContains string) bool {
	c, ok := v.(*ssa.Call)
	if !ok {
		return false
	}
	ci := infoOfCommon(c.Common())
	return ci.Short == short && (qnameContains == "" || containsStr(ci.QName, qnameContains))
}

func containsStr(s, sub string) bool {
	for i := 0; i+len(sub) <= len(s); i++ {
		if s[i:i+len(sub)] == sub {
			return true
		}
	}
	return false
}

// crcEqGuard: fact holds where "<x> == crc.New(..).Value()" (checksum matches).
func crcEqGuard() CondM {
	return func(v ssa.Value) (bool, bool) {
		bo, ok := v.(*ssa.BinOp)
		if !ok || (bo.Op != token.EQL && bo.Op != token.NEQ) {
			return false, false
		}
		if isCallNamed(bo.X, "Value", "/crc") || isCallNamed(bo.Y, "Value", "/crc") {
			return true, bo.Op == token.NEQ
		}
		return false, false
	}
}

// logNumEqGuard: fact holds where "<Uint32 read> == r.logNum".
func logNumEqGuard() CondM {
	return func(v ssa.Value) (bool, bool) {
		bo, ok := v.(*ssa.BinOp)
		if !ok || (bo.Op != token.EQL && bo.Op != token.NEQ) {
			return false, false
		}
		px, py := pathOf(bo.X), pathOf(bo.Y)
		if (pathHasSuffix(px, "recv.logNum") && isCallNamed(bo.Y, "Uint32", "binary")) ||
			(pathHasSuffix(py, "recv.logNum") && isCallNamed(bo.X, "Uint32", "binary")) {
			return true, bo.Op == token.NEQ
		}
		return false, false
	}
}

// wireFormatIs: condition "wireFormat == <const named name>" true edge.
func wireFormatIs(c *Ctx, constNames ...string) CondM {
	vals := map[int64]bool{}
	for _, n := range constNames {
		if v, ok := c.ConstInt("rec", n); ok {
			vals[v] = true
		}
	}
	return func(v ssa.Value) (bool, bool) {
		bo, ok := v.(*ssa.BinOp)
		if !ok || (bo.Op != token.EQL && bo.Op != token.NEQ) {
			return false, false
		}
		var other ssa.Value
		var k int64
		if kv, ok := constInt(bo.Y); ok {
			other, k = bo.X, kv
		} else if kv, ok := constInt(bo.X); ok {
			other, k = bo.Y, kv
		} else {
			return false, false
		}
		if !vals[k] || !pathHasSuffix(pathOf(other), "wireFormat") {
			return false, false
		}
		return true, bo.Op == token.NEQ
	}
}

func runC18(c *Ctx) {
	runC18Core(c)
	// the writer half of the round trip: a write error the LogWriter swallows leaves a hole that the
	// reader stitches over (C20's sticky-error, ordering and lock rules are shared)
	runC20Core(c)
}

func runC18Core(c *Ctx) {
	fn := c.Fn("C18.O1", "rec.(*Reader).nextChunk")
	if fn == nil {
		return
	}
	endF := c.Field("C18.O1", "rec.Reader.end")
	beginF := c.Field("C18.O1", "rec.Reader.begin")
	invF := c.Field("C18.O1", "rec.Reader.invalidOffset")
	posStore := Or(StoreTo(endF), StoreTo(beginF))
	fl := NewFlow(c.P).
		After("invalidOffset-current", StoreTo(invF)).
		KillAfter("invalidOffset-current", posStore).
		Edge("crc-ok", crcEqGuard()).
		KillAfter("crc-ok", posStore).
		Edge("lognum-ok", logNumEqGuard()).
		Edge("not-recyclable", NotCond(wireFormatIs(c, "recyclableWireFormat"))).
		Edge("not-walsync", NotCond(wireFormatIs(c, "walSyncWireFormat"))).
		Derive("lognum-ok|legacy-format", []string{"lognum-ok"}, []string{"not-recyclable", "not-walsync"}).
		IterationLocal("crc-ok", "lognum-ok", "not-recyclable", "not-walsync", "lognum-ok|legacy-format")
	res := fl.Analyze(fn, emptyState())
	c.noteFlow(fl)
	// C18.O1: sentinel returns record the invalid offset
	n := c.Require("C18.O1", res, ReturnOf("ErrInvalidChunk|ErrZeroedChunk|ErrUnexpectedEOF", -1, sentinelPred("ErrInvalidChunk", "ErrZeroedChunk", "ErrUnexpectedEOF")),
		"invalid-chunk return records r.invalidOffset for the current position", []string{"invalidOffset-current"})
	if n < 5 {
		c.Unresolved("C18.O1", "fewer than 5 sentinel returns found in nextChunk")
	}
	// C18.G3: a failed read of the next block is turned into a tolerated-tail sentinel only where
	// the error was seen to be io.EOF (or the short-read io.ErrUnexpectedEOF); any other I/O error
	// propagates, so that recovery does not take a transient read fault for the end of the log.
	{
		fl3 := NewFlow(c.P).
			KillEdge("read-error-classified", NotCond(NilErrGuard(CallPred("ReadFull", "io")))).
			Edge("read-error-classified", ErrorsIsGuard("EOF")).
			Edge("read-error-classified", ErrorsIsGuard("ErrUnexpectedEOF"))
		entry := emptyState()
		entry.add("read-error-classified")
		res3 := fl3.Analyze(fn, entry)
		c.noteFlow(fl3)
		n3 := c.Require("C18.G3", res3, ReturnOf("EOF|ErrInvalidChunk|ErrZeroedChunk|ErrUnexpectedEOF", -1, sentinelPred("EOF", "ErrInvalidChunk", "ErrZeroedChunk", "ErrUnexpectedEOF")),
			"a tolerated-tail sentinel is not returned for an unclassified read error", []string{"read-error-classified"})
		if n3 < 5 || CondCount(fn, NilErrGuard(CallPred("ReadFull", "io"))) == 0 {
			c.Unresolved("C18.G3", "sentinel returns / the nil test of io.ReadFull's error not found in nextChunk")
		}
	}
	// C18.G4: once nextChunk has stepped onto a chunk (r.begin set to its payload), the chunk is
	// passed over — the loop continues with the next one — only after its checksum matched. A
	// chunk that is skipped because of its (unverified) type byte lets a damaged first/full chunk
	// of a synced record vanish from the log without ErrInvalidChunk, so read-ahead never runs.
	{
		fl4 := NewFlow(c.P).
			After("on-chunk", And(StoreTo(beginF), Pred("payload start (not the reset to 0 on a block refill)", func(in ssa.Instruction) bool {
				_, isConst := in.(*ssa.Store).Val.(*ssa.Const)
				return !isConst
			}))).
			Edge("crc-ok", crcEqGuard()).
			IterationLocal("on-chunk", "crc-ok")
		fl4.MaxDepth = 0
		res4 := fl4.Analyze(fn, emptyState())
		c.noteFlow(fl4)
		nBack := 0
		for _, b := range fn.Blocks {
			for _, p := range b.Preds {
				if !b.Dominates(p) {
					continue // not a back edge
				}
				// state at the end of p, before the iteration-local facts are dropped
				es := res4.out[p]
				if es.top {
					continue
				}
				nBack++
				if !es.has("on-chunk") {
					c.Ob("C18.G4", fn, "a loop iteration that did not step onto a chunk (padding / block refill)", c.P.Pos(fn.Pos()), true, "")
					continue
				}
				ok := es.has("crc-ok")
				pos := fn.Pos()
				if len(p.Instrs) > 0 {
					for i := len(p.Instrs) - 1; i >= 0; i-- {
						if p.Instrs[i].Pos().IsValid() {
							pos = p.Instrs[i].Pos()
							break
						}
					}
				}
				c.Ob("C18.G4", fn, "a chunk is passed over only after its checksum matched", c.P.Pos(pos), ok,
					map[bool]string{true: "", false: "the loop moves on to the next chunk although this chunk's checksum was not compared: a chunk whose type byte is damaged is skipped silently instead of being reported as ErrInvalidChunk"}[ok])
			}
		}
		if nBack < 3 {
			c.Unresolved("C18.G4", "fewer than 3 loop back edges found in nextChunk")
		}
	}
	// C18.G1: success return only after validation
	n = c.Require("C18.G1", res, Pred("return nil", func(in ssa.Instruction) bool {
		ret, ok := in.(*ssa.Return)
		return ok && len(ret.Results) == 1 && isNilConst(ret.Results[0])
	}), "chunk handed out only after CRC (and log number) matched", []string{"crc-ok", "lognum-ok|legacy-format"})
	if n == 0 {
		c.Unresolved("C18.G1", "no `return nil` in nextChunk")
	}
	// C18.G2: a clean end-of-log is reported only at a record boundary (while looking for the
	// FIRST chunk of a record); in the middle of a record the end of data is an invalid chunk.
	fl2 := NewFlow(c.P).Edge("at-record-boundary", BoolGuard(ParamName(fn, 1), true))
	res2 := fl2.Analyze(fn, emptyState())
	n = c.Require("C18.G2", res2, ReturnOf("io.EOF", -1, sentinelPred("EOF")), "io.EOF is returned only while expecting the first chunk of a record", []string{"at-record-boundary"})
	if n == 0 {
		c.Unresolved("C18.G2", "no return of io.EOF in nextChunk")
	}
	runC18Tables(c)
}
