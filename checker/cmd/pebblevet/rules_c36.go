package main

import (
	"fmt"
	"golang.org/x/tools/go/ssa"
)

func init() {
	register("C36", []string{".", "./internal/overlap"}, runC36)
	register("C37", []string{"."}, runC37)
	propExplain["C36"] = "Decides structural clauses of C36: ingested tables become visible only through the commit pipeline (ingestApply is referenced only from DB.ingest's apply callback; link ⊢ attach ⊢ provider sync ⊢ AllocateSeqNum); the caller's original files are removed only after AllocateSeqNum and only on the success edge, and the files linked by this ingest are cleaned up on the failure edge; an excise is registered in ongoingExcises under DB.mu and unregistered only after the pipeline published it; a flushable ingest writes and syncs its WAL record (fatal on error) before the ingested flushable is queued and the read state refreshed. (O3) the prepare callback examines every queued flushable for overlap with the ingest (no iteration of that loop ends without the overlap call). Shares C43.N1 (nil from an iterator positioning call is confirmed by Error(): the overlap probe that picks the ingest's target level, the excise boundary search). Does not decide equivalence to a batch (behaviour)."
	propExplain["C37"] = "Decides structural clauses of C37: an eventually-file-only snapshot reads its sequence number, waits for overlapping excises and registers itself (snapshot list or version reference) in one DB.mu region (C03.R1); the transition stores the version into the snapshot before the underlying sequence-number snapshot is closed, all under the EFOS mutex; the version reference handed to the transition is stored or released on every path (C04.P3); transitions are attempted only after a flush refreshed the read state through a successful MANIFEST update. (O4) at creation every entry of the flushable queue is examined for overlap with the snapshot's key ranges before the snapshot may start out file-only (no iteration of that loop ends without the overlap call). Does not decide protected-range semantics. (V1, shared with C03/C45) NewIter and ScanInternal of an eventually-file-only snapshot pass the snapshot's own sequence number on every definition of their options, before and after the file-only transition."
	propTechnique["C36"] = "who-may-call, SSA error-gated dominance, lock-region, obligation-as-fact"
	propTechnique["C37"] = "SSA lock-region and ordering dataflow, resource pairing"
}

func runC36(c *Ctx) {
	// where an ingested table may be placed is decided by probing existing tables for overlap;
	// a read error taken for "no keys here" puts the table beneath older data (C43.N1 shared)
	runC43N1(c)
	c.Who("C36.W1", FuncRef("p.(*DB).ingestApply"), "ingestApply only from DB.ingest's apply callback", "p.(*DB).ingest")
	c.Who("C36.W1", FuncRef("p.(*DB).handleIngestAsFlushable"), "handleIngestAsFlushable only from DB.ingest's prepare callback", "p.(*DB).ingest")
	fn := c.Fn("C36.O1", "p.(*DB).ingest")
	if fn != nil {
		alloc := CallTo("p.(*commitPipeline).AllocateSeqNum")
		errCell := "err"
		for _, in := range instrs(fn, CallTo("p.(*DB).ingestAttachRemote")) {
			if call := in.(*ssa.Call); call.Referrers() != nil {
				for _, r := range *call.Referrers() {
					if st, ok := r.(*ssa.Store); ok && isCell(st.Addr) {
						errCell = pathOf(st.Addr)
					}
				}
			}
		}
		fl := NewFlow(c.P).
			After("did:AllocateSeqNum", alloc).
			Edge("err-nil", ZeroGuard(errCell)).
			KillAfter("err-nil", alloc).
			Derive("ingest-succeeded", []string{"did:AllocateSeqNum", "err-nil"}).
			Ok("ok:link", CallTo("p.ingestLinkLocal")).
			KillEdge("linked-files-accounted", NilErrGuard(CallPred("ingestLinkLocal", ""))).
			After("linked-files-accounted", CallTo("p.ingestCleanup")).
			Derive("linked-files-accounted", []string{"ingest-succeeded"})
		entry := emptyState()
		entry.add("linked-files-accounted")
		res := fl.Analyze(fn, entry)
		c.noteFlow(fl)
		n := c.Require("C36.O1", res, MethodOn("Remove", "opts.FS"), "the caller's files are removed only after a successful, published ingest", []string{"ingest-succeeded"})
		if n == 0 {
			c.Unresolved("C36.O1", "removal of the original files not found in DB.ingest")
		}
		c.Require("C36.O1", res, AnyReturn, "files linked by this ingest are cleaned up or the ingest succeeded", []string{"linked-files-accounted"})
		n = c.Require("C36.O2", res, CallTo("p.(*DB).removeFromOngoingExcises"), "excise unregistered only after the pipeline published it", []string{"did:AllocateSeqNum"})
		if n == 0 {
			c.Unresolved("C36.O2", "removeFromOngoingExcises not found in DB.ingest")
		}
		// the callbacks handed to AllocateSeqNum run BEFORE the publish: none of ingest's closures
		// may unregister the excise (the flow above only sees ingest's own body)
		var inClosures func(f *ssa.Function) int
		inClosures = func(f *ssa.Function) int {
			k := 0
			for _, a := range f.AnonFuncs {
				k += len(instrs(a, CallTo("p.(*DB).removeFromOngoingExcises"))) + inClosures(a)
			}
			return k
		}
		nc := inClosures(fn)
		c.Ob("C36.O2", fn, "the excise is not unregistered from inside a prepare/apply callback", c.P.Pos(fn.Pos()), nc == 0,
			map[bool]string{true: "", false: fmt.Sprintf("%d call(s) of removeFromOngoingExcises inside closures of DB.ingest: those run before the sequence number is published", nc)}[nc == 0])
		// O3: the prepare callback examines every queued flushable for overlap with the ingested
		// files / the excise span (it must queue behind the newest overlapping one)
		overlapCheck := MethodOn("computePossibleOverlaps", "")
		if clo := c.ClosureWith("C36.O3", fn, overlapCheck); clo != nil {
			if n := c.LoopExaminesAll("C36.O3", clo, overlapCheck, "every queued flushable is examined for overlap with the ingest"); n == 0 {
				c.Unresolved("C36.O3", "no loop calling computePossibleOverlaps in ingest's prepare callback")
			}
		}
		// R1: registration under DB.mu (inside the prepare closure)
		lock, unlock, _ := dbMuMatchers(c, "C36.R1")
		mapUpd := Pred("ongoingExcises[seqNum] = span", func(in ssa.Instruction) bool {
			mu, ok := in.(*ssa.MapUpdate)
			return ok && pathHasSuffix(pathOf(mu.Map), "snapshots.ongoingExcises")
		})
		if clo := c.ClosureWith("C36.R1", fn, mapUpd); clo != nil {
			fl := NewFlow(c.P).After("held:DB.mu", lock).KillAfter("held:DB.mu", unlock)
			fl.MaxDepth = 0
			// The registration sits in a closure deferred by the prepare callback right
			// after it locked DB.mu; the closure itself unlocks at its end. So: the
			// mutex is held where the closure is deferred and at every return of the
			// enclosing function, and inside the closure no Unlock precedes the store.
			entry := emptyState()
			parent := clo.Parent()
			deferred := false
			if parent != nil {
				pres := fl.Analyze(parent, emptyState())
				for _, in := range instrs(parent, Pred("defer of the registering closure", func(in ssa.Instruction) bool {
					d, ok := in.(*ssa.Defer)
					if !ok {
						return false
					}
					mc, ok := d.Call.Value.(*ssa.MakeClosure)
					return ok && mc.Fn == ssa.Value(clo)
				})) {
					deferred = true
					ok := pres.stateBefore(in).has("held:DB.mu")
					c.Ob("C36.R1", parent, "DB.mu held where the registering closure is deferred", c.P.Pos(in.Pos()), ok, "")
				}
				if deferred {
					c.Require("C36.R1", pres, AnyReturn, "DB.mu still held when the deferred registration runs", []string{"held:DB.mu"})
					entry.add("held:DB.mu")
				}
			}
			res := fl.Analyze(clo, entry)
			c.Require("C36.R1", res, mapUpd, "excise registered under DB.mu", []string{"held:DB.mu"})
		}
	}
	// P1: the writer reference the ingest holds on the mutable memtable is kept
	// until ingestApply (which releases it inside the MANIFEST critical section):
	// it is what keeps later writes from being flushed beneath the ingest/excise.
	if fn != nil {
		if clo := c.ClosureWith("C36.P1", fn, CallTo("p.(*DB).ingestApply")); clo != nil {
			fl := NewFlow(c.P).KillAfter("memtable-writer-ref-held", CallTo("p.(*memTable).writerUnref"))
			fl.MaxDepth = 0
			entry := emptyState()
			entry.add("memtable-writer-ref-held")
			res := fl.Analyze(clo, entry)
			c.Require("C36.P1", res, CallTo("p.(*DB).ingestApply"), "the memtable writer reference is still held when ingestApply runs", []string{"memtable-writer-ref-held"})
		}
	}
	// shared: C10.O3c
	if fn != nil {
		provSync := ImplCall(c.Iface("C10.O3c", "objs.Provider"), "objstorage.Provider", "Sync")
		c.Chain("C10.O3c", fn, nil,
			Step{Name: "ingestLinkLocal", M: CallTo("p.ingestLinkLocal"), Gated: true},
			Step{Name: "ingestAttachRemote", M: CallTo("p.(*DB).ingestAttachRemote"), Gated: true},
			Step{Name: "objProvider.Sync", M: provSync, Gated: true},
			Step{Name: "commit.AllocateSeqNum", M: CallTo("p.(*commitPipeline).AllocateSeqNum")},
		)
	}
	// O3
	if fn := c.Fn("C36.O3", "p.(*DB).handleIngestAsFlushable"); fn != nil {
		queue := c.Field("C36.O3", "p.DB.mu.mem.queue")
		fl := NewFlow(c.P).Edge("wal-written|disabled", BoolGuard("opts.DisableWAL", true))
		c.Chain("C36.O3", fn, fl,
			Step{Name: "rotateWAL", M: CallTo("p.(*DB).rotateWAL"), Free: true},
			Step{Name: "commit.directWrite", M: CallTo("p.(*commitPipeline).directWrite"), Gated: true, Also: "wal-written|disabled", Need: []string{"did:rotateWAL"}},
			Step{Name: "queue the ingested flushable", M: StoreTo(queue), Need: []string{"wal-written|disabled"}},
			Step{Name: "updateReadStateLocked", M: CallTo("p.(*DB).updateReadStateLocked")},
		)
	}
	if fn := c.Fn("C36.O3", "p.(*commitPipeline).directWrite"); fn != nil {
		res := c.Chain("C36.O3", fn, nil,
			Step{Name: "env.write", M: DynCall("env.write")},
			Step{Name: "syncWG.Wait", M: CallTo("sync.(*WaitGroup).Wait")},
		)
		fl := NewFlow(c.P).After("waited", CallTo("sync.(*WaitGroup).Wait"))
		res = fl.Analyze(fn, emptyState())
		c.Require("C36.O3", res, AnyReturn, "directWrite returns only after the WAL sync completed", []string{"waited"})
	}
}

func runC37(c *Ctx) {
	efosReadsAtOwnSeqNum(c, "C37.V1")
	// C37.O4: an EFOS starts out file-only only if NO queued flushable may overlap its key ranges.
	// The loop over the flushable queue examines every entry: on each back edge of that loop the
	// entry's computePossibleOverlaps has been called (no `continue` that skips a kind of flushable
	// — a queued flushable ingest is visible but not yet part of the pinned version).
	overlapCheck := MethodOn("computePossibleOverlaps", "")
	if fn := c.Fn("C37.O4", "p.(*DB).makeEventuallyFileOnlySnapshot"); fn != nil {
		if n := c.LoopExaminesAll("C37.O4", fn, overlapCheck, "every queued flushable is examined for overlap with the snapshot's key ranges"); n == 0 {
			c.Unresolved("C37.O4", "no loop calling computePossibleOverlaps in makeEventuallyFileOnlySnapshot")
		}
	}
	// the same at the transition: a flushable may be skipped only because all its keys are newer
	// than the snapshot (`!base.Visible(entry.logSeqNum, efos.seqNum, …)`)
	if fn := c.Fn("C37.O4", "p.(*DB).maybeTransitionSnapshotsToFileOnlyLocked"); fn != nil {
		logSeq := c.Field("C37.O4", "p.flushableEntry.logSeqNum")
		newer := func(v ssa.Value) (bool, bool) {
			call, ok := v.(*ssa.Call)
			if !ok || infoOfCommon(call.Common()).Short != "Visible" || len(call.Common().Args) < 2 {
				return false, false
			}
			if !isLoadOfField(call.Common().Args[0], logSeq) {
				return false, false
			}
			return true, true // excused where Visible(...) is false
		}
		if n := c.LoopExaminesAll("C37.O4", fn, overlapCheck, "a flushable is skipped at the transition only if it is entirely newer than the snapshot", newer); n == 0 {
			c.Unresolved("C37.O4", "no loop calling computePossibleOverlaps in maybeTransitionSnapshotsToFileOnlyLocked")
		}
	}
	if fn := c.Fn("C37.O1", "p.(*EventuallyFileOnlySnapshot).transitionToFileOnlySnapshot"); fn != nil {
		vers := c.Field("C37.O1", "p.EventuallyFileOnlySnapshot.mu.vers")
		fl := NewFlow(c.P).After("held:es.mu", MethodOn("Lock", "recv.mu")).KillAfter("held:es.mu", MethodOn("Unlock", "recv.mu"))
		fl.MaxDepth = 0
		res := c.Chain("C37.O1", fn, fl,
			Step{Name: "store es.mu.vers", M: StoreTo(vers)},
			Step{Name: "oldSnap.closeLocked", M: CallTo("p.(*Snapshot).closeLocked")},
		)
		c.Require("C37.O1", res, StoreTo(vers), "version published under the EFOS mutex", []string{"held:es.mu"})
		c.ParamDisposed(PairSpec{Rule: "C04.P3", What: "version reference handed to transitionToFileOnlySnapshot is stored or released on every path", Release: []string{"Unref", "UnrefLocked"}}, fn, ParamName(fn, 1))
	}
	if fn := c.Fn("C37.O2", "p.(*DB).flush1"); fn != nil {
		c.Chain("C37.O2", fn, nil,
			Step{Name: "UpdateVersionLocked", M: CallTo("p.(*versionSet).UpdateVersionLocked"), Gated: true},
			Step{Name: "updateReadStateLocked", M: CallTo("p.(*DB).updateReadStateLocked")},
			Step{Name: "maybeTransitionSnapshotsToFileOnlyLocked", M: CallTo("p.(*DB).maybeTransitionSnapshotsToFileOnlyLocked")},
		)
	}
	// O3: a successful flush always attempts the transition (even when it produced no table)
	if fn := c.Fn("C37.O3", "p.(*DB).flush1"); fn != nil {
		isUVLErr := CallPred("UpdateVersionLocked", "")
		fl := NewFlow(c.P).
			KillAfter("efos-transition-attempted|flush-failed", CallTo("p.(*versionSet).UpdateVersionLocked")).
			Edge("efos-transition-attempted|flush-failed", NotCond(NilErrGuard(isUVLErr))).
			After("efos-transition-attempted|flush-failed", CallTo("p.(*DB).maybeTransitionSnapshotsToFileOnlyLocked"))
		fl.MaxDepth = 0
		entry := emptyState()
		entry.add("efos-transition-attempted|flush-failed")
		res := fl.Analyze(fn, entry)
		c.Require("C37.O3", res, AnyReturn, "every successful flush attempts the file-only transition of pending snapshots", []string{"efos-transition-attempted|flush-failed"})
	}
	c.Who("C37.W1", FuncRef("p.(*EventuallyFileOnlySnapshot).transitionToFileOnlySnapshot"), "transition only from the flush path", "p.(*DB).maybeTransitionSnapshotsToFileOnlyLocked")
	// callers reference the version before handing it over
	if fn := c.Fn("C37.P1", "p.(*DB).maybeTransitionSnapshotsToFileOnlyLocked"); fn != nil {
		c.Chain("C37.P1", fn, nil,
			Step{Name: "currentVersion.Ref", M: CallTo("man.(*Version).Ref")},
			Step{Name: "transitionToFileOnlySnapshot", M: CallTo("p.(*EventuallyFileOnlySnapshot).transitionToFileOnlySnapshot")},
		)
	}
	// shared C03.R1 for EFOS creation
	lock, unlock, _ := dbMuMatchers(c, "C03.R1")
	if fn := c.Fn("C03.R1", "p.(*DB).makeEventuallyFileOnlySnapshot"); fn != nil {
		seqLoad := snapshotSeqNumLoads(fn) // in fn itself, or (by callee summary: on every path of) a closure it calls
		fl := NewFlow(c.P).After("held:DB.mu", lock).KillAfter("held:DB.mu", unlock).
			After("seqnum-read-in-this-region", seqLoad).
			KillAfter("seqnum-read-in-this-region", Or(unlock, CallTo("sync.(*Cond).Wait"))) // Wait releases DB.mu while it blocks
		res := fl.Analyze(fn, emptyState())
		if n := c.Require("C03.R1", res, seqLoad, "snapshot seqnum read under DB.mu", []string{"held:DB.mu"}); n == 0 {
			c.Unresolved("C03.R1", "the load that becomes the EFOS's seqnum was not found in makeEventuallyFileOnlySnapshot")
		}
		c.Require("C03.R1", res, Or(CallTo("p.(*snapshotList).pushBack"), CallTo("man.(*Version).Ref")), "snapshot registered in the same DB.mu region in which its seqnum was read", []string{"held:DB.mu", "seqnum-read-in-this-region"})
	}
}
