package main

import (
	"golang.org/x/tools/go/ssa"
	"strings"
)

func init() {
	register("C04", []string{"."}, runC04)
	propExplain["C04"] = "Decides the pinning clause of C04: every read-state / version reference taken in package pebble (loadReadState, readState.ref, Version.Ref) is, on every path to every return, released or handed to an owner (iterator, snapshot, compaction) — a missing pin lets compactions delete files under a live iterator, a missing release is the leak of C39/C47; an iterator's sequence number and pinned view are written only at construction/clone/close; the view is pinned before the visible sequence number is read. (K2) every mutator of an indexed batch that inserts into its range-deletion / range-key index (directly or through the deferred operation) has cleared the batch's cached fragments of that kind on the same path, so that iterators created or refreshed afterwards rebuild them. (W2) CloneWithContext stores nothing through its receiver: cloning never changes the iterator being cloned. Does not decide batch-view refresh semantics."
}

func acquireSites(c *Ctx, m M, pkgPath string, f func(fn *ssa.Function, call *ssa.Call)) int {
	n := 0
	for _, fn := range c.P.AllFuncs {
		if fn.Pkg == nil && fn.Parent() == nil {
			continue
		}
		top := TopLevel(fn)
		if top.Pkg == nil || top.Pkg.Pkg.Path() != pkgPath || fn.Origin() != nil {
			continue
		}
		for _, b := range fn.Blocks {
			for _, in := range b.Instrs {
				if call, ok := in.(*ssa.Call); ok && m.F(in) {
					n++
					f(fn, call)
				}
			}
		}
	}
	return n
}

func runC04(c *Ctx) {
	runC04Pairing(c)
	// C04.W1: view fields written only at construction / clone / close
	c.Who("C04.W1", StoreTo(c.Field("C04.W1", "p.Iterator.seqNum")), "Iterator.seqNum fixed at construction",
		"p.(*DB).newIter", "p.(*Iterator).CloneWithContext", "p.NewExternalIterWithContext", "p.(*DB).getInternal", "p.finishInitializingExternal", "p.(*Iterator).Close")
	c.Who("C04.W1", Or(StoreTo(c.Field("C04.W1", "p.Iterator.readState")), StoreTo(c.Field("C04.W1", "p.Iterator.version"))), "Iterator's pinned view fixed at construction",
		"p.(*DB).newIter", "p.(*Iterator).CloneWithContext", "p.NewExternalIterWithContext", "p.(*DB).getInternal", "p.(*Iterator).Close")
	// C01.O1 (shared): view before seqnum
	viewBeforeSeqNum(c, "C04.O1")
	runC04K2(c)
	// C04.W2: cloning an iterator never changes the iterator being cloned. CloneWithContext writes
	// no field reachable through its receiver (its view of the batch, sequence number, read state …
	// all stay as they were; RefreshBatchView refreshes the CLONE).
	if fn := c.Fn("C04.W2", "p.(*Iterator).CloneWithContext"); fn != nil {
		n := 0
		for _, b := range fn.Blocks {
			for _, in := range b.Instrs {
				st, ok := in.(*ssa.Store)
				if !ok {
					continue
				}
				path := pathOf(st.Addr)
				if path != "recv" && !strings.HasPrefix(path, "recv.") {
					continue
				}
				n++
				c.Ob("C04.W2", fn, "Clone does not write to the iterator being cloned", c.P.Pos(st.Pos()), false,
					"CloneWithContext stores into "+strings.Replace(path, "recv", "the source iterator", 1)+": the open iterator's own view changes (a later SetOptions / Clone of it sees a different batch state than it does)")
			}
		}
		if n == 0 {
			c.Ob("C04.W2", fn, "Clone does not write to the iterator being cloned", c.P.Pos(fn.Pos()), true, "")
		}
	}
}

// runC04K2: an indexed batch caches its fragmented range deletions / range keys (b.tombstones,
// b.rangeKeys, valid up to …SeqNum); iterators created or refreshed later are initialised from
// that cache. Every mutator that is about to insert into the range-del / range-key index — an
// Add on the index, or handing the index to the deferred operation — has cleared the
// corresponding cache on the same path, unconditionally with respect to anything but the entry's
// own kind. Otherwise an iterator refreshed afterwards sees the new point keys but not the new
// range keys.
func runC04K2(c *Ctx) {
	type pair struct{ cache, index string }
	n := 0
	for _, pr := range []pair{{"rangeKeys", "rangeKeyIndex"}, {"tombstones", "rangeDelIndex"}} {
		cacheF := c.Field("C04.K2", "p.batchInternal."+pr.cache)
		indexF := c.Field("C04.K2", "p.batchInternal."+pr.index)
		deferredIndexF := c.Field("C04.K2", "p.DeferredBatchOp.index")
		cleared := And(StoreTo(cacheF), Pred("= nil", func(in ssa.Instruction) bool { return isNilConst(in.(*ssa.Store).Val) }))
		insertUse := Pred("insertion through "+pr.index, func(in ssa.Instruction) bool {
			switch x := in.(type) {
			case *ssa.Call:
				ci := infoOfCommon(x.Common())
				return ci.Short == "Add" && ci.Recv != nil && isLoadOfField(ci.Recv, indexF)
			case *ssa.Store:
				return fieldOfValue(x.Addr) == deferredIndexF && isLoadOfField(x.Val, indexF)
			}
			return false
		})
		for _, fn := range pebbleFuncs(c) {
			if len(instrs(fn, insertUse)) == 0 {
				continue
			}
			refilled := And(StoreTo(cacheF), Pred("≠ nil", func(in ssa.Instruction) bool { return !isNilConst(in.(*ssa.Store).Val) }))
			fl := NewFlow(c.P).After("cleared:"+pr.cache, cleared).KillAfter("cleared:"+pr.cache, refilled)
			fl.MaxDepth = 2 // the clearing may sit in a small helper (callee summary)
			res := fl.Analyze(fn, emptyState())
			n += c.Require("C04.K2", res, insertUse, "the cached "+pr.cache+" fragments are cleared on every path that inserts into "+pr.index, []string{"cleared:" + pr.cache})
		}
	}
	if n < 4 {
		c.Unresolved("C04.K2", "fewer than 4 insertions into the batch's range-del / range-key index found")
	}
}

// runC04Pairing: read-state / version reference pairing (shared with C39, C37, C47).
func runC04Pairing(c *Ctx) {
	rsSpec := PairSpec{Rule: "C04.P1", What: "read state pinned by loadReadState/ref is released or owned", Release: []string{"unref", "unrefLocked"}}
	n := acquireSites(c, CallTo("p.(*DB).loadReadState"), modPath, func(fn *ssa.Function, call *ssa.Call) {
		c.Pairing(rsSpec, fn, call, call)
	})
	n += acquireSites(c, CallTo("p.(*readState).ref"), modPath, func(fn *ssa.Function, call *ssa.Call) {
		if QName(fn) == expandAlias("p.(*DB).loadReadState") {
			return // the acquire primitive itself: returns the referenced state
		}
		c.Pairing(rsSpec, fn, call, stripConv(call.Common().Args[0]))
	})
	if n < 9 {
		c.Unresolved("C04.P1", "fewer than 9 read-state acquire sites found")
	}
	vSpec := PairSpec{Rule: "C04.P2", What: "version reference is released or owned", Release: []string{"Unref", "UnrefLocked"},
		Consumers: []string{"p.(*EventuallyFileOnlySnapshot).transitionToFileOnlySnapshot", "man.(*VersionList).PushBack"}}
	n = acquireSites(c, CallTo("man.(*Version).Ref"), modPath, func(fn *ssa.Function, call *ssa.Call) {
		recv := stripConv(call.Common().Args[0])
		// Ref() on a value that is already stored in an owner field (c.version.Ref(),
		// es.mu.vers.Ref()): the owner's release is checked by C47/C39.
		if u, ok := recv.(*ssa.UnOp); ok {
			if _, isField := u.X.(*ssa.FieldAddr); isField {
				c.Ob("C04.P2", fn, "version reference taken on an owner's field", c.P.Pos(call.Pos()), true, "")
				return
			}
		}
		c.Pairing(vSpec, fn, call, recv)
	})
	if n < 8 {
		c.Unresolved("C04.P2", "fewer than 8 Version.Ref sites found")
	}
	// C37/C39: the callee that takes over a version reference disposes of it on every path
	if fn := c.Fn("C04.P3", "p.(*EventuallyFileOnlySnapshot).transitionToFileOnlySnapshot"); fn != nil {
		c.ParamDisposed(PairSpec{Rule: "C04.P3", What: "version reference handed to transitionToFileOnlySnapshot is stored or released on every path", Release: []string{"Unref", "UnrefLocked"}}, fn, ParamName(fn, 1))
	}
}

// viewBeforeSeqNum: in the read entry points the view is pinned before the
// visible sequence number is read.
func viewBeforeSeqNum(c *Ctx, rule string) {
	pin := Or(CallTo("p.(*DB).loadReadState"), CallTo("p.(*readState).ref"), CallTo("man.(*Version).Ref"))
	for _, name := range []string{"p.(*DB).getInternal", "p.(*DB).newIter", "p.(*DB).newInternalIter"} {
		fn := c.Fn(rule, name)
		if fn == nil {
			continue
		}
		fl := NewFlow(c.P).After("view-pinned", pin)
		res := fl.Analyze(fn, emptyState())
		c.noteFlow(fl)
		n := c.Require(rule, res, MethodOn("Load", "visibleSeqNum"), "view pinned ≺ visibleSeqNum.Load", []string{"view-pinned"})
		if n == 0 {
			c.Unresolved(rule, "visibleSeqNum.Load not found in "+name)
		}
	}
}
