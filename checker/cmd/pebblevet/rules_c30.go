package main

import (
	"fmt"
	"go/token"
	"go/types"
	"strings"

	"golang.org/x/tools/go/ssa"
)

func init() {
	register("C30", []string{"./internal/arenaskl"}, runC30)
	register("C34", []string{"./internal/cache"}, runC34)
	propExplain["C30"] = "Decides the publication-order clause of C30 in arenaskl.Skiplist.addInternal: the new node is fully built (newNode) and, at every level, its tower links are initialised before the CAS on the predecessor's next pointer can publish it; the back-pointer CAS of the successor happens only after that publishing CAS succeeded; outside initialisation the link words are modified only by compare-and-swap; the list height only by CAS (and Reset). (O2) a stale back pointer is repaired only where prev's forward pointer was re-read after next's back pointer and still names next (the helping CAS of addInternal). Does not decide the interleavings themselves (model checking)."
	propExplain["C34"] = "Decides structural clauses of C34 in the block cache: a value's memory is freed only by Value.Release on the edge where the reference count dropped to zero (and by the owner-only Free); an entry's value is read-and-referenced (acquireValue) only with the shard mutex held (read or write) and replaced (setValue) only with it write-held, established by a lockset over the cache package with requires-held summaries; a read entry publishes its value/error before it wakes the waiters. (P1) the reference-counted read entry obtained on a miss is released or handed to the caller in the ReadHandle on every path of GetWithReadHandle. The outcome of a read is stored in the entry on every path of setReadValue / setReadError, not only when a waiter is already parked. Does not decide 'latest value for the exact key' or capacity accounting (value-level). (P2) a waiter that received the read-turn token of a read entry leaves waitForReadPermissionOrHandle only after becoming the reader, finding the value present, or going back to waiting — never with the token consumed and nobody reading."
	propTechnique["C30"] = "SSA ordering dataflow inside the CAS loop, who-may-write on atomic fields"
	propTechnique["C34"] = "who-may-call, SSA guard, lockset with requires-held summaries over the cache package"
}

func runC30(c *Ctx) {
	if fn := c.Fn("C30.O1", "skl.(*Skiplist).addInternal"); fn != nil {
		casNext := CallTo("skl.(*node).casNextOffset")
		casPrev := CallTo("skl.(*node).casPrevOffset")
		fl := NewFlow(c.P).
			After("node-built", CallTo("skl.(*Skiplist).newNode")).
			After("links-initialised", CallTo("skl.(*links).init")).
			Edge("published", func(v ssa.Value) (bool, bool) {
				call, ok := v.(*ssa.Call)
				if !ok || !casNext.F(call) {
					return false, false
				}
				return true, false
			}).
			IterationLocal("links-initialised", "published")
		res := fl.Analyze(fn, emptyState())
		c.noteFlow(fl)
		n := c.Require("C30.O1", res, casNext, "node built and this level's links initialised before the publishing CAS", []string{"node-built", "links-initialised"})
		if n == 0 {
			c.Unresolved("C30.O1", "casNextOffset not found in addInternal")
		}
		// the casPrevOffset that installs the new node (3rd arg = ndOffset) only after the publishing CAS succeeded
		for _, in := range instrs(fn, casPrev) {
			args := in.(*ssa.Call).Common().Args
			if !strings.HasSuffix(pathOf(args[len(args)-1]), "getPointerOffset()") {
				continue
			}
			// distinguish by provenance: the value installed derives from nd
			if len(derivesFrom(args[len(args)-1], func(v ssa.Value) bool { return strings.Contains(pathOf(v), "newNode()") }, 5)) == 0 {
				continue // helping CAS that repairs a stale back pointer
			}
			ok := res.stateBefore(in).has("published")
			c.Ob("C30.O1", fn, "successor's back pointer set to the new node only after the publishing CAS succeeded", c.P.Pos(in.Pos()), ok, "")
		}
	}
	// O2: the HELPING CAS. When next's back pointer does not name prev, either next's inserter has
	// not written it yet, or a node was linked between prev and next. addInternal repairs the back
	// pointer only in the first case, which it recognises by re-reading prev's forward pointer AFTER
	// it read next's back pointer ("publication safety") and finding it still equal to next. A
	// repair on any other evidence can overwrite the correct back link of a node linked in between:
	// backward iteration then skips nodes for good.
	if fn := c.Fn("C30.O2", "skl.(*Skiplist).addInternal"); fn != nil {
		casPrev := CallTo("skl.(*node).casPrevOffset")
		fwdLoad := CallTo("skl.(*node).nextOffset")
		backLoad := CallTo("skl.(*node).prevOffset")
		helping := And(casPrev, Pred("new value is prev's offset (not the new node)", func(in ssa.Instruction) bool {
			args := in.(*ssa.Call).Common().Args
			return len(derivesFrom(args[len(args)-1], func(v ssa.Value) bool { return strings.Contains(pathOf(v), "newNode()") }, 5)) == 0
		}))
		fl := NewFlow(c.P).
			After("back-pointer-read", backLoad).
			Edge("prev-still-points-to-next", func(v ssa.Value) (bool, bool) {
				bo, ok := v.(*ssa.BinOp)
				if !ok || (bo.Op != token.EQL && bo.Op != token.NEQ) {
					return false, false
				}
				isFwd := func(x ssa.Value) bool { call, ok := x.(*ssa.Call); return ok && fwdLoad.F(call) }
				if isFwd(bo.X) == isFwd(bo.Y) {
					return false, false
				}
				return true, bo.Op == token.NEQ
			}).
			IterationLocal("back-pointer-read", "prev-still-points-to-next")
		fl.MaxDepth = 0
		res := fl.Analyze(fn, emptyState())
		c.noteFlow(fl)
		n := c.Require("C30.O2", res, helping, "a stale back pointer is repaired only where prev's forward pointer was re-read and still names next", []string{"prev-still-points-to-next"})
		n2 := c.Require("C30.O2", res, fwdLoad, "prev's forward pointer is re-read after next's back pointer (publication safety)", []string{"back-pointer-read"})
		if n == 0 || n2 == 0 {
			c.Unresolved("C30.O2", "helping casPrevOffset / nextOffset re-read not found in addInternal")
		}
	}
	// T1: sibling agreement on the trailer order. Internal keys with equal user keys sort by
	// DESCENDING trailer; the two splice finders stop before `next` when key.Trailer > next.keyTrailer
	// and keyIsAfterNode says "after" when key.Trailer < nd.keyTrailer. All three must agree.
	trailerOps := func(fn *ssa.Function) map[token.Token]bool {
		ops := map[token.Token]bool{}
		mirror := map[token.Token]token.Token{token.LSS: token.GTR, token.GTR: token.LSS, token.LEQ: token.GEQ, token.GEQ: token.LEQ, token.EQL: token.EQL, token.NEQ: token.NEQ}
		for _, b := range fn.Blocks {
			for _, in := range b.Instrs {
				bo, ok := in.(*ssa.BinOp)
				if !ok {
					continue
				}
				if _, isCmp := mirror[bo.Op]; !isCmp {
					continue
				}
				px, py := pathOf(bo.X), pathOf(bo.Y)
				switch {
				case pathHasSuffix(px, "Trailer") && pathHasSuffix(py, "keyTrailer"):
					ops[bo.Op] = true
				case pathHasSuffix(py, "Trailer") && pathHasSuffix(px, "keyTrailer"):
					ops[mirror[bo.Op]] = true
				}
			}
		}
		return ops
	}
	for _, spec := range []struct {
		fn      string
		allowed map[token.Token]bool
		must    token.Token
	}{
		{"skl.(*Skiplist).findSplice", map[token.Token]bool{token.EQL: true, token.GTR: true}, token.GTR},
		{"skl.(*Skiplist).findSpliceForLevel", map[token.Token]bool{token.EQL: true, token.GTR: true}, token.GTR},
		{"skl.(*Skiplist).keyIsAfterNode", map[token.Token]bool{token.EQL: true, token.LSS: true}, token.LSS},
	} {
		fn := c.Fn("C30.T1", spec.fn)
		if fn == nil {
			continue
		}
		ops := trailerOps(fn)
		ok := ops[spec.must]
		var bad []string
		for op := range ops {
			if !spec.allowed[op] {
				ok = false
				bad = append(bad, op.String())
			}
		}
		detail := ""
		if !ok {
			detail = fmt.Sprintf("trailer comparisons %v disagree with the descending-trailer order used by the sibling search functions (expected key.Trailer %s node trailer)", bad, spec.must)
		}
		c.Ob("C30.T1", fn, "trailer order agrees with the sibling search functions", c.P.Pos(fn.Pos()), ok, detail)
	}
	// W1
	for _, f := range []string{"nextOffset", "prevOffset"} {
		fv := c.Field("C30.W1", "skl.links."+f)
		c.Who("C30.W1", AtomicOp(fv, "Store", "Add", "Swap"), "links."+f+" stored only during initialisation", "skl.(*links).init", "skl.(*Skiplist).Reset")
		c.Who("C30.W1", AtomicOp(fv, "CompareAndSwap"), "links."+f+" otherwise modified only through its CAS helper", "skl.(*node).casNextOffset", "skl.(*node).casPrevOffset")
	}
	hv := c.Field("C30.W1", "skl.Skiplist.height")
	c.Who("C30.W1", AtomicOp(hv, "Store", "Add", "Swap"), "Skiplist.height stored only by Reset", "skl.(*Skiplist).Reset")
	c.Who("C30.W1", AtomicOp(hv, "CompareAndSwap"), "Skiplist.height raised only by CAS in newNode", "skl.(*Skiplist).newNode")
}

func runC34(c *Ctx) {
	runReadTurnToken(c, "C34.P2")
	// W1
	c.Who("C34.W1", FuncRef("cache.(*Value).free"), "Value.free only from Release / Free", "cache.(*Value).Release", "cache.Free")
	if fn := c.Fn("C34.W1", "cache.(*Value).Release"); fn != nil {
		fl := NewFlow(c.P).Edge("last-reference-dropped", BoolGuard("ref.release()", true))
		res := fl.Analyze(fn, emptyState())
		n := c.Require("C34.W1", res, CallTo("cache.(*Value).free"), "memory freed only when the reference count reached zero", []string{"last-reference-dropped"})
		if n == 0 {
			c.Unresolved("C34.W1", "free call not found in Value.Release")
		}
	}
	// R1: lockset over shard.mu
	var funcs []*ssa.Function
	for _, fn := range c.P.AllFuncs {
		top := TopLevel(fn)
		if top.Pkg != nil && top.Pkg.Pkg.Path() == pkgAlias["cache"] && fn.Origin() == nil && !(fn.Synthetic != "" && fn.Parent() == nil) {
			funcs = append(funcs, fn)
		}
	}
	shardMu := c.Field("C34.R1", "cache.shard.mu")
	isShardMu := func(recv ssa.Value) bool {
		for i := 0; i < 3; i++ {
			fa, ok := recv.(*ssa.FieldAddr)
			if !ok {
				return false
			}
			if fieldVar(fa.X.Type(), fa.Field) == shardMu {
				return true
			}
			recv = fa.X
		}
		return false
	}
	mk := func(names ...string) M {
		set := map[string]bool{}
		for _, n := range names {
			set[n] = true
		}
		return M{Desc: "shard.mu." + strings.Join(names, "|"), F: func(in ssa.Instruction) bool {
			cc := getCallCommon(in)
			if cc == nil {
				return false
			}
			ci := infoOfCommon(cc)
			if !set[ci.Short] || ci.Recv == nil || !strings.HasPrefix(ci.QName, "sync.(*RWMutex)") {
				return false
			}
			return isShardMu(ci.Recv)
		}}
	}
	held := map[string]string{
		"cache.(*shard).Free": "runs when the cache's last reference is released: no other goroutine can reach the shard (documented on Cache.Unref)",
	}
	_ = types.Identical
	lsAny := &LockSet{c: c, Rule: "C34.R1", IsLock: mk("Lock", "RLock"), IsUnlock: mk("Unlock", "RUnlock"), Funcs: funcs, HeldAtEntry: prefixKeys(held),
		Site: func(in ssa.Instruction) (string, bool) {
			if CallTo("cache.(*entry).acquireValue").F(in) {
				return "entry.acquireValue()", true
			}
			return "", false
		}}
	lsAny.Run()
	lsW := &LockSet{c: c, Rule: "C34.R1", IsLock: mk("Lock"), IsUnlock: mk("Unlock"), Funcs: funcs, HeldAtEntry: prefixKeys(held),
		Site: func(in ssa.Instruction) (string, bool) {
			if CallTo("cache.(*entry).setValue").F(in) {
				return "entry.setValue()", true
			}
			return "", false
		}}
	lsW.Run()
	n := 0
	for _, fn := range funcs {
		n += len(instrs(fn, CallTo("cache.(*entry).acquireValue", "cache.(*entry).setValue")))
	}
	c.Ob("C34.R1", nil, "acquireValue/setValue call sites analysed under the shard lockset", "", n >= 5, "")
	// O2: set never leaves a previously cached value for the key in place: every return of
	// shard.set has installed the new value into the key's entry (setValue) on all paths.
	if fn := c.Fn("C34.O2", "cache.(*shard).set"); fn != nil {
		fl := NewFlow(c.P).After("value-installed", CallTo("cache.(*entry).setValue"))
		fl.MaxDepth = 0
		res := fl.Analyze(fn, emptyState())
		c.Require("C34.O2", res, AnyReturn, "every path of shard.set replaces the key's value (no stale value survives a Set)", []string{"value-installed"})
	}
	// P1: the read entry obtained on a miss is reference counted; the reference is dropped
	// (unrefAndTryRemoveFromMap / setReadValue / setReadError) or handed to the caller inside the
	// ReadHandle on every path — a leaked entry stays in the read map and keeps serving its value
	// after Delete / EvictFile / a newer Set.
	if fn := c.Fn("C34.P1", "cache.(*Handle).GetWithReadHandle"); fn != nil {
		spec := PairSpec{Rule: "C34.P1", What: "the read entry acquired on a cache miss is released or handed to the caller", Release: []string{"unrefAndTryRemoveFromMap", "setReadValue", "setReadError"}}
		n := 0
		for _, in := range instrs(fn, CallTo("cache.(*readEntry).waitForReadPermissionOrHandle")) {
			call := in.(*ssa.Call)
			c.Pairing(spec, fn, call, stripConv(call.Common().Args[0]))
			n++
		}
		if n == 0 {
			c.Unresolved("C34.P1", "waitForReadPermissionOrHandle not called in GetWithReadHandle")
		}
	}
	// O1: read entry publishes before waking waiters
	for _, spec := range []struct {
		name   string
		fields []string // what a woken waiter reads
	}{
		{"cache.(*readEntry).setReadValue", []string{"v", "isReading"}},
		{"cache.(*readEntry).setReadError", []string{"isReading"}},
	} {
		fn := c.Fn("C34.O1", spec.name)
		if fn == nil {
			continue
		}
		fl := NewFlow(c.P).After("held:e.mu", MethodOn("Lock", "recv.mu")).KillAfter("held:e.mu", MethodOn("Unlock", "recv.mu"))
		need := []string{"held:e.mu"}
		for _, f := range spec.fields {
			f := f
			fl.After("stored:"+f, Pred("store to e.mu."+f, func(in ssa.Instruction) bool {
				st, ok := in.(*ssa.Store)
				return ok && pathOf(st.Addr) == "recv.mu."+f
			}))
			need = append(need, "stored:"+f)
		}
		fl.MaxDepth = 1 // the body may sit in a "...Locked" helper called on the same entry
		res := fl.Analyze(fn, emptyState())
		// close(ch), `ch <- x`, and a send arm of a select (the non-blocking wake in setReadError)
		wake := Or(BuiltinCall("close", "recv.mu.ch"), Pred("send on e.mu.ch", func(in ssa.Instruction) bool {
			switch x := in.(type) {
			case *ssa.Send:
				return pathOf(x.Chan) == "recv.mu.ch"
			case *ssa.Select:
				for _, st := range x.States {
					if st.Dir == types.SendOnly && pathOf(st.Chan) == "recv.mu.ch" {
						return true
					}
				}
			}
			return false
		}))
		// the result is published on EVERY path, not only when somebody is already waiting: a
		// requester that holds the entry but has not parked yet reads it later
		c.Require("C34.O1", res, AnyReturn, "the read's outcome is stored in the entry on every path (late requesters read it)", need[1:])
		k := c.Require("C34.O1", res, wake, "waiters are woken only after the result was stored, under the entry mutex", need)
		if k == 0 {
			c.Unresolved("C34.O1", "no channel wake-up found in "+spec.name)
		}
	}
}

// prefixKeys rewrites alias-qualified keys into the shortKey form used by LockSet.
func prefixKeys(m map[string]string) map[string]string {
	out := map[string]string{}
	for k, v := range m {
		out[shortKey(expandAlias(k))] = v
	}
	return out
}

// runReadTurnToken (added after seed C42-c; C34.P2, shared as C42.T1): the read turn of a cache
// read entry is handed to ONE waiter as a token on the entry's channel. A waiter that received the
// token (the `ok == true` edge of the receive arm of the select) may leave
// waitForReadPermissionOrHandle only after it (a) found the value already present, (b) became the
// reader (isReading = true), or (c) went back to waiting (the select again). Returning with the
// token consumed and none of these strands every other waiter: nobody is reading and the channel
// is empty.
func runReadTurnToken(c *Ctx, rule string) {
	fn := c.Fn(rule, "cache.(*readEntry).waitForReadPermissionOrHandle")
	if fn == nil {
		return
	}
	var sel *ssa.Select
	chArm := -1
	for _, b := range fn.Blocks {
		for _, in := range b.Instrs {
			if s, ok := in.(*ssa.Select); ok {
				for i, st := range s.States {
					if st.Dir == types.RecvOnly && pathHasSuffix(pathOf(st.Chan), "mu.ch") {
						sel, chArm = s, i
					}
				}
			}
		}
	}
	if sel == nil {
		c.Unresolved(rule, "no select receiving from the entry's channel in waitForReadPermissionOrHandle")
		return
	}
	// recvOk of a blocking select is shared by all arms; it is read only on the channel's arm
	tokenTaken := func(v ssa.Value) (bool, bool) {
		ex, ok := v.(*ssa.Extract)
		if !ok || ex.Tuple != ssa.Value(sel) || ex.Index != 1 {
			return false, false
		}
		return true, false
	}
	_ = chArm
	becomeReader := ViaHelper(Pred("isReading = true", func(in ssa.Instruction) bool {
		st, ok := in.(*ssa.Store)
		if !ok || !pathHasSuffix(pathOf(st.Addr), "mu.isReading") {
			return false
		}
		k, isK := st.Val.(*ssa.Const)
		return isK && k.Value != nil && k.Value.String() == "true"
	}))
	valuePresent := func(v ssa.Value) (bool, bool) {
		bo, ok := v.(*ssa.BinOp)
		if !ok {
			return false, false
		}
		var x ssa.Value
		switch {
		case isNilConst(bo.Y):
			x = bo.X
		case isNilConst(bo.X):
			x = bo.Y
		default:
			return false, false
		}
		if !pathHasSuffix(pathOf(x), "mu.v") {
			return false, false
		}
		return true, bo.Op.String() == "==" // fact on the non-nil side
	}
	fl := NewFlow(c.P).
		KillEdge("turn-token-accounted-for", tokenTaken).
		After("turn-token-accounted-for", becomeReader).
		After("turn-token-accounted-for", Pred("waiting again", func(in ssa.Instruction) bool { return in == ssa.Instruction(sel) })).
		Edge("turn-token-accounted-for", valuePresent)
	fl.MaxDepth = 0
	entry := emptyState()
	entry.add("turn-token-accounted-for")
	res := fl.Analyze(fn, entry)
	c.noteFlow(fl)
	if n := c.Require(rule, res, AnyReturn, "a waiter that received the read-turn token leaves only after taking the turn, finding the value, or waiting again", []string{"turn-token-accounted-for"}); n == 0 {
		c.Unresolved(rule, "no return in waitForReadPermissionOrHandle")
	}
	if len(instrs(fn, becomeReader)) == 0 {
		c.Unresolved(rule, "the isReading = true store (becoming the reader) was not found")
	}
}
