package main

import (
	"fmt"
	"go/token"
	"go/types"
	"sort"
	"strings"

	"golang.org/x/tools/go/ssa"
)

// ---------------------------------------------------------------------------
// E9 ERRFLOW: the error result of a listed I/O callee must be *consumed*:
// returned, passed to another function (wrap, firstError, Fatalf, a handler),
// stored into a field / heap cell / channel, or panicked with. A result that is
// discarded (`_ =`, expression statement) or only ever compared with nil /
// classified by a boolean predicate (errors.Is, IsNotExist) and then forgotten
// is a drop: the caller's success no longer implies the I/O succeeded.
// ---------------------------------------------------------------------------

type errUse struct {
	consumed bool
	tested   bool
	how      string
}

func classifyErrUses(v ssa.Value) errUse {
	var u errUse
	seen := map[ssa.Value]bool{}
	cells := map[ssa.Value]bool{}
	var walk func(v ssa.Value, d int)
	walk = func(v ssa.Value, d int) {
		if v == nil || seen[v] || d > 8 || u.consumed {
			return
		}
		seen[v] = true
		refs := v.Referrers()
		if refs == nil {
			return
		}
		for _, r := range *refs {
			switch x := r.(type) {
			case *ssa.Return:
				u.consumed, u.how = true, "returned"
			case *ssa.BinOp:
				if (x.Op == token.EQL || x.Op == token.NEQ) && (isNilConst(x.X) || isNilConst(x.Y)) {
					u.tested = true
				} else {
					// comparison with a sentinel: a classification, not a consumption
					u.tested = true
				}
			case *ssa.Phi:
				walk(x, d+1)
			case *ssa.ChangeInterface:
				walk(x, d+1)
			case *ssa.MakeInterface:
				walk(x, d+1)
			case *ssa.TypeAssert:
				// err.(T): classification
				u.tested = true
				walk(x, d+1)
			case *ssa.Extract:
				walk(x, d+1)
			case *ssa.Store:
				if x.Val != v {
					continue
				}
				if a, ok := x.Addr.(*ssa.Alloc); ok {
					if escapesToClosure(a) || isNamedResult(a) {
						u.consumed, u.how = true, "stored to captured/result variable "+a.Comment
						return
					}
					if !cells[a] {
						cells[a] = true
						// follow loads of the local cell
						if a.Referrers() != nil {
							for _, ar := range *a.Referrers() {
								if ld, ok := ar.(*ssa.UnOp); ok && ld.Op == token.MUL {
									walk(ld, d+1)
								}
							}
						}
					}
					continue
				}
				u.consumed, u.how = true, "stored to "+pathOf(x.Addr)
			case *ssa.Call:
				if isBoolPredicate(x) {
					u.tested = true
					continue
				}
				u.consumed, u.how = true, "passed to "+pathOf(x)
			case *ssa.Defer:
				u.consumed, u.how = true, "passed to deferred call"
			case *ssa.Go:
				u.consumed, u.how = true, "passed to goroutine"
			case *ssa.Send:
				u.consumed, u.how = true, "sent on channel"
			case *ssa.Panic:
				u.consumed, u.how = true, "panic"
			case *ssa.MakeClosure:
				u.consumed, u.how = true, "captured by closure"
			case *ssa.MapUpdate:
				u.consumed, u.how = true, "stored in map"
			case *ssa.DebugRef:
			default:
				// other uses (field of a struct literal, slice element…): consumption
				if _, isVal := r.(ssa.Value); isVal {
					u.consumed, u.how = true, fmt.Sprintf("used by %T", r)
				}
			}
			if u.consumed {
				return
			}
		}
	}
	walk(v, 0)
	return u
}

func isBoolPredicate(c *ssa.Call) bool {
	sig := c.Common().Signature()
	if sig.Results().Len() != 1 {
		return false
	}
	b, ok := sig.Results().At(0).Type().Underlying().(*types.Basic)
	return ok && b.Kind() == types.Bool
}

func escapesToClosure(a *ssa.Alloc) bool {
	if a.Referrers() == nil {
		return false
	}
	for _, r := range *a.Referrers() {
		if _, ok := r.(*ssa.MakeClosure); ok {
			return true
		}
	}
	return false
}

func isNamedResult(a *ssa.Alloc) bool {
	fn := a.Parent()
	if fn == nil || a.Comment == "" {
		return false
	}
	res := fn.Signature.Results()
	for i := 0; i < res.Len(); i++ {
		if res.At(i).Name() == a.Comment {
			return true
		}
	}
	return false
}

// errValueOfCall returns the error-typed result value(s) of a call, or
// (nil,true) if the call has an error result that is not bound at all.
func errValuesOfCall(call *ssa.Call) (vals []ssa.Value, hasErr bool) {
	sig := call.Common().Signature()
	res := sig.Results()
	if res.Len() == 0 {
		return nil, false
	}
	last := res.Len() - 1
	if !isErrorType(res.At(last).Type()) {
		return nil, false
	}
	if res.Len() == 1 {
		return []ssa.Value{call}, true
	}
	if call.Referrers() != nil {
		for _, r := range *call.Referrers() {
			if ex, ok := r.(*ssa.Extract); ok && ex.Index == last {
				vals = append(vals, ex)
			}
		}
	}
	return vals, true
}

type ErrException struct {
	Func   string // qualified enclosing declared function
	Callee string // substring of the callee description
	Reason string
}

// ErrFlow checks every call matching m in the loaded packages whose path
// passes pkgFilter.
func (c *Ctx) ErrFlow(rule string, m M, pkgOK func(path string) bool, exceptions []ErrException) int {
	n := 0
	type rec struct {
		fn     *ssa.Function
		pos    token.Pos
		callee string
		ok     bool
		detail string
	}
	var recs []rec
	for _, fn := range c.P.AllFuncs {
		if fn.Origin() != nil || (fn.Synthetic != "" && fn.Parent() == nil) {
			continue
		}
		top := TopLevel(fn)
		if top.Pkg == nil || !pkgOK(top.Pkg.Pkg.Path()) {
			continue
		}
		for _, b := range fn.Blocks {
			for _, in := range b.Instrs {
				call, ok := in.(*ssa.Call)
				if !ok || !m.F(in) {
					continue
				}
				vals, hasErr := errValuesOfCall(call)
				if !hasErr {
					continue
				}
				n++
				c.CallSites++
				ci := infoOfCommon(call.Common())
				callee := ci.QName
				if callee == "" {
					callee = pathOf(call.Common().Value)
				}
				okk := true
				detail := ""
				if len(vals) == 0 {
					okk = false
					detail = "error result discarded"
				}
				for _, v := range vals {
					u := classifyErrUses(v)
					if !u.consumed {
						okk = false
						if u.tested {
							detail = "error result is only tested/classified and then forgotten; it never reaches a return, a handler, or a field"
						} else {
							detail = "error result discarded"
						}
					}
				}
				if !okk {
					for _, ex := range exceptions {
						if expandAlias(ex.Func) == QName(top) && strings.Contains(callee+" "+pathOf(call), ex.Callee) {
							okk = true
							detail = ""
							c.Note("%s: exception %s / %s: %s", rule, ex.Func, ex.Callee, ex.Reason)
						}
					}
				}
				recs = append(recs, rec{fn, call.Pos(), shortQ(callee), okk, detail})
			}
		}
	}
	sort.Slice(recs, func(i, j int) bool { return recs[i].pos < recs[j].pos })
	for _, r := range recs {
		c.Ob(rule, TopLevel(r.fn), "error of "+r.callee+" consumed", c.P.Pos(r.pos), r.ok, r.detail)
	}
	return n
}

// ErrOverwrite (E9b): an error held in a local variable is not overwritten by the result of
// another call while it may still be non-nil: `_, err = w.Write(tail)` after a loop that can
// leave a write error in err replaces the failure by a later success. At every store of a call's
// error result into a local error variable, the variable is known to be nil (fresh, tested nil,
// or the non-nil edge left the path), unless the stored value is computed from the variable
// itself (firstError(err, …), Wrap(err)).
func (c *Ctx) ErrOverwrite(rule string, pkgOK func(path string) bool, exceptions map[string]string) int {
	n := 0
	for _, fn := range c.P.AllFuncs {
		if fn.Origin() != nil || (fn.Synthetic != "" && fn.Parent() == nil) || len(fn.Blocks) == 0 {
			continue
		}
		top := TopLevel(fn)
		if top.Pkg == nil || !pkgOK(top.Pkg.Pkg.Path()) {
			continue
		}
		// candidate stores
		var stores []*ssa.Store
		for _, b := range fn.Blocks {
			for _, in := range b.Instrs {
				st, ok := in.(*ssa.Store)
				if !ok || !isErrorType(st.Val.Type()) {
					continue
				}
				al, ok := st.Addr.(*ssa.Alloc)
				if !ok {
					continue
				}
				fromCall, fromSelf := false, false
				// `return x, err` in a function with named results and defers re-stores the
				// variable's own value: not an overwrite
				if copyOf(st.Val, func(v ssa.Value) bool { return cellOfLoad(v) == ssa.Value(al) }, 3) {
					continue
				}
				for _, leaf := range errLeaves(st.Val) {
					switch x := leaf.(type) {
					case *ssa.Call:
						fromCall = true
						// computed from the variable itself?
						for _, a := range x.Common().Args {
							if len(derivesFrom(a, func(v ssa.Value) bool { return cellOfLoad(v) == ssa.Value(al) }, 4)) > 0 {
								fromSelf = true
							}
						}
					}
				}
				if fromCall && !fromSelf {
					stores = append(stores, st)
				}
			}
		}
		if len(stores) == 0 {
			continue
		}
		fl := NewFlow(c.P)
		fl.MaxDepth = 0
		res := fl.Analyze(fn, emptyState())
		for _, st := range stores {
			s := res.stateBefore(st)
			if s.top {
				continue
			}
			n++
			ok := s.has("nil:cell:" + st.Addr.Name())
			detail := ""
			key := shortKey(QName(top))
			if !ok {
				if why, has := exceptions[key]; has {
					ok = true
					c.Note("%s: exception %s: %s", rule, key, why)
				} else {
					detail = fmt.Sprintf("%s may still hold an unexamined error when it is overwritten with the result of %s: an earlier failure is replaced by a later success", st.Addr.(*ssa.Alloc).Comment, describeValue(errLeaves(st.Val)[0]))
				}
			}
			c.Ob(rule, fn, "an error variable is nil when it is overwritten by a call result", c.P.Pos(st.Pos()), ok, detail)
		}
	}
	return n
}
