package main

import (
	"encoding/json"
	"fmt"
	"os"
	"path/filepath"
	"sort"
	"strings"
	"time"

	"golang.org/x/tools/go/ssa"
)

// Obligation is one evaluated rule instance.
type Obligation struct {
	Rule   string `json:"rule"`
	Func   string `json:"function,omitempty"`
	What   string `json:"obligation"`
	Pos    string `json:"pos,omitempty"`
	OK     bool   `json:"discharged"`
	Detail string `json:"detail,omitempty"`
	Known  bool   `json:"known_finding,omitempty"`
}

// Key identifies the construct independent of line numbers.
func (o Obligation) Key() string { return o.Rule + " | " + o.Func + " | " + o.What }

type KnownFinding struct {
	Property  string `json:"property"`
	Rule      string `json:"rule"`
	Construct string `json:"construct"` // matched against "<function> | <obligation>" by substring
	Status    string `json:"status"`    // known | fixed
	Commit    string `json:"commit,omitempty"`
	What      string `json:"what"`
}

// Ctx is the per-property evaluation context.
type Ctx struct {
	P          *Program
	Prop       string
	Tier       string
	Obs        []Obligation
	Unres      []string
	Funcs      map[string]bool
	CallSites  int
	Notes      []string
	curRule    string
	ruleCounts map[string]int
}

func NewCtx(p *Program, prop, tier string) *Ctx {
	return &Ctx{P: p, Prop: prop, Tier: tier, Funcs: map[string]bool{}, ruleCounts: map[string]int{}}
}

// Fn resolves a function anchor; a missing anchor is a tooling failure.
func (c *Ctx) Fn(rule, name string) *ssa.Function {
	fn := c.P.Fn(name)
	if fn == nil {
		c.Unresolved(rule, "function anchor not found: "+name)
		return nil
	}
	c.Funcs[QName(fn)] = true
	return fn
}

func (c *Ctx) Unresolved(rule, msg string) {
	c.Unres = append(c.Unres, rule+": "+msg)
}

func (c *Ctx) Note(format string, a ...any) { c.Notes = append(c.Notes, fmt.Sprintf(format, a...)) }

// Ob records an evaluated obligation.
func (c *Ctx) Ob(rule string, fn *ssa.Function, what string, pos string, ok bool, detail string) {
	fname := ""
	if fn != nil {
		fname = QName(fn)
		c.Funcs[fname] = true
	}
	c.ruleCounts[rule]++
	c.Obs = append(c.Obs, Obligation{Rule: rule, Func: shortQ(fname), What: what, Pos: pos, OK: ok, Detail: detail})
}

func shortQ(s string) string {
	return strings.ReplaceAll(s, modPath, "pebble")
}

// MinObs asserts that a rule produced at least n obligations (no vacuous pass).
func (c *Ctx) MinObs(rule string, n int) {
	if c.ruleCounts[rule] < n {
		c.Unresolved(rule, fmt.Sprintf("only %d obligation(s) evaluated, expected at least %d (anchor drifted?)", c.ruleCounts[rule], n))
	}
}

type evidence struct {
	PropertyID string         `json:"property_id"`
	Tier       string         `json:"tier"`
	Seed       int            `json:"seed"`
	Level      string         `json:"level"`
	Coverage   map[string]any `json:"coverage"`
	Assump     []string       `json:"assumptions"`
	WallS      float64        `json:"wall_s"`
	Violations int            `json:"violations"`
}

var propExplain = map[string]string{}
var propTechnique = map[string]string{}
var propAssume = map[string][]string{}

// Finish prints the verdict, writes evidence and returns the exit code.
func (c *Ctx) Finish(evDir string, known []KnownFinding, t0 time.Time, extra map[string]any) int {
	sort.SliceStable(c.Obs, func(i, j int) bool { return c.Obs[i].Key() < c.Obs[j].Key() })
	viol := 0
	knownHits := 0
	for i := range c.Obs {
		o := &c.Obs[i]
		if o.OK {
			continue
		}
		for _, k := range known {
			if k.Status == "known" && k.Property == c.Prop && k.Rule == o.Rule && strings.Contains(o.Func+" | "+o.What, k.Construct) {
				o.Known = true
				break
			}
		}
		if o.Known {
			knownHits++
			fmt.Printf("KNOWN-FINDING: property=%s rule=%s %s %s at %s: %s\n", c.Prop, o.Rule, o.Func, o.What, o.Pos, o.Detail)
		} else {
			viol++
			fmt.Printf("violation: property=%s rule=%s func=%s at %s: %s — %s\n", c.Prop, o.Rule, o.Func, o.Pos, o.What, o.Detail)
		}
	}
	discharged := 0
	for _, o := range c.Obs {
		if o.OK {
			discharged++
		}
	}
	var funcs []string
	for f := range c.Funcs {
		funcs = append(funcs, shortQ(f))
	}
	sort.Strings(funcs)
	// samples: all failing obligations plus up to 40 discharged ones, spread over rules
	var samples []any
	perRule := map[string]int{}
	for _, o := range c.Obs {
		if !o.OK {
			samples = append(samples, o)
		}
	}
	for _, o := range c.Obs {
		if o.OK && perRule[o.Rule] < 6 && len(samples) < 80 {
			perRule[o.Rule]++
			samples = append(samples, o)
		}
	}
	rules := map[string]int{}
	for _, o := range c.Obs {
		rules[o.Rule]++
	}
	cov := map[string]any{
		"obligations":        len(c.Obs),
		"discharged":         discharged,
		"known_findings":     knownHits,
		"explanation":        propExplain[c.Prop],
		"rule":               "one obligation per rule instance (rule id + function + construct), recomputed from /repo's working tree on this run",
		"rules":              rules,
		"samples":            samples,
		"functions_analysed": funcs,
		"packages_loaded":    len(c.P.Pkgs),
		"ssa_functions":      len(c.P.AllFuncs),
		"build_tags":         c.P.Tags,
		"unresolved_anchors": c.Unres,
		"notes":              c.Notes,
		"checker_cmd":        strings.Join(os.Args, " "),
		"trusted_base":       []string{"go/types", "golang.org/x/tools/go/ssa v0.29.0", "golang.org/x/tools/go/packages", "rule tables in /verif/checker/cmd/pebblevet/rules_*.go"},
		"load_s":             c.P.LoadS,
	}
	for k, v := range extra {
		cov[k] = v
	}
	ev := evidence{PropertyID: c.Prop, Tier: c.Tier, Seed: seedFromEnv(), Level: "other", Coverage: cov,
		Assump: propAssume[c.Prop], WallS: time.Since(t0).Seconds(), Violations: viol}
	if ev.Assump == nil {
		ev.Assump = []string{}
	}
	path := filepath.Join(evDir, c.Prop+".json")
	if evDir != "" {
		_ = os.MkdirAll(evDir, 0o755)
		data, _ := json.MarshalIndent(ev, "", " ")
		if err := os.WriteFile(path, data, 0o644); err != nil {
			fmt.Fprintf(os.Stderr, "cannot write evidence: %v\n", err)
			return 2
		}
	}
	fmt.Printf("property=%s tier=%s tags=%q obligations=%d discharged=%d known=%d violations=%d unresolved=%d functions=%d wall=%.1fs\n",
		c.Prop, c.Tier, c.P.Tags, len(c.Obs), discharged, knownHits, viol, len(c.Unres), len(funcs), time.Since(t0).Seconds())
	if viol > 0 {
		fmt.Printf("VIOLATION property=%s replay=%s\n", c.Prop, path)
		return 1
	}
	if len(c.Unres) > 0 {
		for _, u := range c.Unres {
			fmt.Printf("UNRESOLVED property=%s %s\n", c.Prop, u)
		}
		return 2
	}
	if len(c.Obs) == 0 {
		fmt.Printf("UNRESOLVED property=%s no obligations evaluated\n", c.Prop)
		return 2
	}
	return 0
}

func seedFromEnv() int {
	var n int
	fmt.Sscanf(os.Getenv("VERIF_SEED"), "%d", &n)
	return n
}

func loadKnown(path string) []KnownFinding {
	data, err := os.ReadFile(path)
	if err != nil {
		return nil
	}
	var f struct {
		Findings []KnownFinding `json:"findings"`
	}
	if err := json.Unmarshal(data, &f); err != nil {
		fmt.Fprintf(os.Stderr, "known_findings.json: %v\n", err)
		os.Exit(2)
	}
	return f.Findings
}
