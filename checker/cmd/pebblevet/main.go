package main

import (
	"encoding/json"
	"flag"
	"fmt"
	"os"
	"runtime/debug"
	"sort"
	"strings"
	"time"
)

// rule registry: property id -> rule function + the package patterns it needs.
type propRule struct {
	ID   string
	Pkgs []string // package patterns relative to /repo ("." , "./wal", "./...")
	Run  func(c *Ctx)
}

var registry = map[string]*propRule{}

func register(id string, pkgs []string, run func(c *Ctx)) {
	registry[id] = &propRule{ID: id, Pkgs: pkgs, Run: run}
}

func main() {
	prop := flag.String("prop", "", "property id (Cnn) or 'all'")
	tier := flag.String("tier", "quick", "quick|thorough")
	tags := flag.String("tags", "", "build tags")
	repo := flag.String("repo", "/repo", "repository root")
	evDir := flag.String("evidence", "/verif/evidence", "evidence directory ('' = do not write)")
	knownPath := flag.String("known", "/verif/known_findings.json", "known findings file")
	overlayPath := flag.String("overlay", "", "JSON file {path: replacement-file} applied as go/packages overlay")
	list := flag.Bool("list", false, "list registered properties")
	explain := flag.Bool("explain", false, "print {property: {explanation, technique}} as JSON")
	flag.Parse()
	if *explain {
		out := map[string]map[string]string{}
		for id := range registry {
			out[id] = map[string]string{"explanation": propExplain[id], "technique": propTechnique[id]}
		}
		data, _ := json.MarshalIndent(out, "", " ")
		fmt.Println(string(data))
		return
	}
	if *list {
		var ids []string
		for id := range registry {
			ids = append(ids, id)
		}
		sort.Strings(ids)
		fmt.Println(strings.Join(ids, " "))
		return
	}
	if env := os.Getenv("VERIF_TIER"); env != "" && *tier == "" {
		*tier = env
	}
	var props []*propRule
	if *prop == "all" {
		for _, r := range registry {
			props = append(props, r)
		}
		sort.Slice(props, func(i, j int) bool { return props[i].ID < props[j].ID })
	} else {
		for _, id := range strings.Split(*prop, ",") {
			r := registry[id]
			if r == nil {
				fmt.Fprintf(os.Stderr, "unknown property %q\n", id)
				os.Exit(2)
			}
			props = append(props, r)
		}
	}
	pat := map[string]bool{}
	for _, r := range props {
		for _, p := range r.Pkgs {
			pat[p] = true
		}
	}
	if *tier == "thorough" || pat["./..."] {
		pat = map[string]bool{"./...": true}
	}
	var patterns []string
	for p := range pat {
		patterns = append(patterns, p)
	}
	sort.Strings(patterns)
	var overlay map[string][]byte
	if *overlayPath != "" {
		data, err := os.ReadFile(*overlayPath)
		if err != nil {
			fmt.Fprintln(os.Stderr, err)
			os.Exit(2)
		}
		var m map[string]string
		if err := json.Unmarshal(data, &m); err != nil {
			fmt.Fprintln(os.Stderr, err)
			os.Exit(2)
		}
		overlay = map[string][]byte{}
		for k, v := range m {
			b, err := os.ReadFile(v)
			if err != nil {
				fmt.Fprintln(os.Stderr, err)
				os.Exit(2)
			}
			overlay[k] = b
		}
	}
	t0 := time.Now()
	prog, err := Load(*repo, patterns, *tags, overlay)
	if err != nil {
		fmt.Printf("UNRESOLVED load failure: %v\n", err)
		os.Exit(2)
	}
	known := loadKnown(*knownPath)
	exit := 0
	for _, r := range props {
		code := runOne(prog, r, *tier, *evDir, known, t0)
		if code == 1 || (code == 2 && exit == 0) {
			exit = code
		}
	}
	os.Exit(exit)
}

func runOne(prog *Program, r *propRule, tier, evDir string, known []KnownFinding, t0 time.Time) (code int) {
	c := NewCtx(prog, r.ID, tier)
	defer func() {
		if e := recover(); e != nil {
			fmt.Printf("UNRESOLVED property=%s analyser panic: %v\n%s\n", r.ID, e, debug.Stack())
			code = 2
		}
	}()
	r.Run(c)
	return c.Finish(evDir, known, t0, nil)
}
