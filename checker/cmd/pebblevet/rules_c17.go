package main

import (
	"fmt"
	"go/ast"
	"go/token"
	"go/types"

	"golang.org/x/tools/go/ssa"
)

func init() {
	register("C17", []string{"./internal/compact", "."}, runC17)
	register("C45", []string{".", "./internal/compact", "./internal/rangekey", "./internal/rangekeystack"}, runC45)
	register("C08", []string{".", "./internal/rangekey", "./internal/rangekeystack", "./internal/compact", "./internal/keyspan"}, runC08)
	propExplain["C17"] = "Decides guard clauses of C17 in the compaction iterator: sequence numbers are zeroed only on the true edge of isBottommostSnapshotStripe, which is IsBottommostDataLayer && stripe 0; inside Next, keys are skipped (skipInStripe / single-delete elision) only where a tombstone may be elided in the LAST snapshot stripe or where a range tombstone covers the key VISIBLY to the stripe's snapshot; inside a stripe a key is dropped only if covered visibly; range tombstones are elided only in stripe 0; every kind dispatch names all point kinds or fails closed; the snapshot list reaches the iterator (C03.G1). (S1) sibling agreement: singleDeleteNext and skipDueToSingleDeleteElision both handle a SETWITHDEL met by a SINGLEDEL in a different arm than SET/MERGE (as a delete). (U1) in the packages that implement key visibility, whole user keys are never compared with bytes.Equal/bytes.Compare (the configured comparer decides what the same user key is). Does not decide that the emitted key/value is the right one."
	propExplain["C45"] = "Decides structural clauses of C45: internal scans pin their view before reading the visible sequence number (C01.O1 for newInternalIter), release it when construction fails, and every kind dispatch in the point-collapsing iterator and scanInternalImpl names all point / range-key kinds or fails closed. (V1, shared with C03/C37) an eventually-file-only snapshot's ScanInternal / NewIter pass their own sequence number on every definition of the options that reaches the internal iterator (after the file-only transition too). Does not decide replay equivalence."
	propExplain["C08"] = "Decides the dispatch clause of C08: every switch over the range-key kinds (coalescing, user-iterator shadowing, encode/decode, memtable routing) names RangeKeySet, RangeKeyUnset and RangeKeyDelete or fails closed, and memTable.apply routes DeleteRange to the range-deletion skiplist and the three range-key kinds to the range-key skiplist (DeleteRange never removes range keys); and the sort-discipline clause: every sort of []keyspan.Key whose comparator ignores the trailer (CoalesceInto's by-suffix sort, on which \"the newest key at a suffix wins\" rests) is a stable sort. Does not decide defragmentation or bounds (value-level)."
}

func runC17(c *Ctx) {
	// T1
	n := surveyKindSwitches(c, "C17.T1", []string{modPath + "/internal/compact"}, kindSwitchExceptions)
	if n < 5 {
		c.Unresolved("C17.T1", "fewer than 5 kind switches in internal/compact")
	}
	runC17S1(c)
	runC17U1(c)
	// G1: zeroing only in the bottommost stripe
	nz := 0
	for _, fn := range c.P.AllFuncs {
		if fn.Pkg == nil || fn.Pkg.Pkg.Path() != pkgAlias["compact"] {
			continue
		}
		zero := Pred("SetSeqNum(SeqNumZero)", func(in ssa.Instruction) bool {
			cc := getCallCommon(in)
			if cc == nil || infoOfCommon(cc).Short != "SetSeqNum" {
				return false
			}
			k, ok := constInt(cc.Args[len(cc.Args)-1])
			return ok && k == 0
		})
		if len(instrs(fn, zero)) == 0 {
			continue
		}
		fl := NewFlow(c.P).Edge("bottommost-stripe", BoolGuard("isBottommostSnapshotStripe()", true))
		res := fl.Analyze(fn, emptyState())
		nz += c.Require("C17.G1", res, zero, "sequence number zeroed only in the bottommost snapshot stripe", []string{"bottommost-stripe"})
	}
	if nz < 2 {
		c.Unresolved("C17.G1", "fewer than 2 SetSeqNum(0) sites in internal/compact")
	}
	if fn := c.Fn("C17.G1", "compact.(*Iter).isBottommostSnapshotStripe"); fn != nil {
		fl := NewFlow(c.P).Edge("bottom-layer", BoolGuard("cfg.IsBottommostDataLayer", true))
		res := fl.Analyze(fn, emptyState())
		for _, b := range fn.Blocks {
			ret, ok := b.Instrs[len(b.Instrs)-1].(*ssa.Return)
			if !ok {
				continue
			}
			v := ret.Results[0]
			ok2 := false
			detail := "isBottommostSnapshotStripe no longer returns IsBottommostDataLayer && snapshotIdx == 0"
			if phi, isPhi := v.(*ssa.Phi); isPhi {
				ok2 = true
				for i, e := range phi.Edges {
					if k, isK := e.(*ssa.Const); isK && k.Value != nil && k.Value.String() == "false" {
						continue
					}
					bo, isB := e.(*ssa.BinOp)
					es := res.edgeState(phi.Block().Preds[i], phi.Block())
					if !isB || bo.Op != token.EQL || !isZeroConst(bo.Y) || pathOf(bo.X) != ParamName(fn, 1) || !es.has("bottom-layer") {
						ok2 = false
					}
				}
			}
			c.Ob("C17.G1", fn, "bottommost stripe = bottommost data layer && stripe 0", c.P.Pos(ret.Pos()), ok2, map[bool]string{true: "", false: detail}[ok2])
		}
	}
	// G2: skipping in Next
	visibly, okV := c.ConstInt("compact", "coversVisibly")
	if !okV {
		c.Unresolved("C17.G2", "compact.coversVisibly not found")
	}
	coversEq := func(val int64) CondM {
		return func(v ssa.Value) (bool, bool) {
			bo, ok := v.(*ssa.BinOp)
			if !ok || (bo.Op != token.EQL && bo.Op != token.NEQ) {
				return false, false
			}
			k, isK := constInt(bo.Y)
			if !isK || k != val || !isCallNamed(bo.X, "tombstoneCovers", "") {
				return false, false
			}
			return true, bo.Op == token.NEQ
		}
	}
	if fn := c.Fn("C17.G2", "compact.(*Iter).Next"); fn != nil {
		fl := NewFlow(c.P).
			Edge("elidable", BoolGuard("delElider.ShouldElide()", true)).
			Edge("last-stripe", CmpGuard(token.EQL, "recv.curSnapshotIdx", "0")).
			Edge("covered-visibly", coversEq(visibly)).
			Edge("resuming-after-emitted-key", BoolGuard("recv.skip", true)).
			Derive("skip-justified", []string{"elidable", "last-stripe"}, []string{"covered-visibly"}, []string{"resuming-after-emitted-key"}).
			IterationLocal("elidable", "last-stripe", "covered-visibly", "skip-justified")
		res := fl.Analyze(fn, emptyState())
		c.noteFlow(fl)
		n := c.Require("C17.G2", res, CallTo("compact.(*Iter).skipInStripe", "compact.(*Iter).skipDueToSingleDeleteElision"),
			"keys are skipped only under tombstone elision in the last stripe or a visibly covering range tombstone", []string{"skip-justified"})
		if n < 3 {
			c.Unresolved("C17.G2", "skipInStripe / skipDueToSingleDeleteElision calls not found in Iter.Next")
		}
	}
	// G3: inside a stripe a key is dropped only if covered visibly
	if fn := c.Fn("C17.G3", "compact.(*Iter).nextInStripeHelper"); fn != nil {
		n := 0
		for _, b := range fn.Blocks {
			ifi, ok := b.Instrs[len(b.Instrs)-1].(*ssa.If)
			if !ok {
				continue
			}
			bo, ok := ifi.Cond.(*ssa.BinOp)
			if !ok || !(isCallNamed(bo.X, "tombstoneCovers", "") || isCallNamed(bo.Y, "tombstoneCovers", "")) {
				continue
			}
			n++
			k, isK := constInt(bo.Y)
			good := bo.Op == token.EQL && isK && k == visibly
			c.Ob("C17.G3", fn, "in-stripe skip only for keys covered visibly", c.P.Pos(bo.Pos()), good,
				map[bool]string{true: "", false: "nextInStripeHelper drops keys on a cover test other than `== coversVisibly`: keys covered only invisibly are still needed by an open snapshot"}[good])
		}
		if n == 0 {
			c.Unresolved("C17.G3", "tombstoneCovers test not found in nextInStripeHelper")
		}
	}
	// G2b: range tombstone elision only in stripe 0
	if fn := c.Fn("C17.G2", "compact.(*RangeDelSpanCompactor).Compact"); fn != nil {
		fl := NewFlow(c.P).Edge("last-stripe", CmpGuard(token.EQL, "snapshots.Index()", "0")).IterationLocal("last-stripe")
		res := fl.Analyze(fn, emptyState())
		n := c.Require("C17.G2", res, MethodOn("ShouldElide", "elider"), "range tombstone elision is considered only in the last snapshot stripe", []string{"last-stripe"})
		if n == 0 {
			c.Unresolved("C17.G2", "ShouldElide call not found in RangeDelSpanCompactor.Compact")
		}
	}
	// shared: the snapshot list reaches the iterator
	if c.P.ByPath[modPath] != nil {
		if fn := c.Fn("C03.G1", "p.(*DB).compactAndWrite"); fn != nil {
			found := false
			for _, in := range instrs(fn, Pred("store IterConfig.Snapshots", func(in ssa.Instruction) bool {
				st, ok := in.(*ssa.Store)
				if !ok {
					return false
				}
				fa, ok := st.Addr.(*ssa.FieldAddr)
				if !ok {
					return false
				}
				f := fieldVar(fa.X.Type(), fa.Field)
				return f != nil && f.Name() == "Snapshots" && pathOf(st.Val) == snapshotsParam(fn)
			})) {
				_ = in
				found = true
			}
			c.Ob("C03.G1", fn, "compact.IterConfig.Snapshots is the caller's snapshot list", c.P.Pos(fn.Pos()), found, "")
		}
	}
}

func runC45(c *Ctx) {
	efosReadsAtOwnSeqNum(c, "C45.V1")
	n := surveyKindSwitches(c, "C45.T1", kindPkgs(), kindSwitchExceptions)
	if n < 15 {
		c.Unresolved("C45.T1", "fewer than 15 kind switches found")
	}
	viewBeforeSeqNum(c, "C45.O1")
	constructorReleases(c, "C45.P1")
	hideObsoleteAtReaderSeqNum(c, "C45.V1")
}

// hideObsoleteAtReaderSeqNum: sstable iterators may hide points marked obsolete only relative
// to the READER's sequence number: every store to IterOptions.snapshotForHideObsoletePoints
// takes the reader's seqNum (or copies the same option from another options struct).
func hideObsoleteAtReaderSeqNum(c *Ctx, rule string) {
	f := c.Field(rule, "p.IterOptions.snapshotForHideObsoletePoints")
	n := 0
	for _, fn := range pebbleFuncs(c) {
		for _, in := range instrs(fn, StoreTo(f)) {
			n++
			v := in.(*ssa.Store).Val
			p := pathOf(v)
			ok := pathHasSuffix(p, "seqNum") || pathHasSuffix(p, "snapshotForHideObsoletePoints")
			c.Ob(rule, fn, "obsolete points are hidden relative to the reader's own sequence number", c.P.Pos(in.Pos()), ok,
				map[bool]string{true: "", false: "snapshotForHideObsoletePoints is set from " + p + " instead of the reader's seqNum: versions still visible to an older reader would be skipped"}[ok])
		}
	}
	if n < 3 {
		c.Unresolved(rule, "fewer than 3 stores to snapshotForHideObsoletePoints found")
	}
}

// constructorReleases: an internal iterator whose construction fails releases
// the view it already pinned (F5).
func constructorReleases(c *Ctx, rule string) {
	fn := c.Fn(rule, "p.finishInitializingInternalIter")
	if fn == nil {
		return
	}
	fl := NewFlow(c.P).After("closed", CallTo("p.(*scanInternalIterator).Close"))
	res := fl.Analyze(fn, emptyState())
	n := 0
	res.At(AnyReturn, func(in ssa.Instruction, s State) {
		ret := in.(*ssa.Return)
		e := ret.Results[len(ret.Results)-1]
		if isNilConst(e) {
			return
		}
		n++
		ok := s.has("closed") || len(derivesFrom(e, CallPred("Close", ""), 3)) > 0
		c.Ob(rule, fn, "failed construction closes the iterator (releases the pinned read state / version)", c.P.Pos(in.Pos()), ok,
			map[bool]string{true: "", false: "an error return drops the scanInternalIterator without Close(): the read state / version reference taken by newInternalIter leaks"}[ok])
	})
	if n == 0 {
		c.Unresolved(rule, "no error return found in finishInitializingInternalIter")
	}
}

func runC08(c *Ctx) {
	n := surveyKindSwitches(c, "C08.T1", kindPkgs(), kindSwitchExceptions)
	if n < 15 {
		c.Unresolved("C08.T1", "fewer than 15 kind switches found")
	}
	runC08S1(c)
	// memtable routing
	fn := c.Fn("C08.T2", "p.(*memTable).apply")
	if fn == nil {
		return
	}
	fd, pkg := c.P.Decl(fn)
	kindT := c.P.TypeByPath("base.InternalKeyKind")
	names, _, rangeKey := kindSets(c, "C08.T2")
	var rdel int64 = -1
	for v, nme := range names {
		if nme == "InternalKeyKindRangeDelete" {
			rdel = v
		}
	}
	found := false
	for _, sw := range SwitchesOn(pkg, fd, kindT) {
		if _, ok := sw.Cases[rdel]; !ok {
			continue
		}
		found = true
		usesIn := func(cc *ast.CaseClause) map[string]bool {
			out := map[string]bool{}
			for _, st := range cc.Body {
				ast.Inspect(st, func(n ast.Node) bool {
					if sel, ok := n.(*ast.SelectorExpr); ok {
						out[sel.Sel.Name] = true
					}
					return true
				})
			}
			return out
		}
		u := usesIn(sw.Cases[rdel])
		ok := u["rangeDelSkl"] && !u["rangeKeySkl"]
		c.Ob("C08.T2", fn, "DeleteRange is routed to the range-deletion skiplist only", c.P.Pos(sw.Stmt.Pos()), ok,
			map[bool]string{true: "", false: "the RangeDelete arm of memTable.apply does not add to rangeDelSkl exclusively"}[ok])
		for k := range rangeKey {
			cc := sw.Cases[k]
			ok := cc != nil
			if ok {
				u := usesIn(cc)
				ok = u["rangeKeySkl"] && !u["rangeDelSkl"]
			}
			c.Ob("C08.T2", fn, fmt.Sprintf("%s is routed to the range-key skiplist only", names[k]), c.P.Pos(sw.Stmt.Pos()), ok, "")
		}
	}
	if !found {
		c.Unresolved("C08.T2", "routing switch not found in memTable.apply")
	}
}

// runC08S1: sort discipline on range keys. Range-key shadowing ("the newest key at a suffix
// wins") is decided after sorting a span's keys; a sort whose comparator does not itself order
// by trailer relies on the input order (trailer descending) being preserved among equal
// elements, so it has to be a STABLE sort. Every sort over []keyspan.Key in the engine
// packages either compares the trailer or is stable.
func runC08S1(c *Ctx) {
	keyT := c.P.TypeByPath("keyspan.Key")
	if keyT == nil {
		c.Unresolved("C08.S1", "type keyspan.Key not found")
		return
	}
	stable := map[string]bool{"slices.SortStableFunc": true, "sort.SliceStable": true, "sort.Stable": true}
	unstable := map[string]bool{"slices.SortFunc": true, "sort.Slice": true, "sort.Sort": true}
	readsTrailer := func(fn *ssa.Function) bool {
		seen := map[*ssa.Function]bool{}
		var walk func(f *ssa.Function, d int) bool
		walk = func(f *ssa.Function, d int) bool {
			if f == nil || seen[f] || d > 3 {
				return false
			}
			seen[f] = true
			for _, b := range f.Blocks {
				for _, in := range b.Instrs {
					switch x := in.(type) {
					case *ssa.FieldAddr:
						if fv := fieldVar(x.X.Type(), x.Field); fv != nil && fv.Name() == "Trailer" {
							return true
						}
					case *ssa.Field:
						if fv := fieldVar(x.X.Type(), x.Field); fv != nil && fv.Name() == "Trailer" {
							return true
						}
					case *ssa.Call:
						if cal := x.Common().StaticCallee(); cal != nil && cal.Signature.Recv() != nil && types.Identical(derefT(cal.Signature.Recv().Type()), keyT) {
							if walk(cal, d+1) {
								return true
							}
						}
					}
				}
			}
			return false
		}
		return walk(fn, 0)
	}
	nStableRequired := 0
	for _, fn := range c.P.AllFuncs {
		top := TopLevel(fn)
		if top.Pkg == nil || !enginePkg(top.Pkg.Pkg.Path()) {
			continue
		}
		for _, b := range fn.Blocks {
			for _, in := range b.Instrs {
				call, ok := in.(*ssa.Call)
				if !ok {
					continue
				}
				cal := call.Common().StaticCallee()
				if cal == nil {
					continue
				}
				base := cal
				if o := cal.Origin(); o != nil {
					base = o
				}
				if base.Pkg == nil {
					continue
				}
				name := base.Pkg.Pkg.Name() + "." + base.Name()
				if !stable[name] && !unstable[name] {
					continue
				}
				args := call.Common().Args
				if len(args) < 2 {
					continue // sort.Sort / sort.Stable on an interface: element type not visible here
				}
				st, ok := stripConv(args[0]).Type().Underlying().(*types.Slice)
				if !ok || !types.Identical(st.Elem(), keyT) {
					if mi, isMI := args[0].(*ssa.MakeInterface); isMI {
						if st2, ok2 := mi.X.Type().Underlying().(*types.Slice); ok2 && types.Identical(st2.Elem(), keyT) {
							st, ok = st2, true
						}
					}
					if !ok || st == nil || !types.Identical(st.Elem(), keyT) {
						continue
					}
				}
				var cmpFn *ssa.Function
				switch f := args[1].(type) {
				case *ssa.MakeClosure:
					cmpFn, _ = f.Fn.(*ssa.Function)
				case *ssa.Function:
					cmpFn = f
				}
				total := cmpFn != nil && readsTrailer(cmpFn)
				okk := total || stable[name]
				if !total {
					nStableRequired++
				}
				detail := ""
				if !okk {
					detail = "the comparator does not order by trailer, so which of several keys with an equal suffix comes first depends on the sort preserving the input order; " + name + " does not (beyond 12 elements): an older RangeKeySet/Unset can shadow a newer one"
				}
				c.Ob("C08.S1", fn, "sort of range keys by "+map[bool]string{true: "a trailer-aware comparator", false: "a comparator that ignores the trailer is stable"}[total], c.P.Pos(call.Pos()), okk, detail)
			}
		}
	}
	if nStableRequired == 0 {
		c.Unresolved("C08.S1", "no sort of []keyspan.Key with a trailer-blind comparator found (CoalesceInto's suffix sort expected)")
	}
}

// runC17S1: sibling agreement between the two functions that apply a SINGLEDEL to the key
// beneath it — singleDeleteNext (the tombstone is kept) and skipDueToSingleDeleteElision (the
// tombstone is elided). A SETWITHDEL beneath a SINGLEDEL stands for "SET over an older
// tombstone", so the SINGLEDEL must act as a DELETE (older versions stay hidden); a plain SET or
// MERGE is simply consumed. In both functions the first dispatch over the met key's kind
// therefore handles SetWithDelete in a different arm than Set and Merge.
func runC17S1(c *Ctx) {
	kindT := c.P.TypeByPath("base.InternalKeyKind")
	if kindT == nil {
		c.Unresolved("C17.S1", "base.InternalKeyKind not found")
		return
	}
	var set, swd, merge int64 = -1, -1, -1
	for _, k := range c.ConstsOfType("C17.S1", "base.InternalKeyKind") {
		switch k.Name {
		case "InternalKeyKindSet":
			set = k.Val
		case "InternalKeyKindSetWithDelete":
			swd = k.Val
		case "InternalKeyKindMerge":
			merge = k.Val
		}
	}
	for _, name := range []string{"compact.(*Iter).singleDeleteNext", "compact.(*Iter).skipDueToSingleDeleteElision"} {
		fn := c.Fn("C17.S1", name)
		if fn == nil {
			continue
		}
		fd, pkg := c.P.Decl(fn)
		if fd == nil {
			c.Unresolved("C17.S1", "no declaration for "+name)
			continue
		}
		var first *switchInfo
		for _, sw := range SwitchesOn(pkg, fd, kindT) {
			if sw.Cases[set] != nil || sw.Cases[swd] != nil {
				first = sw
				break
			}
		}
		if first == nil {
			c.Unresolved("C17.S1", "no dispatch over the met key's kind in "+name)
			continue
		}
		a := first.Cases[swd]
		ok := a != nil && a != first.Cases[set] && a != first.Cases[merge]
		detail := ""
		if !ok {
			detail = "SetWithDelete shares an arm with Set/Merge (or is not named): a SINGLEDEL that meets a SETWITHDEL would consume only that key and re-expose the older versions the SETWITHDEL was hiding"
		}
		c.Ob("C17.S1", fn, "a SINGLEDEL treats a SETWITHDEL beneath it like a DELETE, not like a SET", c.P.Pos(first.Stmt.Pos()), ok, detail)
	}
}

// runC17U1: "the same user key" is decided by the configured Comparer, never by byte equality: a
// comparer may treat differently encoded keys as equal (the CockroachDB comparer does), and the
// compaction iterator's stripe logic — which versions of a key shadow which — rests on that
// equality. In the packages that implement key visibility no call of bytes.Equal / bytes.Compare
// takes a whole InternalKey.UserKey as an argument (prefixes returned by Split.Prefix are
// byte-comparable by the Comparer contract and are fine).
func runC17U1(c *Ctx) {
	scope := map[string]bool{modPath: true, pkgAlias["compact"]: true, pkgAlias["rangekey"]: true, pkgAlias["keyspan"]: true}
	isWholeUserKey := func(v ssa.Value) bool {
		v = stripConv(v)
		f := fieldOfValue(v)
		if f == nil || f.Name() != "UserKey" {
			return false
		}
		_, isSlice := v.(*ssa.Slice)
		return !isSlice
	}
	nCmp := 0
	for _, fn := range c.P.AllFuncs {
		top := TopLevel(fn)
		if top.Pkg == nil || !scope[top.Pkg.Pkg.Path()] || fn.Origin() != nil {
			continue
		}
		for _, b := range fn.Blocks {
			for _, in := range b.Instrs {
				call, ok := in.(*ssa.Call)
				if !ok {
					continue
				}
				cal := call.Common().StaticCallee()
				if cal == nil || cal.Pkg == nil || cal.Pkg.Pkg.Path() != "bytes" || (cal.Name() != "Equal" && cal.Name() != "Compare") {
					continue
				}
				nCmp++
				bad := false
				for _, a := range call.Common().Args {
					if isWholeUserKey(a) {
						bad = true
					}
				}
				if bad {
					c.Ob("C17.U1", fn, "user keys are compared with the configured comparer", c.P.Pos(call.Pos()), false,
						"bytes."+cal.Name()+" is applied to a whole UserKey: two encodings the comparer treats as one key become different keys, so versions of one key no longer shadow each other (a deleted value comes back, duplicates are emitted)")
				}
			}
		}
	}
	c.Ob("C17.U1", nil, "byte comparisons in the visibility packages examined", "", nCmp > 0, "")
}
