package main

import (
	"fmt"
	"go/types"
	"sort"
	"strings"

	"golang.org/x/tools/go/ssa"
)

func init() {
	register("C47", []string{"."}, runC47)
	propExplain["C47"] = "Decides the release clause of C47: every field of pebble.DB (including the fields of DB.mu) whose type offers a release method (Close, Unref, Stop, Unregister, a cancel function) is released by DB.Close or a function it calls — the field set is recomputed from the struct on every run, with documented exceptions for borrowed resources; every read-state/version reference is released or owned on every path (C04.P1–P3); an internal iterator whose construction fails closes itself (C45.P1). (W1) the loop in which Close waits on compact.cond tests every in-progress indicator of DB.mu.compact (the fields named …ingCount, recomputed from the struct, and flushing). Does not decide goroutine termination (dynamic)."
	propTechnique["C47"] = "struct-field close-set agreement (types + SSA call reachability), resource pairing"
}

var releaseMethods = []string{"Close", "close", "Unref", "unref", "unrefLocked", "Stop", "Unregister", "Free"}

// c47Exceptions: closable fields that DB.Close deliberately does not release.
var c47Exceptions = map[string]string{}

func releaseMethodOf(t types.Type) string {
	for _, tt := range []types.Type{t, types.NewPointer(t)} {
		ms := types.NewMethodSet(tt)
		for _, m := range releaseMethods {
			for i := 0; i < ms.Len(); i++ {
				if ms.At(i).Obj().Name() == m {
					return m
				}
			}
		}
	}
	return ""
}

func runC47(c *Ctx) {
	closeFn := c.Fn("C47.C1", "p.(*DB).Close")
	dbT := c.P.TypeByPath("p.DB")
	if closeFn == nil || dbT == nil {
		return
	}
	// calls (receiver path, method) reachable from Close through static callees, depth 3
	type relCall struct{ path, method string }
	var calls []relCall
	seen := map[*ssa.Function]bool{}
	var walk func(fn *ssa.Function, d int)
	walk = func(fn *ssa.Function, d int) {
		if fn == nil || seen[fn] || d > 3 || len(fn.Blocks) == 0 {
			return
		}
		seen[fn] = true
		for _, b := range fn.Blocks {
			for _, in := range b.Instrs {
				var cc *ssa.CallCommon
				switch x := in.(type) {
				case *ssa.Call:
					cc = x.Common()
				case *ssa.Defer:
					cc = &x.Call
				}
				if cc == nil {
					continue
				}
				ci := infoOfCommon(cc)
				if ci.Recv != nil {
					calls = append(calls, relCall{pathOf(ci.Recv), ci.Short})
				} else if ci.Dyn != nil {
					calls = append(calls, relCall{pathOf(ci.Dyn), "()"})
				}
				if ci.Callee != nil && ci.Callee.Pkg != nil && ci.Callee.Pkg.Pkg.Path() == modPath {
					walk(ci.Callee, d+1)
				}
				if mc, ok := cc.Value.(*ssa.MakeClosure); ok {
					if f, ok := mc.Fn.(*ssa.Function); ok {
						walk(f, d+1)
					}
				}
			}
		}
		for _, a := range fn.AnonFuncs {
			walk(a, d+1)
		}
	}
	walk(closeFn, 0)
	released := func(fieldPath string) (string, bool) {
		for _, rc := range calls {
			if pathHasSuffix(rc.path, fieldPath) || strings.Contains(rc.path, "."+fieldPath+".") || strings.HasSuffix(rc.path, "."+fieldPath+"[]") {
				for _, m := range releaseMethods {
					if rc.method == m {
						return rc.path + "." + rc.method, true
					}
				}
				if rc.method == "()" {
					return rc.path + "()", true
				}
			}
		}
		return "", false
	}
	var fields []string
	var visit func(st *types.Struct, prefix string, depth int)
	visit = func(st *types.Struct, prefix string, depth int) {
		for i := 0; i < st.NumFields(); i++ {
			f := st.Field(i)
			ft := f.Type()
			name := prefix + f.Name()
			if inner, ok := ft.(*types.Struct); ok && depth < 3 {
				visit(inner, name+".", depth+1) // anonymous struct (DB.mu and its sub-structs)
				continue
			}
			closable := releaseMethodOf(ft) != ""
			if sig, ok := ft.Underlying().(*types.Signature); ok && sig.Params().Len() == 0 && sig.Results().Len() == 0 && strings.Contains(strings.ToLower(f.Name()), "cancel") {
				closable = true
			}
			if closable {
				fields = append(fields, name)
			}
		}
	}
	visit(dbT.Underlying().(*types.Struct), "", 0)
	sort.Strings(fields)
	if len(fields) < 8 {
		c.Unresolved("C47.C1", fmt.Sprintf("only %d closable fields found in pebble.DB", len(fields)))
	}
	for _, f := range fields {
		how, ok := released(f)
		detail := ""
		if !ok {
			if why, has := c47Exceptions[f]; has {
				ok = true
				c.Note("C47.C1: %s is not released by Close: %s", f, why)
			} else {
				detail = "DB." + f + " has a release method but DB.Close (and the functions it calls) never invokes it"
			}
		}
		c.Ob("C47.C1", closeFn, "DB."+f+" is released by Close", c.P.Pos(closeFn.Pos()), ok, detail+how)
	}
	// C47.O1: the file-system level closer (disk-health monitor) is closed only after every
	// component that still performs file-system operations while closing.
	{
		fl := NewFlow(c.P).
			After("did:objProvider.Close", MethodOn("Close", "recv.objProvider")).
			After("did:fileCache.Close", MethodOn("Close", "recv.fileCache")).
			After("did:deletePacer.Close", MethodOn("Close", "recv.deletePacer")).
			After("did:log.manager.Close", MethodOn("Close", "log.manager")).
			After("did:versions.close", MethodOn("close", "mu.versions")).
			After("did:marker.Close", MethodOn("Close", "formatVers.marker"))
		fl.MaxDepth = 0
		res := fl.Analyze(closeFn, emptyState())
		n := c.Require("C47.O1", res, MethodOn("Close", "private.fsCloser"), "the FS-level closer runs after every component that still touches the file system",
			[]string{"did:objProvider.Close", "did:fileCache.Close", "did:deletePacer.Close", "did:log.manager.Close", "did:versions.close", "did:marker.Close"})
		if n == 0 {
			c.Unresolved("C47.O1", "fsCloser.Close not found in DB.Close")
		}
	}
	// C47.W1: Close returns only after all background work has stopped. The loop in which Close
	// waits on compact.cond tests EVERY "in progress" indicator of DB.mu.compact — the fields named
	// …ingCount (compactingCount, downloadingCount, …: recomputed from the struct) and flushing.
	// A counter missing from the condition lets that kind of job outlive Close with its version and
	// file-cache references.
	{
		compactF := c.Field("C47.W1", "p.DB.mu.compact")
		st, _ := compactF.Type().Underlying().(*types.Struct)
		required := map[*types.Var]bool{}
		if st != nil {
			for i := 0; i < st.NumFields(); i++ {
				f := st.Field(i)
				if strings.HasSuffix(f.Name(), "ingCount") || f.Name() == "flushing" {
					required[f] = true
				}
			}
		}
		if len(required) < 3 {
			c.Unresolved("C47.W1", "fewer than 3 in-progress indicators found in DB.mu.compact")
		}
		waitM := And(CallTo("sync.(*Cond).Wait"), Pred("on compact.cond", func(in ssa.Instruction) bool {
			cc := getCallCommon(in)
			if cc == nil || len(cc.Args) == 0 || st == nil {
				return false
			}
			f := fieldOfValue(cc.Args[0])
			for i := 0; i < st.NumFields(); i++ {
				if st.Field(i) == f && f.Name() == "cond" {
					return true
				}
			}
			return false
		}))
		waits := instrs(closeFn, waitM)
		if len(waits) == 0 {
			// the wait loops may live in a helper Close calls (two levels)
			seen := map[*ssa.Function]bool{closeFn: true}
			var descend func(f *ssa.Function, d int)
			descend = func(f *ssa.Function, d int) {
				for _, b := range f.Blocks {
					for _, in := range b.Instrs {
						call, ok := in.(*ssa.Call)
						if !ok {
							continue
						}
						cal := call.Common().StaticCallee()
						if cal == nil || seen[cal] || !inModule(cal) || len(cal.Blocks) == 0 {
							continue
						}
						seen[cal] = true
						if ws := instrs(cal, waitM); len(ws) > 0 {
							waits = append(waits, ws...)
						} else if d < 2 {
							descend(cal, d+1)
						}
					}
				}
			}
			descend(closeFn, 1)
		}
		if len(waits) == 0 {
			c.Unresolved("C47.W1", "DB.Close does not wait on compact.cond")
		}
		for _, w := range waits {
			// the natural loop of the back edge leaving the block of the Wait
			src := w.Block()
			var header *ssa.BasicBlock
			for _, sc := range src.Succs {
				if sc.Dominates(src) {
					header = sc
				}
			}
			if header == nil {
				c.Unresolved("C47.W1", "the wait on compact.cond in DB.Close is not in a loop")
				continue
			}
			loop := map[*ssa.BasicBlock]bool{header: true}
			work := []*ssa.BasicBlock{src}
			for len(work) > 0 {
				b := work[len(work)-1]
				work = work[:len(work)-1]
				if loop[b] {
					continue
				}
				loop[b] = true
				work = append(work, b.Preds...)
			}
			read := map[*types.Var]bool{}
			for b := range loop {
				for _, in := range b.Instrs {
					if fa, ok := in.(*ssa.FieldAddr); ok {
						if f := fieldVar(fa.X.Type(), fa.Field); f != nil && required[f] {
							read[f] = true
						}
					}
				}
			}
			var names []string
			for f := range required {
				names = append(names, f.Name())
			}
			sort.Strings(names)
			for _, nm := range names {
				for f := range required {
					if f.Name() != nm {
						continue
					}
					c.Ob("C47.W1", w.Parent(), "Close waits until compact."+nm+" shows no work in progress", c.P.Pos(w.Pos()), read[f],
						map[bool]string{true: "", false: "the wait loop of DB.Close does not test compact." + nm + ": a job of that kind still running when Close is called outlives it (Close reports leaked references or panics in the file cache, and the goroutine keeps using the closed DB)"}[read[f]])
				}
			}
		}
	}
	runC04Pairing(c)
	constructorReleases(c, "C45.P1")
}
