package main

import (
	"fmt"
	"go/token"
	"sort"
	"strings"

	"golang.org/x/tools/go/ssa"
)

// ERRID — error identity.
//
// Some consumers classify an error by IDENTITY (`err == io.EOF`,
// record.IsInvalidRecord(err), which compares with ==). Such a classification is
// only right if every function between the place the sentinel is produced and the
// consumer hands the error on AS IS: a wrapper (errors.Wrap, fmt.Errorf("%w"), a
// marker) keeps errors.Is working but defeats ==, and the consumer then takes a
// tolerated condition (a torn tail) for a fatal one, or the reverse.
//
// The rule: for every error value the consumer compares by identity, find the calls
// that produce it; over the static call tree of each producer (functions of this
// module, bounded depth), every returned error is either
//   - nil, or a fresh error built without an error argument (a deliberate
//     re-classification such as CorruptionErrorf("…")),
//   - the unmodified result of another call (followed into the tree), or
//   - a value loaded from memory (a sticky error field; not followed),
// and never the result of a call that took another call's error result as an
// argument (a wrap).

// errLeaves resolves an error value through phis, local cells and tuple extracts to
// the instructions that produce it.
func errLeaves(v ssa.Value) []ssa.Value {
	var out []ssa.Value
	seen := map[ssa.Value]bool{}
	var walk func(v ssa.Value, d int)
	walk = func(v ssa.Value, d int) {
		if v == nil || seen[v] || d > 12 {
			return
		}
		seen[v] = true
		switch x := v.(type) {
		case *ssa.Phi:
			for _, e := range x.Edges {
				walk(e, d+1)
			}
		case *ssa.ChangeType:
			walk(x.X, d+1)
		case *ssa.ChangeInterface:
			walk(x.X, d+1)
		case *ssa.Extract:
			walk(x.Tuple, d+1)
		case *ssa.UnOp:
			if x.Op == token.MUL && isCell(x.X) && x.X.Referrers() != nil {
				n := 0
				for _, r := range *x.X.Referrers() {
					if st, ok := r.(*ssa.Store); ok && st.Addr == x.X {
						walk(st.Val, d+1)
						n++
					}
				}
				if n > 0 {
					return
				}
			}
			out = append(out, v)
		default:
			out = append(out, v)
		}
	}
	walk(v, 0)
	return out
}

// identityPreserving: combinators that return one of their arguments unchanged.
var identityPreserving = map[string]bool{"firstError": true}

// wrapsAnError reports whether call takes, as an argument, an error produced by
// another call (directly, or inside the variadic argument list).
func wrapsAnError(call *ssa.Call) (ssa.Value, bool) {
	for _, a := range call.Common().Args {
		var cands []ssa.Value
		if isErrorType(a.Type()) {
			cands = append(cands, a)
		} else {
			// variadic ...interface{}: the values stored into the backing array
			for _, l := range derivesFrom(a, func(v ssa.Value) bool {
				mi, ok := v.(*ssa.MakeInterface)
				return ok && isErrorType(mi.X.Type())
			}, 4) {
				cands = append(cands, l.(*ssa.MakeInterface).X)
			}
			for _, l := range derivesFrom(a, func(v ssa.Value) bool {
				_, isMI := v.(*ssa.MakeInterface)
				return !isMI && isErrorType(v.Type())
			}, 4) {
				cands = append(cands, l)
			}
		}
		for _, cnd := range cands {
			for _, leaf := range errLeaves(cnd) {
				if lc, ok := leaf.(*ssa.Call); ok && !isFreshErrorCall(lc) {
					return leaf, true
				}
			}
		}
	}
	return nil, false
}

// ErrIdentity checks the rule for one consumer function. predicates are the
// qualified names of identity-comparing helper predicates (their argument is
// compared with == inside). It returns the number of producer trees examined.
func (c *Ctx) ErrIdentity(rule string, consumer *ssa.Function, predicates ...string) int {
	predSet := map[string]bool{}
	for _, p := range predicates {
		predSet[expandAlias(p)] = true
	}
	// 1. values compared by identity
	var compared []ssa.Value
	for _, b := range consumer.Blocks {
		for _, in := range b.Instrs {
			switch x := in.(type) {
			case *ssa.Call:
				if cal := x.Common().StaticCallee(); cal != nil && predSet[QName(cal)] {
					for _, a := range x.Common().Args {
						if isErrorType(a.Type()) {
							compared = append(compared, a)
						}
					}
				}
			case *ssa.BinOp:
				if (x.Op == token.EQL || x.Op == token.NEQ) && isErrorType(x.X.Type()) {
					if isSentinelLoad(x.Y) {
						compared = append(compared, x.X)
					} else if isSentinelLoad(x.X) {
						compared = append(compared, x.Y)
					}
				}
			}
		}
	}
	// 2. producers
	prodSeen := map[*ssa.Function]bool{}
	var producers []*ssa.Function
	for _, v := range compared {
		for _, leaf := range errLeaves(v) {
			if call, ok := leaf.(*ssa.Call); ok {
				if cal := call.Common().StaticCallee(); cal != nil && inModule(cal) && !prodSeen[cal] {
					prodSeen[cal] = true
					producers = append(producers, cal)
				}
			}
		}
	}
	sort.Slice(producers, func(i, j int) bool { return QName(producers[i]) < QName(producers[j]) })
	// 3. the producers' call trees
	type item struct {
		fn *ssa.Function
		d  int
	}
	visited := map[*ssa.Function]bool{}
	stickySeen := map[interface{}]bool{}
	var queue []item
	for _, p := range producers {
		queue = append(queue, item{p, 0})
	}
	nFuncs := 0
	for len(queue) > 0 {
		it := queue[0]
		queue = queue[1:]
		fn := it.fn
		if visited[fn] || len(fn.Blocks) == 0 {
			continue
		}
		visited[fn] = true
		nFuncs++
		res := fn.Signature.Results()
		if res.Len() == 0 || !isErrorType(res.At(res.Len()-1).Type()) {
			continue
		}
		wraps := map[*ssa.Call]ssa.Value{}
		nRet := 0
		for _, b := range fn.Blocks {
			if b == fn.Recover {
				continue
			}
			ret, ok := b.Instrs[len(b.Instrs)-1].(*ssa.Return)
			if !ok || len(ret.Results) == 0 {
				continue
			}
			nRet++
			leaves := errLeaves(ret.Results[len(ret.Results)-1])
			// a sticky error field: whatever any function of the module stores into it
			for i := 0; i < len(leaves) && i < 64; i++ {
				f := fieldOfValue(leaves[i])
				if _, isLoad := leaves[i].(*ssa.UnOp); !isLoad || f == nil || stickySeen[f] {
					continue
				}
				stickySeen[f] = true
				for _, g := range c.P.AllFuncs {
					for _, st := range instrs(g, StoreTo(f)) {
						leaves = append(leaves, errLeaves(st.(*ssa.Store).Val)...)
					}
				}
			}
			for _, leaf := range leaves {
				call, ok := leaf.(*ssa.Call)
				if !ok {
					continue
				}
				cal := call.Common().StaticCallee()
				if cal != nil && identityPreserving[cal.Name()] {
					continue
				}
				if src, isWrap := wrapsAnError(call); isWrap {
					wraps[call] = src
					continue
				}
				if cal != nil && inModule(cal) && it.d < 4 {
					queue = append(queue, item{cal, it.d + 1})
				}
			}
		}
		var calls []*ssa.Call
		for cl := range wraps {
			calls = append(calls, cl)
		}
		sort.Slice(calls, func(i, j int) bool { return calls[i].Pos() < calls[j].Pos() })
		for _, cl := range calls {
			c.Ob(rule, fn, fmt.Sprintf("%s hands errors on with their identity (consumer %s compares with ==)", shortFn(fn), shortFn(consumer)), c.P.Pos(cl.Pos()), false,
				fmt.Sprintf("the returned error is %s applied to the error from %s: the wrapper defeats the == comparison in %s, so a sentinel (torn tail / EOF) produced below is no longer recognised there",
					describeCall(cl), describeValue(wraps[cl]), shortFn(consumer)))
		}
		if len(calls) == 0 && nRet > 0 {
			c.Ob(rule, fn, fmt.Sprintf("%s hands errors on with their identity (consumer %s compares with ==)", shortFn(fn), shortFn(consumer)), c.P.Pos(fn.Pos()), true, "")
		}
	}
	if len(compared) == 0 {
		return -1
	}
	return nFuncs
}

// ErrIdentityIn runs ErrIdentity on fn and on its closures; the rule is unresolved when
// none of them compares an error by identity, or when fewer than min functions were examined.
func (c *Ctx) ErrIdentityIn(rule string, fn *ssa.Function, min int, predicates ...string) {
	total, found := 0, false
	var visit func(f *ssa.Function)
	visit = func(f *ssa.Function) {
		if n := c.ErrIdentity(rule, f, predicates...); n >= 0 {
			found = true
			total += n
		}
		for _, a := range f.AnonFuncs {
			visit(a)
		}
	}
	visit(fn)
	if !found {
		c.Unresolved(rule, "no identity comparison of an error found in "+QName(fn))
	} else if total < min {
		c.Unresolved(rule, fmt.Sprintf("only %d functions found below the identity-compared errors of %s (at least %d expected)", total, QName(fn), min))
	}
}

func shortFn(fn *ssa.Function) string {
	return strings.TrimPrefix(QName(fn), modPath+"/")
}

func describeCall(call *ssa.Call) string {
	if cal := call.Common().StaticCallee(); cal != nil {
		if cal.Pkg != nil {
			return cal.Pkg.Pkg.Name() + "." + cal.Name()
		}
		return cal.Name()
	}
	return "a call"
}

func describeValue(v ssa.Value) string {
	if call, ok := v.(*ssa.Call); ok {
		return describeCall(call)
	}
	return pathOf(v)
}

func inModule(fn *ssa.Function) bool {
	if o := fn.Origin(); o != nil {
		fn = o
	}
	return fn.Pkg != nil && strings.HasPrefix(fn.Pkg.Pkg.Path(), modPath)
}

// isSentinelLoad: a load of a package-level error variable (io.EOF, record.ErrInvalidChunk, …).
func isSentinelLoad(v ssa.Value) bool {
	u, ok := v.(*ssa.UnOp)
	if !ok || u.Op != token.MUL {
		return false
	}
	_, isG := u.X.(*ssa.Global)
	return isG
}

// surveyErrIdentity applies ErrIdentity to every engine function that compares an error by
// identity with a sentinel; returns the number of consumers.
func surveyErrIdentity(c *Ctx, rule string, skip map[string]bool, predicates ...string) int {
	n := 0
	for _, fn := range c.P.AllFuncs {
		top := TopLevel(fn)
		if top.Pkg == nil || !enginePkg(top.Pkg.Pkg.Path()) || fn.Origin() != nil {
			continue
		}
		if skip[shortKey(QName(top))] {
			continue
		}
		if c.ErrIdentity(rule, fn, predicates...) >= 0 {
			n++
		}
	}
	return n
}

// isFreshErrorCall: a constructor of the errors / fmt packages that receives no error: the
// value cannot be (or carry) a sentinel, so marking or wrapping it loses nothing.
func isFreshErrorCall(call *ssa.Call) bool {
	cal := call.Common().StaticCallee()
	if cal == nil {
		return false
	}
	if o := cal.Origin(); o != nil {
		cal = o
	}
	if cal.Pkg == nil {
		return false
	}
	path := cal.Pkg.Pkg.Path()
	if path != "errors" && path != "fmt" && !strings.HasPrefix(path, "github.com/cockroachdb/errors") {
		return false
	}
	_, wraps := wrapsAnError(call)
	return !wraps
}
