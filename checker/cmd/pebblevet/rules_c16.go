package main

import (
	"fmt"
	"go/types"
	"sort"
	"strings"

	"golang.org/x/tools/go/ssa"
)

func init() {
	register("C16", []string{".", "./internal/manifest"}, runC16)
	propTechnique["C16"] = "SSA must-facts dataflow over the compaction pickers (every set of input tables passes the not-already-compacting vetting before a pick is returned), value-keyed guard facts, loop-examines-all on the vetting function"
	propExplain["C16"] = "Decides one clause of C16 — 'a pick never includes a file that is already compacting' — as far as it is visible in the shape of the pickers; sublevel construction, its incremental/from-scratch agreement and the level invariant after an L0 compaction are value-level and are not decided. (P1) every function of package pebble that fills a picked compaction's input tables (a store to compactionLevel.files, or a call of a constructor that does so) returns that compaction only through the true edge of setupInputs on the same path; (P2) setupInputs returns true only after canCompactTables accepted the input level's tables and, if it replaced the output level's tables, those too; maybeGrow replaces a level's tables only with a slice canCompactTables accepted; the L0 organizer's rectangle extension adds a table to a candidate only on the not-compacting edge of that same table; (P3) canCompactTables rejects the slice for any element whose IsCompacting() is true and examines every element. (P4) in the L0 organizer's candidate builders every addFile(f) is on the not-compacting edge of that same f, or f is the seed parameter and every caller vetted it that way. Together: no table marked compacting survives into a returned pick on these paths. Not covered: the multi-level heuristic's extra level (vetted by the same setupInputs, reached through an interface), and picks that never go through pickedTableCompaction (blob-file rewrites)."
}

func runC16(c *Ctx) {
	filesF := c.Field("C16.P1", "p.compactionLevel.files")
	setupFn := c.Fn("C16.P1", "p.(*pickedTableCompaction).setupInputs")
	canFn := c.Fn("C16.P3", "p.canCompactTables")
	if filesF == nil || setupFn == nil || canFn == nil {
		return
	}
	storeFiles := StoreTo(filesF)
	callOf := func(target *ssa.Function) M {
		return Pred("call "+target.Name(), func(in ssa.Instruction) bool {
			cc := getCallCommon(in)
			return cc != nil && cc.StaticCallee() == target
		})
	}
	isCallOf := func(v ssa.Value, target *ssa.Function) bool {
		call, ok := v.(*ssa.Call)
		return ok && call.Common().StaticCallee() == target
	}
	root := pkgAlias["p"]

	// the setup family: setupInputs and the helpers below it that replace a level's tables
	family := map[*ssa.Function]bool{setupFn: true}
	var grow func(f *ssa.Function, d int)
	grow = func(f *ssa.Function, d int) {
		for _, b := range f.Blocks {
			for _, in := range b.Instrs {
				call, ok := in.(*ssa.Call)
				if !ok {
					continue
				}
				cal := call.Common().StaticCallee()
				if cal == nil || family[cal] || cal.Pkg == nil || cal.Pkg.Pkg.Path() != root || len(cal.Blocks) == 0 {
					continue
				}
				if len(instrs(cal, storeFiles)) > 0 {
					family[cal] = true
				}
				if d < 2 {
					grow(cal, d+1)
				}
			}
		}
	}
	grow(setupFn, 1)

	// ---- C16.P1 ----
	var subjects []*ssa.Function
	ctors := map[*ssa.Function]bool{}
	all := pkgFuncs(c, root)
	for _, fn := range all {
		if family[fn] || fn.Parent() != nil {
			continue
		}
		if len(instrs(fn, storeFiles)) > 0 {
			if len(instrs(fn, callOf(setupFn))) == 0 {
				ctors[fn] = true
			} else {
				subjects = append(subjects, fn)
			}
		}
	}
	for round := 0; round < 2; round++ {
		for _, fn := range all {
			if family[fn] || ctors[fn] || fn.Parent() != nil {
				continue
			}
			usesCtor := false
			for ct := range ctors {
				if len(instrs(fn, callOf(ct))) > 0 {
					usesCtor = true
				}
			}
			if !usesCtor {
				continue
			}
			already := false
			for _, s := range subjects {
				if s == fn {
					already = true
				}
			}
			if already {
				continue
			}
			if len(instrs(fn, callOf(setupFn))) == 0 {
				ctors[fn] = true
			} else {
				subjects = append(subjects, fn)
			}
		}
	}
	sort.Slice(subjects, func(i, j int) bool { return QName(subjects[i]) < QName(subjects[j]) })
	nP1 := 0
	for _, fn := range subjects {
		fill := storeFiles
		for ct := range ctors {
			fill = Or(fill, callOf(ct))
		}
		fl := NewFlow(c.P).
			Edge("inputs-vetted", func(v ssa.Value) (bool, bool) { return isCallOf(v, setupFn), false }).
			KillAfter("inputs-vetted", fill)
		fl.MaxDepth = 0
		res := fl.Analyze(fn, emptyState())
		c.noteFlow(fl)
		nonNilPick := Pred("return of a picked compaction", func(in ssa.Instruction) bool {
			ret, ok := in.(*ssa.Return)
			if !ok || len(ret.Results) == 0 {
				return false
			}
			r0 := ret.Results[0]
			if _, isPtr := r0.Type().Underlying().(*types.Pointer); !isPtr {
				return false
			}
			if k, isK := stripConv(r0).(*ssa.Const); isK && k.Value == nil {
				return false
			}
			return true
		})
		nP1 += c.Require("C16.P1", res, nonNilPick, "a compaction whose input tables were filled here is returned only after setupInputs accepted them", []string{"inputs-vetted"})
	}
	if len(subjects) < 6 || nP1 < 6 {
		c.Unresolved("C16.P1", fmt.Sprintf("only %d pick functions / %d returns of a picked compaction found (expected at least 6)", len(subjects), nP1))
	}

	// ---- C16.P2: what setupInputs's `true` stands for ----
	isTrueConst := func(v ssa.Value) bool {
		k, ok := v.(*ssa.Const)
		return ok && k.Value != nil && k.Value.String() == "true"
	}
	retTrue := Pred("return true", func(in ssa.Instruction) bool {
		ret, ok := in.(*ssa.Return)
		return ok && len(ret.Results) == 1 && isTrueConst(ret.Results[0])
	})
	canOn := func(argOK func(ssa.Value) bool) CondM {
		return func(v ssa.Value) (bool, bool) {
			call, ok := v.(*ssa.Call)
			if !ok || call.Common().StaticCallee() != canFn || len(call.Common().Args) == 0 {
				return false, false
			}
			return argOK(call.Common().Args[0]), false
		}
	}
	loadOfFilesVia := func(v ssa.Value, pathSuffix string) bool {
		u, ok := v.(*ssa.UnOp)
		if !ok {
			return false
		}
		fa, ok := u.X.(*ssa.FieldAddr)
		if !ok || fieldVar(fa.X.Type(), fa.Field) != filesF {
			return false
		}
		return pathHasSuffix(pathOf(fa.X), pathSuffix)
	}
	{
		inputParam := ""
		for i, p := range setupFn.Params {
			if pt, ok := p.Type().(*types.Pointer); ok && i > 0 {
				if nt, ok := pt.Elem().(*types.Named); ok && nt.Obj().Name() == "compactionLevel" {
					inputParam = p.Name()
				}
			}
		}
		if inputParam == "" {
			c.Unresolved("C16.P2", "setupInputs has no *compactionLevel parameter")
		} else {
			storeOut := And(storeFiles, Pred("via recv.outputLevel", func(in ssa.Instruction) bool {
				fa := in.(*ssa.Store).Addr.(*ssa.FieldAddr)
				return pathHasSuffix(pathOf(fa.X), "recv.outputLevel")
			}))
			fl := NewFlow(c.P).
				Edge("input-tables-vetted", canOn(func(a ssa.Value) bool { return loadOfFilesVia(a, inputParam) })).
				KillAfter("output-untouched", storeOut).
				KillAfter("output-vetted", storeOut).
				KillAfter("output-ok", storeOut).
				Edge("output-vetted", canOn(func(a ssa.Value) bool { return loadOfFilesVia(a, "recv.outputLevel") })).
				Derive("output-ok", []string{"output-untouched"}, []string{"output-vetted"})
			fl.MaxDepth = 0
			entry := emptyState()
			entry.add("output-untouched")
			entry.add("output-ok")
			res := fl.Analyze(setupFn, entry)
			c.noteFlow(fl)
			if n := c.Require("C16.P2", res, retTrue, "setupInputs accepts only after canCompactTables accepted the input tables and any output tables it selected", []string{"input-tables-vetted", "output-ok"}); n == 0 {
				c.Unresolved("C16.P2", "no `return true` in setupInputs")
			}
			// any other store to .files inside setupInputs itself must be the output level's
			for _, in := range instrs(setupFn, storeFiles) {
				if !storeOut.F(in) {
					c.Ob("C16.P2", setupFn, "tables replaced inside setupInputs are re-vetted", c.P.Pos(in.Pos()), false, "setupInputs replaces a level's tables other than the output level's; no vetting rule covers that store")
				}
			}
		}
	}
	// helpers of the family that replace a level's tables
	var fam []*ssa.Function
	for f := range family {
		if f != setupFn {
			fam = append(fam, f)
		}
	}
	sort.Slice(fam, func(i, j int) bool { return QName(fam[i]) < QName(fam[j]) })
	extendL0 := c.Fn("C16.P2", "man.(*l0Sublevels).ExtendL0ForBaseCompactionTo")
	isExtendCall := func(v ssa.Value) bool {
		call, ok := v.(*ssa.Call)
		if !ok || extendL0 == nil {
			return false
		}
		if call.Common().StaticCallee() == extendL0 {
			return true
		}
		// through the promoted-method wrapper of a struct embedding l0Sublevels
		ci := infoOfCommon(call.Common())
		return ci.Short == extendL0.Name() && strings.HasPrefix(ci.QName, pkgAlias["man"]+".")
	}
	sameSlice := func(a, b ssa.Value) bool {
		if a == b {
			return true
		}
		ua, ok1 := a.(*ssa.UnOp)
		ub, ok2 := b.(*ssa.UnOp)
		if ok1 && ok2 && ua.X == ub.X {
			// two loads of one local: the same slice if nothing is stored into it in between
			if al, isAlloc := ua.X.(*ssa.Alloc); isAlloc {
				stores := 0
				for _, ref := range *al.Referrers() {
					if st, ok := ref.(*ssa.Store); ok && st.Addr == ssa.Value(al) {
						stores++
					}
				}
				return stores <= 1
			}
		}
		return false
	}
	nFam := 0
	for _, f := range fam {
		for _, in := range instrs(f, storeFiles) {
			st := in.(*ssa.Store)
			nFam++
			// (a) the stored slice itself was accepted by canCompactTables on this path
			fl := NewFlow(c.P).Edge("stored-slice-vetted", canOn(func(a ssa.Value) bool { return sameSlice(a, st.Val) }))
			if extendL0 != nil {
				// (b) or it was rebuilt from the L0 candidate after the organizer extended it (the
				// organizer vets what it adds: see extendCandidateToRectangle below)
				fl.Edge("stored-slice-vetted", func(v ssa.Value) (bool, bool) { return isExtendCall(v), false })
			}
			fl.MaxDepth = 0
			res := fl.Analyze(f, emptyState())
			c.noteFlow(fl)
			only := Pred("this store", func(i2 ssa.Instruction) bool { return i2 == in })
			c.Require("C16.P2", res, only, "a level's tables are replaced only by a slice canCompactTables accepted (or by the organizer's vetted extension)", []string{"stored-slice-vetted"})
		}
	}
	if nFam == 0 {
		c.Unresolved("C16.P2", "no helper below setupInputs replaces a level's tables (maybeGrow / maybeGrowL0ForBase expected)")
	}
	// the organizer's extension adds a table only on that table's not-compacting edge
	if fn := c.Fn("C16.P2", "man.(*l0Sublevels).extendCandidateToRectangle"); fn != nil {
		add := Pred("candidate.addFile", func(in ssa.Instruction) bool {
			cc := getCallCommon(in)
			return cc != nil && infoOfCommon(cc).Short == "addFile"
		})
		n := 0
		for _, in := range instrs(fn, add) {
			cc := getCallCommon(in)
			if len(cc.Args) < 2 {
				continue
			}
			f := cc.Args[1]
			fl := NewFlow(c.P).Edge("table-not-compacting", func(v ssa.Value) (bool, bool) {
				call, ok := v.(*ssa.Call)
				if !ok || infoOfCommon(call.Common()).Short != "IsCompacting" || len(call.Common().Args) == 0 {
					return false, false
				}
				return call.Common().Args[0] == f, true
			})
			fl.MaxDepth = 0
			res := fl.Analyze(fn, emptyState())
			c.noteFlow(fl)
			only := Pred("this addFile", func(i2 ssa.Instruction) bool { return i2 == in })
			n += c.Require("C16.P2", res, only, "the rectangle extension adds a table only after testing that same table is not compacting", []string{"table-not-compacting"})
		}
		if n == 0 {
			c.Unresolved("C16.P2", "no addFile call in extendCandidateToRectangle")
		}
	}

	// ---- C16.P4: the L0 candidate builders themselves (added after seed C16-a) ----
	// Every addFile(f, …) in internal/manifest's L0 pickers is reached only on the not-compacting
	// edge of that same f, or f is the function's seed parameter and every caller passes a table
	// it vetted in the same way (directly, or as the result of a function literal all of whose
	// non-nil returns are on that edge).
	{
		addFile := Pred("addFile", func(in ssa.Instruction) bool {
			cc := getCallCommon(in)
			return cc != nil && infoOfCommon(cc).Short == "addFile" && len(cc.Args) >= 2
		})
		notCompactingEdge := func(f ssa.Value) CondM {
			return func(v ssa.Value) (bool, bool) {
				call, ok := v.(*ssa.Call)
				if !ok || infoOfCommon(call.Common()).Short != "IsCompacting" || len(call.Common().Args) == 0 {
					return false, false
				}
				return call.Common().Args[0] == f, true
			}
		}
		vettedAt := func(fn *ssa.Function, at ssa.Instruction, f ssa.Value) bool {
			fl := NewFlow(c.P).Edge("table-not-compacting", notCompactingEdge(f))
			fl.MaxDepth = 0
			res := fl.Analyze(fn, emptyState())
			c.noteFlow(fl)
			return res.stateBefore(at).has("table-not-compacting")
		}
		// a function literal whose every non-nil return value is vetted
		closureReturnsVetted := func(clo *ssa.Function) bool {
			n, good := 0, true
			for _, b := range clo.Blocks {
				for _, in := range b.Instrs {
					ret, ok := in.(*ssa.Return)
					if !ok || len(ret.Results) != 1 {
						continue
					}
					if k, isK := ret.Results[0].(*ssa.Const); isK && k.Value == nil {
						continue
					}
					n++
					if !vettedAt(clo, ret, ret.Results[0]) {
						good = false
					}
				}
			}
			return n > 0 && good
		}
		var argVetted func(fn *ssa.Function, call *ssa.Call, a ssa.Value) bool
		argVetted = func(fn *ssa.Function, call *ssa.Call, a ssa.Value) bool {
			if vettedAt(fn, call, a) {
				return true
			}
			if c2, ok := a.(*ssa.Call); ok {
				if mc, ok := c2.Common().Value.(*ssa.MakeClosure); ok {
					return closureReturnsVetted(mc.Fn.(*ssa.Function))
				}
			}
			return false
		}
		manPath := pkgAlias["man"]
		nP4 := 0
		for _, fn := range pkgFuncs(c, manPath) {
			recvOK := fn.Signature.Recv() != nil && strings.Contains(fn.Signature.Recv().Type().String(), "l0Sublevels")
			if !recvOK || fn.Parent() != nil {
				continue
			}
			for _, in := range instrs(fn, addFile) {
				f := getCallCommon(in).Args[1]
				nP4++
				ok := vettedAt(fn, in, f)
				why := ""
				if !ok {
					if prm, isP := f.(*ssa.Parameter); isP {
						// the seed parameter: every caller must pass a vetted table
						idx := -1
						for i, fp := range fn.Params {
							if fp == prm {
								idx = i
							}
						}
						callers, allOK := 0, true
						for _, g := range pkgFuncs(c, manPath) {
							for _, b := range g.Blocks {
								for _, gi := range b.Instrs {
									call, isCall := gi.(*ssa.Call)
									if !isCall || call.Common().StaticCallee() != fn || idx < 0 || idx >= len(call.Common().Args) {
										continue
									}
									callers++
									if !argVetted(g, call, call.Common().Args[idx]) {
										allOK = false
										why = "the seed table passed by " + QName(g) + " is not on the not-compacting edge of that table"
									}
								}
							}
						}
						ok = callers > 0 && allOK
						if callers == 0 {
							why = "no caller found for the seed parameter"
						}
					} else {
						why = "this table is added to the candidate without its IsCompacting() having been tested on this path"
					}
				}
				c.Ob("C16.P4", fn, "a table joins an L0 candidate only after that table was found not compacting", c.P.Pos(in.Pos()), ok, why)
			}
		}
		if nP4 < 5 {
			c.Unresolved("C16.P4", fmt.Sprintf("only %d addFile sites found in the L0 pickers (expected at least 5)", nP4))
		}
	}

	// ---- C16.P3: canCompactTables ----
	isComp := Pred("IsCompacting()", func(in ssa.Instruction) bool {
		cc := getCallCommon(in)
		return cc != nil && infoOfCommon(cc).Short == "IsCompacting" && strings.HasSuffix(infoOfCommon(cc).QName, "TableMetadata).IsCompacting")
	})
	var body *ssa.Function
	for _, a := range canFn.AnonFuncs {
		if len(instrs(a, isComp)) > 0 {
			body = a
		}
	}
	if body != nil {
		// range-over-func: the loop body is the yield closure; returning true continues the loop
		elem := body.Params[0]
		fl := NewFlow(c.P).
			Edge("elem-not-compacting", func(v ssa.Value) (bool, bool) {
				call, ok := v.(*ssa.Call)
				if !ok || !isComp.F(call) {
					return false, false
				}
				return call.Common().Args[0] == ssa.Value(elem), true
			}).
			Edge("elem-compacting", func(v ssa.Value) (bool, bool) {
				call, ok := v.(*ssa.Call)
				if !ok || !isComp.F(call) {
					return false, false
				}
				return call.Common().Args[0] == ssa.Value(elem), false
			}).
			After("result-false", Pred("result = false", func(in ssa.Instruction) bool {
				st, ok := in.(*ssa.Store)
				if !ok {
					return false
				}
				k, isK := st.Val.(*ssa.Const)
				_, isFree := st.Addr.(*ssa.FreeVar)
				return isK && isFree && k.Value != nil && k.Value.String() == "false"
			}))
		fl.MaxDepth = 0
		res := fl.Analyze(body, emptyState())
		c.noteFlow(fl)
		n := c.Require("C16.P3", res, retTrue, "the scan moves on to the next table only past the not-compacting edge of this one", []string{"elem-not-compacting"})
		stops := 0
		res.At(AnyReturn, func(in ssa.Instruction, s State) {
			if !s.Reachable() || !s.has("elem-compacting") {
				return
			}
			stops++
			ret := in.(*ssa.Return)
			ok := s.has("result-false") && len(ret.Results) == 1 && !isTrueConst(ret.Results[0])
			c.Ob("C16.P3", body, "a compacting table makes canCompactTables answer false", c.P.Pos(in.Pos()), ok,
				map[bool]string{true: "", false: "on the IsCompacting()==true edge the scan continues or the result is not set to false"}[ok])
		})
		if n == 0 || stops == 0 {
			c.Unresolved("C16.P3", "loop body of canCompactTables: no continue-return or no stop on a compacting table found")
		}
	} else if len(instrs(canFn, isComp)) > 0 {
		if n := c.LoopExaminesAll("C16.P3", canFn, isComp, "every table of the slice is asked IsCompacting()"); n == 0 {
			c.Unresolved("C16.P3", "IsCompacting() in canCompactTables is not inside a loop")
		}
		fl := NewFlow(c.P).Edge("elem-compacting", func(v ssa.Value) (bool, bool) {
			call, ok := v.(*ssa.Call)
			return ok && isComp.F(call), false
		})
		fl.MaxDepth = 0
		res := fl.Analyze(canFn, emptyState())
		c.noteFlow(fl)
		stops := 0
		res.At(AnyReturn, func(in ssa.Instruction, s State) {
			if !s.Reachable() || !s.has("elem-compacting") {
				return
			}
			stops++
			ret := in.(*ssa.Return)
			ok := len(ret.Results) == 1 && !isTrueConst(ret.Results[0])
			if k, isK := ret.Results[0].(*ssa.Const); !isK || k.Value == nil || k.Value.String() != "false" {
				ok = false
			}
			c.Ob("C16.P3", canFn, "a compacting table makes canCompactTables answer false", c.P.Pos(in.Pos()), ok, map[bool]string{true: "", false: "the IsCompacting()==true edge does not return false"}[ok])
		})
		if stops == 0 {
			c.Unresolved("C16.P3", "no return on the IsCompacting()==true edge of canCompactTables")
		}
	} else {
		c.Ob("C16.P3", canFn, "canCompactTables asks IsCompacting()", c.P.Pos(canFn.Pos()), false, "canCompactTables no longer tests IsCompacting() on the tables it is given")
	}
}
