package main

import (
	"fmt"
	"go/ast"
	"go/token"
	"go/types"
	"sort"
	"strings"

	"golang.org/x/tools/go/packages"
	"golang.org/x/tools/go/ssa"
)

func init() {
	register("C23", []string{"./internal/manifest"}, runC23)
	propExplain["C23"] = "Decides codec-agreement clauses of C23 for manifest.VersionEdit: every record tag and custom tag that Encode can write has a case in Decode; every field of VersionEdit that Encode reads is assigned by Decode and vice versa; the custom-field section that Decode reads for every tagNewFile4/tagNewFile5 entry is terminated on every path on which Encode selects one of those tags; and no allocation in the decoder is sized by a length read from the input without a bound (decoding arbitrary bytes must not panic). Does not decide Accumulate/Apply equivalence or value-level equality of the round trip."
}

// constsInBlockOf returns the constants declared in the same const(...) block
// as the named constant.
func constsInBlockOf(pkg *packages.Package, anchor string) map[string]int64 {
	out := map[string]int64{}
	for _, f := range pkg.Syntax {
		for _, d := range f.Decls {
			gd, ok := d.(*ast.GenDecl)
			if !ok || gd.Tok != token.CONST {
				continue
			}
			has := false
			for _, sp := range gd.Specs {
				for _, id := range sp.(*ast.ValueSpec).Names {
					if id.Name == anchor {
						has = true
					}
				}
			}
			if !has {
				continue
			}
			for _, sp := range gd.Specs {
				for _, id := range sp.(*ast.ValueSpec).Names {
					if k, ok := pkg.TypesInfo.Defs[id].(*types.Const); ok {
						if v, ok := constValOfConst(k); ok {
							out[id.Name] = v
						}
					}
				}
			}
		}
	}
	return out
}

func constValOfConst(k *types.Const) (int64, bool) {
	tv := k.Val()
	if tv == nil {
		return 0, false
	}
	if i, ok := constantInt64(tv); ok {
		return i, true
	}
	return 0, false
}

// constArgIdents collects identifiers of constants from `names` that appear as
// the argument of calls to method `callee` inside node.
func constArgIdents(pkg *packages.Package, node ast.Node, callee string, names map[string]int64) map[string]bool {
	out := map[string]bool{}
	ast.Inspect(node, func(n ast.Node) bool {
		call, ok := n.(*ast.CallExpr)
		if !ok {
			return true
		}
		sel, ok := call.Fun.(*ast.SelectorExpr)
		if !ok || sel.Sel.Name != callee || len(call.Args) == 0 {
			return true
		}
		ast.Inspect(call.Args[0], func(m ast.Node) bool {
			if id, ok := m.(*ast.Ident); ok {
				if _, isTag := names[id.Name]; isTag {
					if _, isConst := pkg.TypesInfo.Uses[id].(*types.Const); isConst {
						out[id.Name] = true
					}
				}
			}
			return true
		})
		return true
	})
	return out
}

// assignedConstIdents: identifiers from names that appear on the RHS of an
// assignment (tag = tagNewFile5).
func assignedConstIdents(pkg *packages.Package, node ast.Node, names map[string]int64) map[string]bool {
	out := map[string]bool{}
	ast.Inspect(node, func(n ast.Node) bool {
		as, ok := n.(*ast.AssignStmt)
		if !ok {
			return true
		}
		for _, r := range as.Rhs {
			if id, ok := r.(*ast.Ident); ok {
				if _, isTag := names[id.Name]; isTag {
					if _, isConst := pkg.TypesInfo.Uses[id].(*types.Const); isConst {
						out[id.Name] = true
					}
				}
			}
		}
		return true
	})
	return out
}

// caseConstIdents: identifiers from names that appear in case clauses inside node.
func caseConstIdents(pkg *packages.Package, node ast.Node, names map[string]int64) map[string]bool {
	out := map[string]bool{}
	ast.Inspect(node, func(n ast.Node) bool {
		cc, ok := n.(*ast.CaseClause)
		if !ok {
			return true
		}
		for _, e := range cc.List {
			if id, ok := e.(*ast.Ident); ok {
				if _, isTag := names[id.Name]; isTag {
					out[id.Name] = true
				}
			}
		}
		return true
	})
	// also `if customTag == customTagTerminate`
	ast.Inspect(node, func(n ast.Node) bool {
		be, ok := n.(*ast.BinaryExpr)
		if !ok || be.Op != token.EQL {
			return true
		}
		for _, e := range []ast.Expr{be.X, be.Y} {
			if id, ok := e.(*ast.Ident); ok {
				if _, isTag := names[id.Name]; isTag {
					out[id.Name] = true
				}
			}
		}
		return true
	})
	return out
}

// fieldsTouched returns, for the receiver-typed struct, which of its fields are
// read and which are written inside node (any depth of selector, first-level
// field only).
func fieldsTouched(pkg *packages.Package, node ast.Node, st *types.Struct) (read, written map[string]bool) {
	read, written = map[string]bool{}, map[string]bool{}
	isField := func(sel *ast.SelectorExpr) (string, bool) {
		s, ok := pkg.TypesInfo.Selections[sel]
		if !ok || s.Kind() != types.FieldVal {
			return "", false
		}
		v, ok := s.Obj().(*types.Var)
		if !ok {
			return "", false
		}
		for i := 0; i < st.NumFields(); i++ {
			if st.Field(i) == v {
				return v.Name(), true
			}
		}
		return "", false
	}
	var lhsRoots func(e ast.Expr) *ast.SelectorExpr
	lhsRoots = func(e ast.Expr) *ast.SelectorExpr {
		switch x := e.(type) {
		case *ast.SelectorExpr:
			if _, ok := isField(x); ok {
				return x
			}
			return lhsRoots(x.X)
		case *ast.IndexExpr:
			return lhsRoots(x.X)
		case *ast.StarExpr:
			return lhsRoots(x.X)
		case *ast.ParenExpr:
			return lhsRoots(x.X)
		}
		return nil
	}
	writtenSel := map[*ast.SelectorExpr]bool{}
	ast.Inspect(node, func(n ast.Node) bool {
		if as, ok := n.(*ast.AssignStmt); ok {
			for _, l := range as.Lhs {
				if sel := lhsRoots(l); sel != nil {
					name, _ := isField(sel)
					written[name] = true
					writtenSel[sel] = true
				}
			}
		}
		return true
	})
	ast.Inspect(node, func(n ast.Node) bool {
		if sel, ok := n.(*ast.SelectorExpr); ok {
			if name, ok := isField(sel); ok && !writtenSel[sel] {
				read[name] = true
			}
		}
		return true
	})
	return read, written
}

func sortedKeys(m map[string]bool) []string {
	var ks []string
	for k := range m {
		ks = append(ks, k)
	}
	sort.Strings(ks)
	return ks
}

func runC23(c *Ctx) {
	enc := c.Fn("C23.K1", "man.(*VersionEdit).Encode")
	dec := c.Fn("C23.K1", "man.(*VersionEdit).Decode")
	if enc == nil || dec == nil {
		return
	}
	encD, pkg := c.P.Decl(enc)
	decD, _ := c.P.Decl(dec)
	tags := constsInBlockOf(pkg, "tagComparator")
	custom := constsInBlockOf(pkg, "customTagTerminate")
	if len(tags) < 10 || len(custom) < 5 {
		c.Unresolved("C23.K1", "tag constant blocks not found")
		return
	}
	// K1: tags
	written := constArgIdents(pkg, encD, "writeUvarint", tags)
	for k := range assignedConstIdents(pkg, encD, tags) {
		written[k] = true
	}
	decoded := caseConstIdents(pkg, decD, tags)
	for _, t := range sortedKeys(written) {
		ok := decoded[t]
		c.Ob("C23.K1", dec, "Decode handles record tag "+t, c.P.Pos(decD.Pos()), ok,
			map[bool]string{true: "", false: "Encode writes " + t + " but Decode has no case for it"}[ok])
	}
	cw := constArgIdents(pkg, encD, "writeUvarint", custom)
	cd := caseConstIdents(pkg, decD, custom)
	for _, t := range sortedKeys(cw) {
		ok := cd[t]
		c.Ob("C23.K1", dec, "Decode handles custom tag "+t, c.P.Pos(decD.Pos()), ok,
			map[bool]string{true: "", false: "Encode writes " + t + " but Decode has no case for it"}[ok])
	}
	if len(written) < 10 || len(cw) < 5 {
		c.Unresolved("C23.K1", fmt.Sprintf("only %d record tags / %d custom tags found in Encode", len(written), len(cw)))
	}
	// K2: fields
	veT := c.P.TypeByPath("man.VersionEdit")
	if veT != nil {
		st := veT.Underlying().(*types.Struct)
		encRead, _ := fieldsTouched(pkg, encD, st)
		_, decWritten := fieldsTouched(pkg, decD, st)
		for i := 0; i < st.NumFields(); i++ {
			f := st.Field(i).Name()
			okE, okD := encRead[f], decWritten[f]
			c.Ob("C23.K2", enc, "VersionEdit."+f+" is encoded", c.P.Pos(encD.Pos()), okE,
				map[bool]string{true: "", false: "field " + f + " of VersionEdit is never read by Encode: it is silently dropped from the MANIFEST"}[okE])
			c.Ob("C23.K2", dec, "VersionEdit."+f+" is decoded", c.P.Pos(decD.Pos()), okD,
				map[bool]string{true: "", false: "field " + f + " of VersionEdit is never assigned by Decode"}[okD])
		}
	}
	// K4: the custom-field section is terminated whenever tagNewFile4/5 is selected
	{
		// SSA constants lose their identity (customTagTerminate == tagComparator == 1),
		// so calls are identified through the AST: Lparen position of
		// writeUvarint(<ident>) calls whose argument names a given constant.
		callsWith := func(pred func(name string) bool) map[token.Pos]bool {
			out := map[token.Pos]bool{}
			ast.Inspect(encD, func(n ast.Node) bool {
				call, ok := n.(*ast.CallExpr)
				if !ok || len(call.Args) != 1 {
					return true
				}
				sel, ok := call.Fun.(*ast.SelectorExpr)
				if !ok || sel.Sel.Name != "writeUvarint" {
					return true
				}
				if id, ok := call.Args[0].(*ast.Ident); ok {
					if _, isConst := pkg.TypesInfo.Uses[id].(*types.Const); isConst && pred(id.Name) {
						out[call.Lparen] = true
					}
				}
				return true
			})
			return out
		}
		atPos := func(desc string, set map[token.Pos]bool) M {
			return Pred(desc, func(in ssa.Instruction) bool {
				_, ok := in.(*ssa.Call)
				return ok && set[in.Pos()]
			})
		}
		termCalls := callsWith(func(n string) bool { return n == "customTagTerminate" })
		otherRecordCalls := callsWith(func(n string) bool { _, isTag := tags[n]; return isTag && !strings.HasPrefix(n, "tagNewFile") })
		if len(termCalls) == 0 {
			c.Ob("C23.K4", enc, "step writeUvarint(customTagTerminate) present", c.P.Pos(encD.Pos()), false, "Encode never writes customTagTerminate")
		}
		writeTagPhi := Pred("writeUvarint(tag)", func(in ssa.Instruction) bool {
			if !CallTo("man.(versionEditEncoder).writeUvarint", "man.(*versionEditEncoder).writeUvarint").F(in) {
				return false
			}
			args := in.(*ssa.Call).Common().Args
			phi, ok := args[len(args)-1].(*ssa.Phi)
			return ok && phi.Comment == "tag"
		})
		// Two obligations, one per selecting condition. Each is raised on the edge
		// where its condition is true and discharged either by the terminator or by
		// any edge on which the same condition is observed false (same entry, so the
		// tag was not selected through it). Keeping them apart is what makes the
		// correlated tests (`switch {case HasRangeKeys…}` … `if customFields || HasRangeKeys`)
		// analysable without path sensitivity.
		var tagPhi *ssa.Phi
		for _, tw := range instrs(enc, writeTagPhi) {
			args := tw.(*ssa.Call).Common().Args
			tagPhi = args[len(args)-1].(*ssa.Phi)
		}
		if tagPhi == nil {
			c.Unresolved("C23.K4", "the tag variable written by Encode for new-table entries was not found")
			return
		}
		sel5 := selectingCond(tagPhi, tags["tagNewFile5"])
		sel4 := selectingCond(tagPhi, tags["tagNewFile4"])
		if sel5 == nil || sel4 == nil {
			c.Unresolved("C23.K4", "could not derive the conditions under which Encode selects tagNewFile4 / tagNewFile5")
			return
		}
		term := atPos("writeUvarint(customTagTerminate)", termCalls)
		fl := NewFlow(c.P).
			KillEdge("tag5-section-terminated", sel5).
			Edge("tag5-section-terminated", NotCond(sel5)).
			After("tag5-section-terminated", term).
			KillEdge("tag4-section-terminated", sel4).
			Edge("tag4-section-terminated", NotCond(sel4)).
			After("tag4-section-terminated", term)
		entry := emptyState()
		entry.add("tag5-section-terminated")
		entry.add("tag4-section-terminated")
		res := fl.Analyze(enc, entry)
		c.noteFlow(fl)
		if CondCount(enc, sel5) < 1 || CondCount(enc, sel4) < 1 {
			c.Unresolved("C23.K4", "conditions selecting tagNewFile4/tagNewFile5 not found in Encode")
		}
		tagWrites := instrs(enc, writeTagPhi)
		if len(tagWrites) == 0 {
			c.Unresolved("C23.K4", "writeUvarint(tag) not found in Encode")
		}
		for _, tw := range tagWrites {
			c.RequireOnBackEdges("C23.K4", res, tw, "each new-table entry's custom-field section is terminated", []string{"tag4-section-terminated", "tag5-section-terminated"})
		}
		c.Require("C23.K4", res, atPos("writeUvarint(<other record tag>)", otherRecordCalls), "custom-field section terminated before the next record", []string{"tag4-section-terminated", "tag5-section-terminated"})
		c.RequireAtSuccess("C23.K4", res, "custom-field section terminated", []string{"tag4-section-terminated", "tag5-section-terminated"})
	}
	// B1: no allocation sized by an unbounded length read from the input
	nAlloc := 0
	for _, fn := range c.P.AllFuncs {
		if fn.Pkg == nil || fn.Pkg.Pkg.Path() != pkgAlias["man"] {
			continue
		}
		top := TopLevel(fn)
		tn := QName(top)
		if !(strings.Contains(tn, "versionEditDecoder") || tn == expandAlias("man.(*VersionEdit).Decode")) {
			continue
		}
		for _, b := range fn.Blocks {
			for _, in := range b.Instrs {
				ms, ok := in.(*ssa.MakeSlice)
				if !ok {
					continue
				}
				nAlloc++
				untrusted := func(v ssa.Value) bool { return isCallNamed(v, "readUvarint", "") || isCallNamed(v, "ReadUvarint", "") }
				bad := false
				for _, sz := range []ssa.Value{ms.Len, ms.Cap} {
					if sz == nil {
						continue
					}
					// min(n, K) bounds the size
					leaves := derivesFrom(sz, untrusted, 4)
					if len(leaves) > 0 && !viaMin(sz) && !comparedBefore(in, leaves) {
						bad = true
					}
				}
				c.Ob("C23.B1", fn, "allocation is not sized by an unchecked length from the input", c.P.Pos(in.Pos()), !bad,
					map[bool]string{true: "", false: "make(...) is sized directly by a value returned from readUvarint with no bound: a corrupt length panics (makeslice: len out of range) or exhausts memory"}[!bad])
			}
		}
	}
	if nAlloc == 0 {
		c.Note("C23.B1: the decoder performs no make() at all")
		c.Ob("C23.B1", dec, "allocation is not sized by an unchecked length from the input", c.P.Pos(decD.Pos()), true, "")
	}
}

// viaMin: the value is the result of the min builtin (bounded by its other operand).
func viaMin(v ssa.Value) bool {
	v = stripConv(v)
	if call, ok := v.(*ssa.Call); ok {
		if b, ok := call.Common().Value.(*ssa.Builtin); ok && b.Name() == "min" {
			return true
		}
	}
	return false
}

// selectingCond derives, from the code, the branch condition under which the
// phi takes the constant value val: the phi edge carrying val comes from a
// block that is entered through exactly one If edge; the returned CondM matches
// that condition value (by SSA identity) with the right polarity.
func selectingCond(phi *ssa.Phi, val int64) CondM {
	for i, e := range phi.Edges {
		k, ok := constInt(e)
		if !ok || k != val {
			continue
		}
		p := phi.Block().Preds[i]
		// walk up through empty single-predecessor blocks to the deciding If
		for hops := 0; hops < 3 && p != nil; hops++ {
			if len(p.Preds) != 1 {
				break
			}
			q := p.Preds[0]
			ifi, ok := q.Instrs[len(q.Instrs)-1].(*ssa.If)
			if !ok {
				p = q
				continue
			}
			cond := ifi.Cond
			neg := q.Succs[0] != p // the fact holds on the FALSE outcome
			for j := 0; j < 4; j++ {
				if u, ok := cond.(*ssa.UnOp); ok && u.Op == token.NOT {
					cond = u.X
					neg = !neg
					continue
				}
				break
			}
			target := cond
			tpath := pathOf(target)
			return func(v ssa.Value) (bool, bool) {
				if v == target {
					return true, neg
				}
				// a re-load of the same field is the same condition (x.Meta.HasRangeKeys)
				if _, isLoad := target.(*ssa.UnOp); isLoad {
					if _, isLoad2 := v.(*ssa.UnOp); isLoad2 && pathOf(v) == tpath && tpath != "" {
						return true, neg
					}
				}
				return false, false
			}
		}
	}
	return nil
}

// comparedBefore: some block dominating `in` ends in a comparison that involves
// a value derived from one of the leaves (a bound check on the decoded length).
func comparedBefore(in ssa.Instruction, leaves []ssa.Value) bool {
	isLeaf := func(v ssa.Value) bool {
		for _, l := range leaves {
			if v == l {
				return true
			}
		}
		return false
	}
	for b := in.Block().Idom(); b != nil; b = b.Idom() {
		if len(b.Instrs) == 0 {
			continue
		}
		ifi, ok := b.Instrs[len(b.Instrs)-1].(*ssa.If)
		if !ok {
			continue
		}
		bo, ok := ifi.Cond.(*ssa.BinOp)
		if !ok {
			continue
		}
		switch bo.Op {
		case token.GTR, token.GEQ, token.LSS, token.LEQ:
			if len(derivesFrom(bo.X, isLeaf, 3)) > 0 || len(derivesFrom(bo.Y, isLeaf, 3)) > 0 {
				return true
			}
		}
	}
	return false
}
