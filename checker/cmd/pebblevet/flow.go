package main

import (
	"go/token"
	"go/types"
	"os"
	"sort"
	"strings"

	"golang.org/x/tools/go/ssa"
)

// ---------------------------------------------------------------------------
// Must-facts dataflow over go/ssa (engines E1 ORDER/GATE, E2 REGION, and the
// guard part of E8).
//
// A *fact* is a name. A state is the set of facts that hold on EVERY path
// reaching a program point (forward analysis, intersection at joins). Facts are
// generated
//   - after an instruction matching a matcher            (GenAfter, "A was executed")
//   - on the nil-error edge of a matching call           (GenOk,    "A returned nil")
//   - on one successor of an If whose condition matches  (GenEdge,  "guard G took branch b")
// and removed after an instruction matching a matcher   (Kill, e.g. Unlock).
// A GenOk fact is also removed when a matching call executes again (its result
// is not known yet).
//
// Calls to functions whose bodies are loaded are summarised (bounded depth):
// the facts that hold at every successful return of the callee are generated
// on the call's nil-error edge (or right after the call if it returns no
// error), so that moving a step into a helper or an immediately-invoked
// closure does not change the verdict.
// ---------------------------------------------------------------------------

type State struct {
	top bool
	m   map[string]bool
}

func topState() State   { return State{top: true} }
func emptyState() State { return State{m: map[string]bool{}} }

func (s State) clone() State {
	if s.top {
		return State{top: true}
	}
	n := make(map[string]bool, len(s.m))
	for k := range s.m {
		n[k] = true
	}
	return State{m: n}
}

func (s State) has(f string) bool { return s.top || s.m[f] }

func (s *State) add(f string) {
	if s.top {
		return
	}
	s.m[f] = true
}

func (s *State) del(f string) {
	if s.top {
		// Killing from top: top means unreachable so far; keep top.
		return
	}
	delete(s.m, f)
}

func (s *State) addAll(o State) {
	if s.top {
		return
	}
	if o.top {
		return
	}
	for k := range o.m {
		s.m[k] = true
	}
}

func meet(a, b State) State {
	if a.top {
		return b.clone()
	}
	if b.top {
		return a.clone()
	}
	n := map[string]bool{}
	for k := range a.m {
		if b.m[k] {
			n[k] = true
		}
	}
	return State{m: n}
}

func equalState(a, b State) bool {
	if a.top != b.top {
		return false
	}
	if a.top {
		return true
	}
	if len(a.m) != len(b.m) {
		return false
	}
	for k := range a.m {
		if !b.m[k] {
			return false
		}
	}
	return true
}

func (s State) String() string {
	if s.top {
		return "⊤"
	}
	var ks []string
	for k := range s.m {
		if strings.HasPrefix(k, "nil:") || strings.HasPrefix(k, "nn:") {
			continue
		}
		ks = append(ks, k)
	}
	sort.Strings(ks)
	return "{" + strings.Join(ks, ",") + "}"
}

type GenKind int

const (
	GenAfter GenKind = iota
	GenOk
	GenEdge
	Kill
	KillEdgeKind
)

// CondM inspects an If condition (already stripped of leading negations) and
// reports whether it is the guard of interest and whether the fact holds on
// the condition's *false* outcome (neg) rather than its true outcome.
type CondM func(v ssa.Value) (match bool, neg bool)

type genSpec struct {
	fact string
	kind GenKind
	m    M
	cond CondM
	// unless: a KillEdge spec does not fire while this fact holds
	unless string
}

type Flow struct {
	P          *Program
	specs      []genSpec
	killable   map[string]bool
	memo       map[*ssa.Function]*fnSummary
	inProgress map[*ssa.Function]bool
	MaxDepth   int
	derived    []derivedFact
	iterLocal  map[string]bool
	// NoSummaries disables interprocedural summaries (lock regions keep them on
	// for kills only).
	FuncsAnalysed map[*ssa.Function]bool
}

type derivedFact struct {
	name  string
	anyOf [][]string
}

// Derive declares a composite fact: name holds as soon as all facts of one of
// the alternatives hold. It is added eagerly (before joins), which is what lets
// a disjunction such as "checked | not needed" survive the meet of two paths.
func (fl *Flow) Derive(name string, anyOf ...[]string) *Flow {
	fl.derived = append(fl.derived, derivedFact{name, anyOf})
	return fl
}

// IterationLocal marks facts that describe the current loop iteration only:
// they are dropped on every loop back edge.
func (fl *Flow) IterationLocal(facts ...string) *Flow {
	if fl.iterLocal == nil {
		fl.iterLocal = map[string]bool{}
	}
	for _, f := range facts {
		fl.iterLocal[f] = true
		fl.killable[f] = true
	}
	return fl
}

func (fl *Flow) applyDerived(s *State) {
	if s.top || len(fl.derived) == 0 {
		return
	}
	for _, d := range fl.derived {
		if s.m[d.name] {
			continue
		}
		for _, alt := range d.anyOf {
			all := true
			for _, f := range alt {
				if !s.m[f] {
					all = false
					break
				}
			}
			if all {
				s.m[d.name] = true
				break
			}
		}
	}
}

type fnSummary struct {
	succ    State // facts at every successful return (positive, non-local facts only)
	mayKill map[string]bool
}

func NewFlow(p *Program) *Flow {
	return &Flow{P: p, killable: map[string]bool{}, memo: map[*ssa.Function]*fnSummary{},
		inProgress: map[*ssa.Function]bool{}, MaxDepth: 3, FuncsAnalysed: map[*ssa.Function]bool{}}
}

func (fl *Flow) After(fact string, m M) *Flow {
	fl.specs = append(fl.specs, genSpec{fact: fact, kind: GenAfter, m: m})
	return fl
}
func (fl *Flow) Ok(fact string, m M) *Flow {
	fl.specs = append(fl.specs, genSpec{fact: fact, kind: GenOk, m: m})
	return fl
}
func (fl *Flow) Edge(fact string, c CondM) *Flow {
	fl.specs = append(fl.specs, genSpec{fact: fact, kind: GenEdge, cond: c})
	return fl
}

// KillEdge removes the fact on the edge where cond holds (see CondM). Together
// with an entry fact this encodes an obligation as a fact: "no check pending".
func (fl *Flow) KillEdge(fact string, c CondM) *Flow {
	fl.specs = append(fl.specs, genSpec{fact: fact, kind: KillEdgeKind, cond: c})
	fl.killable[fact] = true
	return fl
}

// KillEdgeUnless is KillEdge, except that the fact survives when `unless` holds
// on the edge (the obligation the kill stands for was already met).
func (fl *Flow) KillEdgeUnless(fact string, c CondM, unless string) *Flow {
	fl.specs = append(fl.specs, genSpec{fact: fact, kind: KillEdgeKind, cond: c, unless: unless})
	fl.killable[fact] = true
	return fl
}

func (fl *Flow) KillAfter(fact string, m M) *Flow {
	fl.specs = append(fl.specs, genSpec{fact: fact, kind: Kill, m: m})
	fl.killable[fact] = true
	return fl
}

// FnResult holds the fixpoint for one function.
type FnResult struct {
	phiDepth int
	Fn       *ssa.Function
	fl       *Flow
	in       map[*ssa.BasicBlock]State
	out      map[*ssa.BasicBlock]State
	depth    int
}

func isLocalFact(f string) bool {
	return strings.HasPrefix(f, "nil:") || strings.HasPrefix(f, "nn:")
}

func isTerminatorCall(in ssa.Instruction) bool {
	cc := getCallCommon(in)
	if cc == nil {
		return false
	}
	ci := infoOfCommon(cc)
	switch ci.Short {
	case "Fatalf", "Fatal":
		return true
	case "Exit":
		return ci.QName == "os.Exit"
	}
	return false
}

// Analyze runs the analysis on fn with the given entry facts.
func (fl *Flow) Analyze(fn *ssa.Function, entry State) *FnResult {
	r := fl.analyze(fn, entry, 0)
	if d := os.Getenv("PV_DUMP"); d != "" && strings.HasSuffix(QName(fn), d) {
		dumpFlow(fl.P, r)
	}
	return r
}

func (fl *Flow) analyze(fn *ssa.Function, entry State, depth int) *FnResult {
	fl.FuncsAnalysed[fn] = true
	r := &FnResult{Fn: fn, fl: fl, in: map[*ssa.BasicBlock]State{}, out: map[*ssa.BasicBlock]State{}, depth: depth}
	if len(fn.Blocks) == 0 {
		return r
	}
	for _, b := range fn.Blocks {
		r.in[b] = topState()
		r.out[b] = topState()
	}
	r.in[fn.Blocks[0]] = entry.clone()
	// The recover block, if any, is entered from anywhere; give it the empty state.
	if fn.Recover != nil {
		r.in[fn.Recover] = emptyState()
	}
	changed := true
	for iter := 0; changed && iter < 200; iter++ {
		changed = false
		for _, b := range fn.Blocks {
			var in State
			if b == fn.Blocks[0] {
				in = entry.clone()
			} else if b == fn.Recover {
				in = emptyState()
			} else {
				in = topState()
				for _, p := range b.Preds {
					es := r.edgeState(p, b)
					in = meet(in, es)
				}
			}
			out := r.transfer(b, in, nil)
			if !equalState(in, r.in[b]) || !equalState(out, r.out[b]) {
				r.in[b] = in
				r.out[b] = out
				changed = true
			}
		}
	}
	return r
}

// edgeState is out(p) plus the facts established by taking the edge p→b.
func (r *FnResult) edgeState(p, b *ssa.BasicBlock) State {
	s := r.out[p].clone()
	if s.top {
		return s
	}
	if len(r.fl.iterLocal) > 0 && b.Dominates(p) {
		for f := range r.fl.iterLocal {
			s.del(f)
		}
	}
	if len(p.Instrs) == 0 {
		return s
	}
	ifi, ok := p.Instrs[len(p.Instrs)-1].(*ssa.If)
	if !ok {
		return s
	}
	if p.Succs[0] == p.Succs[1] {
		return s
	}
	branch := p.Succs[0] == b
	r.condFacts(ifi.Cond, branch, &s)
	r.fl.applyDerived(&s)
	return s
}

func (r *FnResult) condFacts(cond ssa.Value, branch bool, s *State) {
	for i := 0; i < 4; i++ {
		if u, ok := cond.(*ssa.UnOp); ok && u.Op == token.NOT {
			cond = u.X
			branch = !branch
			continue
		}
		break
	}
	// A boolean built by short-circuit evaluation and then tested (`switch { case a || b: }`,
	// `x := a && b; if x`): the branch tells which incoming edges of the phi are feasible; what
	// holds on every feasible edge (including what that edge's own operand implies) holds here.
	if phi, ok := cond.(*ssa.Phi); ok && r.phiDepth < 3 {
		onlyPhisBefore := true
		for _, in := range phi.Block().Instrs {
			if _, isPhi := in.(*ssa.Phi); isPhi {
				continue
			}
			if _, isIf := in.(*ssa.If); !isIf {
				onlyPhisBefore = false
			}
			break
		}
		// A phi tested in a later block (`ok := a && b; …; if ok`): between the phi and the test
		// facts may have been killed, so only history facts — facts no spec of this flow ever kills
		// ("X happened on this path") — are carried over from the feasible incoming edges.
		farPhi := !onlyPhisBefore
		if onlyPhisBefore || farPhi {
			r.phiDepth++ // edgeState below may come back here through another test of the same phi
			defer func() { r.phiDepth-- }()
			acc := topState()
			for i, e := range phi.Edges {
				if k, isK := e.(*ssa.Const); isK && k.Value != nil {
					if (k.Value.String() == "true") != branch {
						continue // this edge would have produced the other outcome
					}
				}
				pred := phi.Block().Preds[i]
				es := r.edgeState(pred, phi.Block())
				if es.top {
					continue
				}
				if _, isK := e.(*ssa.Const); !isK {
					r.phiDepth++
					r.condFacts(e, branch, &es)
					r.phiDepth--
				}
				acc = meet(acc, es)
			}
			if !acc.top {
				for k := range acc.m {
					if isLocalFact(k) || (farPhi && r.fl.killable[k]) {
						continue
					}
					s.add(k)
				}
			}
		}
	}
	for _, sp := range r.fl.specs {
		if sp.kind == KillEdgeKind {
			if ok, neg := sp.cond(cond); ok && branch != neg && !(sp.unless != "" && s.has(sp.unless)) {
				s.del(sp.fact)
			}
		}
	}
	for _, sp := range r.fl.specs {
		if sp.kind != GenEdge {
			continue
		}
		if ok, neg := sp.cond(cond); ok {
			if branch != neg {
				s.add(sp.fact)
			}
		}
	}
	if bo, ok := cond.(*ssa.BinOp); ok && (bo.Op == token.EQL || bo.Op == token.NEQ) {
		var x ssa.Value
		if isNilConst(bo.Y) {
			x = bo.X
		} else if isNilConst(bo.X) {
			x = bo.Y
		}
		if x != nil {
			isNil := (bo.Op == token.EQL) == branch
			if isNil {
				s.add("nil:" + x.Name())
				if c := cellOfLoad(x); c != nil {
					s.add("nil:cell:" + c.Name())
				}
				r.impliedOnNil(x, s, 0)
			} else {
				s.add("nn:" + x.Name())
				if c := cellOfLoad(x); c != nil {
					s.add("nn:cell:" + c.Name())
				}
			}
		}
	}
}

// impliedOnNil adds to s the facts implied by "v == nil" for an error value v.
func (r *FnResult) impliedOnNil(v ssa.Value, s *State, d int) {
	if d > 6 {
		return
	}
	if call, ok := v.(*ssa.Call); ok {
		switch infoOfCommon(call.Common()).Short {
		case "firstError", "CombineErrors":
			// combinator(a, b) == nil implies a == nil and b == nil
			for _, a := range call.Common().Args {
				if isErrorType(a.Type()) {
					r.impliedOnNil(a, s, d+1)
				}
			}
			return
		}
	}
	if call := errResultOf(v); call != nil {
		for _, sp := range r.fl.specs {
			if sp.kind == GenOk && sp.m.F(call) {
				s.add(sp.fact)
			}
		}
		if sum := r.fl.summaryOf(call, r.depth); sum != nil {
			s.addAll(sum.succ)
		}
		return
	}
	switch x := v.(type) {
	case *ssa.Phi:
		// v == nil implies, for whichever edge was taken, that edge's value is nil.
		acc := topState()
		for i, e := range x.Edges {
			if definitelyNonNilErr(e) {
				continue // infeasible under v == nil
			}
			pred := x.Block().Preds[i]
			es := r.edgeState(pred, x.Block())
			if es.top || nonNilIn(e, es, 0) {
				continue // unreachable, or infeasible under v == nil
			}
			// Only facts that cannot be killed later are carried forward.
			carried := emptyState()
			for k := range es.m {
				if !r.fl.killable[k] && !isLocalFact(k) {
					carried.add(k)
				}
			}
			if !isNilConst(e) {
				r.impliedOnNil(e, &carried, d+1)
			}
			acc = meet(acc, carried)
		}
		if !acc.top {
			s.addAll(acc)
		}
	case *ssa.UnOp:
		if x.Op == token.MUL {
			// load from a local cell (named result, captured variable): combine
			// over the stores that reach the load.
			stores, complete := reachingStores(x)
			if !complete || len(stores) == 0 {
				return
			}
			acc := topState()
			for _, st := range stores {
				if definitelyNonNilErr(st.Val) {
					continue
				}
				carried := emptyState()
				at := r.stateBefore(st)
				if at.top {
					continue
				}
				for k := range at.m {
					if !r.fl.killable[k] && !isLocalFact(k) {
						carried.add(k)
					}
				}
				if !isNilConst(st.Val) {
					r.impliedOnNil(st.Val, &carried, d+1)
				}
				acc = meet(acc, carried)
			}
			if !acc.top {
				s.addAll(acc)
			}
		}
	case *ssa.ChangeInterface:
		r.impliedOnNil(x.X, s, d+1)
	}
}

func precedingStore(load *ssa.UnOp) *ssa.Store {
	b := load.Block()
	idx := -1
	for i, in := range b.Instrs {
		if in == ssa.Instruction(load) {
			idx = i
			break
		}
	}
	for i := idx - 1; i >= 0; i-- {
		if st, ok := b.Instrs[i].(*ssa.Store); ok && st.Addr == load.X {
			return st
		}
		// A call in between may write the cell through a closure; stop.
		if _, ok := b.Instrs[i].(*ssa.Call); ok {
			if _, isAlloc := load.X.(*ssa.Alloc); isAlloc {
				// only heap/captured cells can be written by callees
				if a := load.X.(*ssa.Alloc); a.Heap {
					return nil
				}
			}
		}
	}
	return nil
}

// transfer applies the block's instructions to s. If visit is non-nil it is
// called with the state holding immediately before each instruction.
func (r *FnResult) transfer(b *ssa.BasicBlock, in State, visit func(ssa.Instruction, State)) State {
	s := in.clone()
	for _, ins := range b.Instrs {
		if visit != nil {
			visit(ins, s)
		}
		if s.top {
			continue
		}
		if isTerminatorCall(ins) {
			s = topState()
			continue
		}
		if v, ok := ins.(ssa.Value); ok {
			s.del("nil:" + v.Name())
			s.del("nn:" + v.Name())
		}
		if v, ok := ins.(ssa.Value); ok {
			if c := cellOfLoad(v); c != nil {
				if s.has("nn:cell:" + c.Name()) {
					s.add("nn:" + v.Name())
				}
				if s.has("nil:cell:" + c.Name()) {
					s.add("nil:" + v.Name())
				}
			}
		}
		if st, ok := ins.(*ssa.Store); ok {
			if isCell(st.Addr) {
				s.del("nil:cell:" + st.Addr.Name())
				s.del("nn:cell:" + st.Addr.Name())
				// the cell now holds what was stored
				if isNilConst(st.Val) || s.has("nil:"+st.Val.Name()) {
					s.add("nil:cell:" + st.Addr.Name())
				} else if s.has("nn:" + st.Val.Name()) {
					s.add("nn:cell:" + st.Addr.Name())
				}
			}
		}
		if al, ok := ins.(*ssa.Alloc); ok {
			// a fresh variable of interface / pointer type is nil
			if pt, ok := al.Type().Underlying().(*types.Pointer); ok {
				switch pt.Elem().Underlying().(type) {
				case *types.Interface, *types.Pointer:
					s.add("nil:cell:" + al.Name())
				}
			}
		}
		for _, sp := range r.fl.specs {
			switch sp.kind {
			case GenAfter:
				if sp.m.F(ins) {
					s.add(sp.fact)
				}
			case Kill:
				if sp.m.F(ins) {
					s.del(sp.fact)
				}
			case GenOk:
				if sp.m.F(ins) {
					s.del(sp.fact)
				}
			}
		}
		r.fl.applyDerived(&s)
		if call, ok := ins.(*ssa.Call); ok {
			if sum := r.fl.summaryOf(call, r.depth); sum != nil {
				for k := range sum.mayKill {
					s.del(k)
				}
				if !returnsError(call.Common().Signature()) {
					s.addAll(sum.succ)
				}
			}
		}
	}
	return s
}

func returnsError(sig *types.Signature) bool {
	res := sig.Results()
	return res.Len() > 0 && isErrorType(res.At(res.Len()-1).Type())
}

// summaryOf returns the callee summary for a call with a loaded static callee.
func (fl *Flow) summaryOf(call *ssa.Call, depth int) *fnSummary {
	if depth >= fl.MaxDepth {
		return nil
	}
	fn := call.Common().StaticCallee()
	if fn == nil || len(fn.Blocks) == 0 {
		return nil
	}
	if s, ok := fl.memo[fn]; ok {
		return s
	}
	if fl.inProgress[fn] {
		return nil
	}
	fl.inProgress[fn] = true
	defer delete(fl.inProgress, fn)
	r := fl.analyze(fn, emptyState(), depth+1)
	sum := &fnSummary{succ: r.SuccessFacts(), mayKill: map[string]bool{}}
	// may-kill: any kill-matching instruction in the callee (or its summarised callees).
	for _, b := range fn.Blocks {
		for _, ins := range b.Instrs {
			for _, sp := range fl.specs {
				if sp.kind == Kill && sp.m.F(ins) {
					sum.mayKill[sp.fact] = true
				}
			}
			if c, ok := ins.(*ssa.Call); ok {
				if s2 := fl.summaryOf(c, depth+1); s2 != nil {
					for k := range s2.mayKill {
						sum.mayKill[k] = true
					}
				}
			}
		}
	}
	// positive, non-local, non-killed facts only
	if !sum.succ.top {
		for k := range sum.succ.m {
			if isLocalFact(k) {
				delete(sum.succ.m, k)
			}
		}
	}
	fl.memo[fn] = sum
	return sum
}

// RetState describes the facts at one (possibly) successful return.
type RetState struct {
	Ret   *ssa.Return
	Edge  int // phi edge index or -1
	State State
	Pos   token.Pos
}

// SuccessReturns enumerates the states at returns whose error result may be
// nil. For functions without an error result every return counts. A return
// block with several predecessors is evaluated once per incoming edge (one
// level of path sensitivity), so that `if err != nil || x == nil { return err }`
// keeps the two reasons apart.
func (r *FnResult) SuccessReturns() []RetState {
	var out []RetState
	fn := r.Fn
	hasErr := returnsError(fn.Signature)
	for _, b := range fn.Blocks {
		if len(b.Instrs) == 0 {
			continue
		}
		ret, ok := b.Instrs[len(b.Instrs)-1].(*ssa.Return)
		if !ok || b == fn.Recover {
			continue
		}
		type entry struct {
			in   State
			edge int
			pos  token.Pos
		}
		var entries []entry
		if len(b.Preds) > 1 {
			for i, p := range b.Preds {
				pos := ret.Pos()
				if len(p.Instrs) > 0 {
					if pp := p.Instrs[len(p.Instrs)-1].Pos(); pp.IsValid() {
						pos = pp
					}
				}
				entries = append(entries, entry{r.edgeState(p, b), i, pos})
			}
		} else {
			entries = append(entries, entry{r.in[b], -1, ret.Pos()})
		}
		for _, en := range entries {
			if en.in.top {
				continue
			}
			var s State
			r.transfer(b, en.in, func(in ssa.Instruction, st State) {
				if in == ssa.Instruction(ret) {
					s = st.clone()
				}
			})
			if s.top {
				continue
			}
			if !hasErr {
				out = append(out, RetState{Ret: ret, Edge: en.edge, State: s, Pos: en.pos})
				continue
			}
			e := ret.Results[len(ret.Results)-1]
			if phi, ok := e.(*ssa.Phi); ok && phi.Block() == b && en.edge >= 0 {
				e = phi.Edges[en.edge]
			}
			if st, ok := r.succState(e, s, 0); ok {
				out = append(out, RetState{Ret: ret, Edge: en.edge, State: st, Pos: en.pos})
			}
		}
	}
	return out
}

// succState decides whether returning error value e in state s may be a
// success, and if so the facts that hold then.
func (r *FnResult) succState(e ssa.Value, s State, d int) (State, bool) {
	if isNilConst(e) {
		return s, true
	}
	if nonNilIn(e, s, 0) {
		return s, false
	}
	if u, ok := e.(*ssa.UnOp); ok && u.Op == token.MUL && d < 3 {
		if st := precedingStore(u); st != nil {
			return r.succState(st.Val, s, d+1)
		}
	}
	st := s.clone()
	r.impliedOnNil(e, &st, 0)
	return st, true
}

// SuccessFacts is the intersection of the states at all successful returns
// (empty if there is none).
func (r *FnResult) SuccessFacts() State {
	rs := r.SuccessReturns()
	if len(rs) == 0 {
		return emptyState()
	}
	acc := topState()
	for _, x := range rs {
		acc = meet(acc, x.State)
	}
	if acc.top {
		return emptyState()
	}
	return acc
}

// At calls f with the state holding immediately before every instruction
// matching m.
func (r *FnResult) At(m M, f func(in ssa.Instruction, s State)) int {
	n := 0
	for _, b := range r.Fn.Blocks {
		r.transfer(b, r.in[b], func(in ssa.Instruction, st State) {
			if m.F(in) {
				n++
				f(in, st.clone())
			}
		})
	}
	return n
}

// AtDeep is At, and additionally descends into static callees of this module (two levels)
// that contain a match: the callee is analysed with the state holding before the call as its
// entry state (facts about SSA values of the caller dropped), so that moving the matched
// instruction into a helper function does not hide it from a rule anchored on the caller.
func (r *FnResult) AtDeep(m M, f func(in ssa.Instruction, s State)) int {
	return r.atDeep(m, f, 0, map[*ssa.Function]bool{r.Fn: true})
}

func containsMatch(fn *ssa.Function, m M, d int, seen map[*ssa.Function]bool) bool {
	if fn == nil || seen[fn] || len(fn.Blocks) == 0 {
		return false
	}
	seen[fn] = true
	for _, b := range fn.Blocks {
		for _, in := range b.Instrs {
			if _, isRet := in.(*ssa.Return); !isRet && m.F(in) {
				return true
			}
			if d > 0 {
				if call, ok := in.(*ssa.Call); ok {
					if cal := call.Common().StaticCallee(); cal != nil && inModule(cal) && containsMatch(cal, m, d-1, seen) {
						return true
					}
				}
			}
		}
	}
	return false
}

func (r *FnResult) atDeep(m M, f func(in ssa.Instruction, s State), d int, stack map[*ssa.Function]bool) int {
	n := 0
	for _, b := range r.Fn.Blocks {
		r.transfer(b, r.in[b], func(in ssa.Instruction, st State) {
			// a callee's returns are not the anchored function's returns
			if _, isRet := in.(*ssa.Return); !(isRet && d > 0) && m.F(in) {
				n++
				f(in, st.clone())
				return
			}
			if d >= 2 || st.top {
				return
			}
			call, ok := in.(*ssa.Call)
			if !ok {
				return
			}
			cal := call.Common().StaticCallee()
			if cal == nil || stack[cal] || !inModule(cal) || len(cal.Blocks) == 0 {
				return
			}
			if !containsMatch(cal, m, 1-d, map[*ssa.Function]bool{}) {
				return
			}
			entry := emptyState()
			for k := range st.m {
				if !isLocalFact(k) {
					entry.add(k)
				}
			}
			sub := r.fl.analyze(cal, entry, r.depth+1)
			stack[cal] = true
			n += sub.atDeep(m, f, d+1, stack)
			delete(stack, cal)
		})
	}
	return n
}

// Reachable reports whether the state before the instruction is not ⊤.
func (s State) Reachable() bool { return !s.top }

// stateBefore recomputes the state holding immediately before an instruction
// from the current block-entry state.
func (r *FnResult) stateBefore(target ssa.Instruction) State {
	b := target.Block()
	res := topState()
	r.transfer(b, r.in[b], func(in ssa.Instruction, st State) {
		if in == target {
			res = st.clone()
		}
	})
	return res
}

// reachingStores finds the stores to the cell read by load that reach it
// (nearest store on every backward path). complete is false if some path
// reaches the function entry (or the cell's allocation) without a store.
func reachingStores(load *ssa.UnOp) (stores []*ssa.Store, complete bool) {
	cell := load.X
	if _, ok := cell.(*ssa.Alloc); !ok {
		if _, ok := cell.(*ssa.FreeVar); !ok {
			return nil, false
		}
	}
	complete = true
	seen := map[*ssa.BasicBlock]bool{}
	found := map[*ssa.Store]bool{}
	var scan func(b *ssa.BasicBlock, from int)
	scan = func(b *ssa.BasicBlock, from int) {
		for i := from; i >= 0; i-- {
			if st, ok := b.Instrs[i].(*ssa.Store); ok && st.Addr == cell {
				if !found[st] {
					found[st] = true
					stores = append(stores, st)
				}
				return
			}
			if b.Instrs[i] == ssa.Instruction(cellInstr(cell)) {
				// reached the allocation: zero value (nil) reaches
				complete = false
				return
			}
		}
		if len(b.Preds) == 0 {
			complete = false
			return
		}
		for _, p := range b.Preds {
			if seen[p] {
				continue
			}
			seen[p] = true
			scan(p, len(p.Instrs)-1)
		}
	}
	b := load.Block()
	idx := -1
	for i, in := range b.Instrs {
		if in == ssa.Instruction(load) {
			idx = i
			break
		}
	}
	scan(b, idx-1)
	return stores, complete
}

func cellInstr(v ssa.Value) ssa.Instruction {
	if a, ok := v.(*ssa.Alloc); ok {
		return a
	}
	return nil
}

func isCell(v ssa.Value) bool {
	switch v.(type) {
	case *ssa.Alloc, *ssa.FreeVar:
		return true
	}
	return false
}

// cellOfLoad returns the local cell (Alloc/FreeVar) that v loads from, if any.
func cellOfLoad(v ssa.Value) ssa.Value {
	if u, ok := v.(*ssa.UnOp); ok && u.Op == token.MUL && isCell(u.X) {
		return u.X
	}
	return nil
}

// nonNilIn reports whether error value v is known to be non-nil in state s.
func nonNilIn(v ssa.Value, s State, d int) bool {
	if d > 4 {
		return false
	}
	if s.top {
		return false
	}
	if s.m["nn:"+v.Name()] || definitelyNonNilErr(v) {
		return true
	}
	if c := cellOfLoad(v); c != nil && s.m["nn:cell:"+c.Name()] {
		return true
	}
	if phi, ok := v.(*ssa.Phi); ok {
		for _, e := range phi.Edges {
			if !nonNilIn(e, s, d+1) {
				return false
			}
		}
		return len(phi.Edges) > 0
	}
	if call, ok := v.(*ssa.Call); ok {
		ci := infoOfCommon(call.Common())
		switch ci.Short {
		case "firstError", "CombineErrors", "Join":
			for _, a := range call.Common().Args {
				if nonNilIn(a, s, d+1) {
					return true
				}
			}
		case "Wrap", "Wrapf", "WithStack", "Mark", "MarkCorruptionError", "WithSecondaryError", "WithDetailf", "WithHint", "WithHintf":
			if len(call.Common().Args) > 0 && nonNilIn(call.Common().Args[0], s, d+1) {
				return true
			}
		}
	}
	return false
}
