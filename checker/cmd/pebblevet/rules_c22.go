package main

import "golang.org/x/tools/go/ssa"

func init() {
	register("C22", []string{".", "./vfs/atomicfs", "./internal/manifest", "./record"}, runC22)
	propExplain["C22"] = "Decides the ordering clause of C22: in every path of versionSet.UpdateVersionLocked / initNewDB / createManifest the MANIFEST write protocol holds (create ⊢ dir sync; Next ⊢ Encode ⊢ Flush ⊢ file Sync ⊢ marker Move ≺ success), the in-memory version is installed only through the nil-error edge of that I/O, failures are fatal, the protocol runs under the manifest lock, and only the three owner functions install versions / move the marker. Also the error-identity clause of recovery: recoverVersion tells a torn MANIFEST tail from corruption by comparing errors with ==, so no function in the call trees of record.Reader.Next and VersionEdit.Decode may return a wrapped callee error. Shares the atomic-marker rules of C24 (Move reports success only after the new marker file and the directory were synced). Does not decide that recovery picks the right edits (value-level)."
}

func manifestSteps() []Step {
	return []Step{
		{Name: "createManifest", M: CallTo("p.(*versionSet).createManifest"), Gated: true, Free: true},
		{Name: "SyncDir", M: MethodOn("SyncDir", "manifestMarker"), Gated: true, Also: "dirsynced|norotate", Need: []string{"ok:createManifest"}},
		{Name: "manifest.Next", M: MethodOn("Next", "recv.manifest"), Gated: true, Need: []string{"dirsynced|norotate"}},
		{Name: "ve.Encode", M: CallTo("man.(*VersionEdit).Encode"), Gated: true},
		{Name: "manifest.Flush", M: MethodOn("Flush", "recv.manifest"), Gated: true},
		{Name: "manifestFile.Sync", M: MethodOn("Sync", "recv.manifestFile"), Gated: true},
		{Name: "marker.Move", M: MethodOn("Move", "manifestMarker"), Gated: true, Also: "moved|norotate", Need: []string{"ok:manifestFile.Sync", "dirsynced|norotate"}},
	}
}

func runC22(c *Ctx) {
	outer := c.Fn("C22.O1", "p.(*versionSet).UpdateVersionLocked")
	if outer != nil {
		// C22.O1a: the I/O closure
		clo := c.ClosureWith("C22.O1a", outer, CallTo("man.(*VersionEdit).Encode"))
		if clo != nil {
			rot := rotationGuardPath(clo)
			if rot == "" {
				c.Unresolved("C22.O1a", "could not identify the manifest-rotation guard (the file number passed to createManifest)")
			}
			fl := NewFlow(c.P).
				Edge("dirsynced|norotate", ZeroGuard(rot)).
				Edge("moved|norotate", ZeroGuard(rot))
			res := c.Chain("C22.O1a", clo, fl, manifestSteps()...)
			c.RequireAtSuccess("C22.O1a", res, "Encode+Flush+Sync+Move", []string{"ok:ve.Encode", "ok:manifest.Flush", "ok:manifestFile.Sync", "moved|norotate"})
		}
		// C22.O1b: installation only through the closure's nil edge
		rot := ""
		if clo != nil {
			rot = rotationGuardPath(clo)
		}
		fl := NewFlow(c.P).
			Edge("dirsynced|norotate", ZeroGuard(rot)).
			Edge("moved|norotate", ZeroGuard(rot)).
			Edge("noedit", ZeroGuard("VE"))
		steps := manifestSteps()
		for i := range steps {
			steps[i].Free = true
		}
		need := []string{"ok:ve.Encode", "ok:manifest.Flush", "ok:manifestFile.Sync", "moved|norotate"}
		steps = append(steps,
			Step{Name: "vs.append", M: CallTo("p.(*versionSet).append"), Need: need},
			Step{Name: "store vs.minUnflushedLogNum", M: StoreTo(c.Field("C22.O1b", "p.versionSet.minUnflushedLogNum")), Need: need},
			Step{Name: "store vs.manifestFileNum", M: StoreTo(c.Field("C22.O1b", "p.versionSet.manifestFileNum")), Need: need},
			Step{Name: "store vs.obsoleteManifests", M: StoreTo(c.Field("C22.O1b", "p.versionSet.obsoleteManifests")), Need: need},
		)
		res := c.Chain("C22.O1b", outer, fl, steps...)
		c.RequireAtSuccess("C22.O1b", res, "MANIFEST I/O (or no edit)", need, "noedit")
		_ = res
	}

	// C22.O2: initNewDB: createManifest ⊢ Flush ⊢ Sync ⊢ SyncDir ⊢ Move ≺ ret✓
	if fn := c.Fn("C22.O2", "p.(*versionSet).initNewDB"); fn != nil {
		res := c.Chain("C22.O2", fn, nil,
			Step{Name: "createManifest", M: CallTo("p.(*versionSet).createManifest"), Gated: true},
			Step{Name: "manifest.Flush", M: MethodOn("Flush", "recv.manifest"), Gated: true},
			Step{Name: "manifestFile.Sync", M: MethodOn("Sync", "recv.manifestFile"), Gated: true},
			Step{Name: "SyncDir", M: MethodOn("SyncDir", "manifestMarker"), Gated: true},
			Step{Name: "marker.Move", M: MethodOn("Move", "manifestMarker"), Gated: true},
		)
		c.RequireAtSuccess("C22.O2", res, "Flush+Sync+SyncDir+Move", []string{"ok:manifest.Flush", "ok:manifestFile.Sync", "ok:SyncDir", "ok:marker.Move"})
	}
	// C22.O3: createManifest: Create ⊢ NewWriter; Next ⊢ Encode ⊢ swap of vs.manifest / vs.manifestFile
	if fn := c.Fn("C22.O3", "p.(*versionSet).createManifest"); fn != nil {
		res := c.Chain("C22.O3", fn, nil,
			Step{Name: "fs.Create", M: CallTo("vfs.(FS).Create"), Gated: true},
			Step{Name: "record.NewWriter", M: CallTo("rec.NewWriter")},
			Step{Name: "manifestWriter.Next", M: CallTo("rec.(*Writer).Next"), Gated: true},
			Step{Name: "snapshot.Encode", M: CallTo("man.(*VersionEdit).Encode"), Gated: true},
		)
		// Stores of a non-nil writer/file into vs.manifest / vs.manifestFile only after the snapshot encoded.
		nonNilStore := func(f string) M {
			base := StoreTo(c.Field("C22.O3", f))
			return M{Desc: base.Desc + " (non-nil)", F: func(in ssa.Instruction) bool {
				if !base.F(in) {
					return false
				}
				return !isNilConst(in.(*ssa.Store).Val)
			}}
		}
		n := c.Require("C22.O3", res, Or(nonNilStore("p.versionSet.manifest"), nonNilStore("p.versionSet.manifestFile")),
			"snapshot.Encode ⊢ install new manifest writer", []string{"ok:snapshot.Encode"})
		if n < 2 {
			c.Unresolved("C22.O3", "stores installing vs.manifest/vs.manifestFile not found in createManifest")
		}
		c.RequireAtSuccess("C22.O3", res, "snapshot.Encode", []string{"ok:snapshot.Encode"})
	}
	// the marker that names the current MANIFEST: C24's Move / locate rules are shared
	runC24(c)
	// C22.E2: the torn-tail classification in recoverVersion compares errors by identity, so the
	// record reader and the version-edit decoder must hand the reader's sentinels on unwrapped.
	if fn := c.Fn("C22.E2", "p.recoverVersion"); fn != nil {
		c.ErrIdentityIn("C22.E2", fn, 4, "rec.IsInvalidRecord")
	}
	// C22.W1: only the owners install versions, move the marker, or set the manifest bookkeeping.
	c.Who("C22.W1", FuncRef("p.(*versionSet).append"), "versionSet.append only from owners",
		"p.(*versionSet).UpdateVersionLocked", "p.(*versionSet).initNewDB", "p.(*versionSet).initRecoveredDB")
	c.Who("C22.W1", OnField(c.Field("C22.W1", "p.versionSet.manifestMarker"), "Move"), "manifestMarker.Move only from owners",
		"p.(*versionSet).UpdateVersionLocked", "p.(*versionSet).initNewDB")
	c.Who("C22.W1", StoreTo(c.Field("C22.W1", "p.versionSet.manifestFileNum")), "vs.manifestFileNum written only by owners",
		"p.(*versionSet).UpdateVersionLocked", "p.(*versionSet).initNewDB", "p.(*versionSet).initRecoveredDB")
	c.Who("C22.W1", StoreTo(c.Field("C22.W1", "p.versionSet.minUnflushedLogNum")), "vs.minUnflushedLogNum written only by owners",
		"p.(*versionSet).UpdateVersionLocked", "p.(*versionSet).initNewDB", "p.(*versionSet).initRecoveredDB", "p.(*versionSet).init")
	// C22.R1: the update function and the MANIFEST I/O run between logLock and logUnlock.
	if outer != nil {
		fl := NewFlow(c.P).
			After("held:manifestlog", CallTo("p.(*versionSet).logLock")).
			KillAfter("held:manifestlog", CallTo("p.(*versionSet).logUnlock", "p.(*versionSet).logUnlockAndInvalidatePickedCompactionCache"))
		res := fl.Analyze(outer, emptyState())
		c.noteFlow(fl)
		n := c.Require("C22.R1", res, DynCall(ParamName(outer, 1)), "updateFn runs under the manifest lock", []string{"held:manifestlog"})
		n += c.Require("C22.R1", res, CallTo("p.(*versionSet).append"), "version installed under the manifest lock", []string{"held:manifestlog"})
		if n < 2 {
			c.Unresolved("C22.R1", "updateFn call / vs.append not found in UpdateVersionLocked")
		}
		if len(instrs(outer, DeferTo("p.(*versionSet).logUnlock", "p.(*versionSet).logUnlockAndInvalidatePickedCompactionCache"))) == 0 {
			c.Ob("C22.R1", outer, "deferred logUnlock", c.P.Pos(outer.Pos()), false, "UpdateVersionLocked no longer defers the manifest unlock")
		} else {
			c.Ob("C22.R1", outer, "deferred logUnlock", c.P.Pos(outer.Pos()), true, "")
		}
	}
}

// rotationGuardPath: the access path of the value passed as the new file number to
// createManifest — the variable whose zero-ness decides whether the MANIFEST is rotated.
func rotationGuardPath(fn *ssa.Function) string {
	for _, in := range instrs(fn, CallTo("p.(*versionSet).createManifest")) {
		args := in.(*ssa.Call).Common().Args
		if len(args) >= 3 {
			return pathOf(args[2])
		}
	}
	return ""
}
