package main

import (
	"fmt"
	"go/constant"
	"go/token"
	"go/types"
	"strings"

	"golang.org/x/tools/go/ssa"
)

// ---------------------------------------------------------------------------
// Access paths: a readable, type-resolved name for the storage an SSA value
// denotes ("d.mu.versions.manifestFile", "iters.Point()", "vs.opts.FS").
// ---------------------------------------------------------------------------

func structOf(t types.Type) *types.Struct {
	t = t.Underlying()
	if p, ok := t.(*types.Pointer); ok {
		t = p.Elem().Underlying()
	}
	s, _ := t.(*types.Struct)
	return s
}

func fieldVar(xType types.Type, idx int) *types.Var {
	s := structOf(xType)
	if s == nil || idx >= s.NumFields() {
		return nil
	}
	return s.Field(idx)
}

func pathOf(v ssa.Value) string { return pathOfD(v, 0) }

// isPromotingField: an embedded struct / pointer / interface field, through
// which fields and methods are promoted; source code normally does not spell it.
func isPromotingField(f *types.Var) bool {
	if !f.Embedded() {
		return false
	}
	switch f.Type().Underlying().(type) {
	case *types.Struct, *types.Pointer, *types.Interface:
		return true
	}
	return false
}

func pathOfD(v ssa.Value, d int) string {
	if d > 12 || v == nil {
		return "…"
	}
	switch x := v.(type) {
	case *ssa.Parameter:
		// The receiver is named canonically so that renaming it does not change paths.
		if fn := x.Parent(); fn != nil && fn.Signature != nil && fn.Signature.Recv() != nil && len(fn.Params) > 0 && fn.Params[0] == x {
			return "recv"
		}
		return x.Name()
	case *ssa.FreeVar:
		// A captured variable denotes what it was bound to in the enclosing function.
		if b := freeVarBinding(x); b != nil {
			return pathOfD(b, d+1)
		}
		return x.Name()
	case *ssa.Global:
		return x.Name()
	case *ssa.FieldAddr:
		if f := fieldVar(x.X.Type(), x.Field); f != nil {
			if isPromotingField(f) {
				return pathOfD(x.X, d+1) // promoted through an embedded field: as written in source
			}
			return pathOfD(x.X, d+1) + "." + f.Name()
		}
	case *ssa.Field:
		if f := fieldVar(x.X.Type(), x.Field); f != nil {
			if isPromotingField(f) {
				return pathOfD(x.X, d+1)
			}
			return pathOfD(x.X, d+1) + "." + f.Name()
		}
	case *ssa.UnOp:
		if x.Op == token.MUL {
			return pathOfD(x.X, d+1)
		}
		return x.Op.String() + pathOfD(x.X, d+1)
	case *ssa.IndexAddr:
		return pathOfD(x.X, d+1) + "[]"
	case *ssa.Index:
		return pathOfD(x.X, d+1) + "[]"
	case *ssa.Lookup:
		return pathOfD(x.X, d+1) + "[]"
	case *ssa.Slice:
		return pathOfD(x.X, d+1)
	case *ssa.ChangeInterface:
		return pathOfD(x.X, d+1)
	case *ssa.MakeInterface:
		return pathOfD(x.X, d+1)
	case *ssa.ChangeType:
		return pathOfD(x.X, d+1)
	case *ssa.Convert:
		return pathOfD(x.X, d+1)
	case *ssa.TypeAssert:
		return pathOfD(x.X, d+1)
	case *ssa.Extract:
		if tup, ok := x.Tuple.Type().(*types.Tuple); ok && x.Index < tup.Len() && tup.At(x.Index).Name() != "" {
			return pathOfD(x.Tuple, d+1) + "." + tup.At(x.Index).Name()
		}
		return pathOfD(x.Tuple, d+1) + fmt.Sprintf(".#%d", x.Index)
	case *ssa.Alloc:
		// the spill slot of a captured receiver is still the receiver
		if fn := x.Parent(); fn != nil && fn.Signature != nil && fn.Signature.Recv() != nil && len(fn.Params) > 0 && x.Comment == fn.Params[0].Name() && x.Referrers() != nil {
			for _, r := range *x.Referrers() {
				if st, ok := r.(*ssa.Store); ok && st.Addr == x && st.Val == fn.Params[0] {
					return "recv"
				}
			}
		}
		if x.Comment != "" {
			return x.Comment
		}
		return "alloc"
	case *ssa.Phi:
		if x.Comment != "" {
			return x.Comment // the source variable the phi merges
		}
		return "φ"
	case *ssa.Const:
		if x.Value == nil {
			return "nil"
		}
		return x.Value.String()
	case *ssa.MakeClosure:
		return "closure:" + x.Fn.Name()
	case *ssa.Function:
		return x.Name()
	case *ssa.Call:
		cc := x.Common()
		if cc.IsInvoke() {
			return pathOfD(cc.Value, d+1) + "." + cc.Method.Name() + "()"
		}
		if fn := cc.StaticCallee(); fn != nil {
			if fn.Signature.Recv() != nil && len(cc.Args) > 0 {
				return pathOfD(cc.Args[0], d+1) + "." + fn.Name() + "()"
			}
			return fn.Name() + "()"
		}
		return pathOfD(cc.Value, d+1) + "()"
	}
	return v.Name()
}

// stripConv removes loads of addresses, conversions and interface wrapping so
// that the underlying storage-denoting value is exposed.
func stripConv(v ssa.Value) ssa.Value {
	for i := 0; i < 10; i++ {
		switch x := v.(type) {
		case *ssa.ChangeInterface:
			v = x.X
		case *ssa.MakeInterface:
			v = x.X
		case *ssa.ChangeType:
			v = x.X
		case *ssa.Convert:
			v = x.X
		case *ssa.TypeAssert:
			v = x.X
		default:
			return v
		}
	}
	return v
}

// fieldOfValue returns the struct field object whose content v denotes (v is a
// load of a FieldAddr, a Field extraction, or the FieldAddr itself).
func fieldOfValue(v ssa.Value) *types.Var {
	v = stripConv(v)
	if u, ok := v.(*ssa.UnOp); ok && u.Op == token.MUL {
		v = u.X
	}
	switch x := v.(type) {
	case *ssa.FieldAddr:
		return fieldVar(x.X.Type(), x.Field)
	case *ssa.Field:
		return fieldVar(x.X.Type(), x.Field)
	}
	return nil
}

// ---------------------------------------------------------------------------
// Callee naming
// ---------------------------------------------------------------------------

type callInfo struct {
	QName  string        // qualified name of static callee or interface method; "" if dynamic
	Alt    string        // interface methods: name after the interface that declares the method (embedding)
	Short  string        // method / function short name
	Recv   ssa.Value     // receiver value (nil for plain functions and dynamic calls)
	Callee *ssa.Function // static callee, if any
	Common *ssa.CallCommon
	Dyn    ssa.Value // callee value for dynamic calls
}

func namedOf(t types.Type) *types.Named {
	if p, ok := t.(*types.Pointer); ok {
		t = p.Elem()
	}
	n, _ := t.(*types.Named)
	return n
}

// ifaceMethodDeclQName names an interface method after the interface type that
// declares it (differs from the static receiver type under embedding).
func ifaceMethodDeclQName(m *types.Func) string {
	if sig, ok := m.Type().(*types.Signature); ok && sig.Recv() != nil {
		if n := namedOf(sig.Recv().Type()); n != nil && n.Obj().Pkg() != nil {
			return fmt.Sprintf("%s.(%s).%s", n.Obj().Pkg().Path(), n.Obj().Name(), m.Name())
		}
	}
	return ""
}

// ifaceMethodQName names an interface method after the static type of the
// receiver expression ("vfs.(File).Close" even though Close comes from io.Closer).
func ifaceMethodQName(recvT types.Type, m *types.Func) string {
	if n := namedOf(recvT); n != nil && n.Obj().Pkg() != nil {
		return fmt.Sprintf("%s.(%s).%s", n.Obj().Pkg().Path(), n.Obj().Name(), m.Name())
	}
	if m.Pkg() != nil {
		return m.Pkg().Path() + ".(interface)." + m.Name()
	}
	return "(interface)." + m.Name()
}

// deferAsCall makes getCallCommon (and hence every call matcher) see the call carried by a
// defer instruction; only the lock-balance analysis switches it on, around single matcher calls.
var deferAsCall bool

func getCallCommon(in ssa.Instruction) *ssa.CallCommon {
	switch x := in.(type) {
	case *ssa.Call:
		return x.Common()
	case *ssa.Defer:
		if deferAsCall {
			return &x.Call
		}
	}
	return nil
}

func infoOfCommon(cc *ssa.CallCommon) callInfo {
	ci := callInfo{Common: cc}
	if cc.IsInvoke() {
		ci.QName = ifaceMethodQName(cc.Value.Type(), cc.Method)
		ci.Alt = ifaceMethodDeclQName(cc.Method)
		ci.Short = cc.Method.Name()
		ci.Recv = cc.Value
		return ci
	}
	if fn := cc.StaticCallee(); fn != nil {
		ci.Callee = fn
		ci.QName = QName(fn)
		ci.Short = fn.Name()
		if o := fn.Origin(); o != nil {
			ci.Short = o.Name() // an instantiation is named "Unref[K V Opts]": use the generic's name
		}
		if fn.Signature.Recv() != nil && len(cc.Args) > 0 {
			ci.Recv = cc.Args[0]
		}
		// bound method closure: $bound wrappers carry the receiver as free var
		return ci
	}
	ci.Dyn = cc.Value
	return ci
}

// ---------------------------------------------------------------------------
// Matchers
// ---------------------------------------------------------------------------

// M matches SSA instructions.
type M struct {
	Desc string
	F    func(in ssa.Instruction) bool
}

func (m M) Match(in ssa.Instruction) bool { return m.F(in) }

// CallTo matches calls (ssa.Call) whose static callee or interface method has
// one of the given qualified names.
func CallTo(names ...string) M {
	set := map[string]bool{}
	for _, n := range names {
		set[expandAlias(n)] = true
	}
	return M{Desc: "call " + strings.Join(names, "|"), F: func(in ssa.Instruction) bool {
		cc := getCallCommon(in)
		if cc == nil {
			return false
		}
		ci := infoOfCommon(cc)
		return set[ci.QName] || (ci.Alt != "" && set[ci.Alt])
	}}
}

// DeferTo matches defer statements of the given callee.
func DeferTo(names ...string) M {
	set := map[string]bool{}
	for _, n := range names {
		set[expandAlias(n)] = true
	}
	return M{Desc: "defer " + strings.Join(names, "|"), F: func(in ssa.Instruction) bool {
		d, ok := in.(*ssa.Defer)
		if !ok {
			return false
		}
		return set[infoOfCommon(&d.Call).QName]
	}}
}

// MethodOn matches calls of a method with the given short name whose receiver
// access path ends with pathSuffix (type-resolved field names joined by '.').
func MethodOn(short string, pathSuffix string) M {
	return M{Desc: fmt.Sprintf("call …%s.%s()", pathSuffix, short), F: func(in ssa.Instruction) bool {
		cc := getCallCommon(in)
		if cc == nil {
			return false
		}
		ci := infoOfCommon(cc)
		if ci.Short != short || ci.Recv == nil {
			return false
		}
		return pathHasSuffix(pathOf(ci.Recv), pathSuffix)
	}}
}

func pathHasSuffix(p, suf string) bool {
	if suf == "" {
		return true
	}
	if p == suf {
		return true
	}
	return strings.HasSuffix(p, "."+suf)
}

// DynCall matches dynamic calls whose callee value's access path ends with the
// suffix (e.g. a func-typed field "env.apply", or a parameter "prepare").
func DynCall(pathSuffix string) M {
	return M{Desc: "dynamic call …" + pathSuffix, F: func(in ssa.Instruction) bool {
		cc := getCallCommon(in)
		if cc == nil || cc.IsInvoke() || cc.StaticCallee() != nil {
			return false
		}
		return pathHasSuffix(pathOf(cc.Value), pathSuffix)
	}}
}

// StoreTo matches stores whose address is the given field (by object identity).
func StoreTo(f *types.Var) M {
	return M{Desc: "store ." + f.Name(), F: func(in ssa.Instruction) bool {
		st, ok := in.(*ssa.Store)
		if !ok {
			return false
		}
		fa, ok := st.Addr.(*ssa.FieldAddr)
		if !ok {
			return false
		}
		return fieldVar(fa.X.Type(), fa.Field) == f
	}}
}

// Or combines matchers.
func Or(ms ...M) M {
	var ds []string
	for _, m := range ms {
		ds = append(ds, m.Desc)
	}
	return M{Desc: strings.Join(ds, " | "), F: func(in ssa.Instruction) bool {
		for _, m := range ms {
			if m.F(in) {
				return true
			}
		}
		return false
	}}
}

// And combines matchers.
func And(ms ...M) M {
	var ds []string
	for _, m := range ms {
		ds = append(ds, m.Desc)
	}
	return M{Desc: strings.Join(ds, " & "), F: func(in ssa.Instruction) bool {
		for _, m := range ms {
			if !m.F(in) {
				return false
			}
		}
		return true
	}}
}

// RecvPath restricts a call matcher to receivers whose path ends with suffix.
func RecvPath(suffix string) M {
	return M{Desc: "recv …" + suffix, F: func(in ssa.Instruction) bool {
		cc := getCallCommon(in)
		if cc == nil {
			return false
		}
		ci := infoOfCommon(cc)
		return ci.Recv != nil && pathHasSuffix(pathOf(ci.Recv), suffix)
	}}
}

// ArgPath restricts a call matcher to calls whose i-th argument (counting the
// receiver for static method calls) has a path ending with suffix.
func ArgPath(i int, suffix string) M {
	return M{Desc: fmt.Sprintf("arg%d …%s", i, suffix), F: func(in ssa.Instruction) bool {
		cc := getCallCommon(in)
		if cc == nil || i >= len(cc.Args) {
			return false
		}
		return pathHasSuffix(pathOf(cc.Args[i]), suffix)
	}}
}

// instrs returns every instruction of fn matching m, in block order.
func instrs(fn *ssa.Function, m M) []ssa.Instruction {
	var out []ssa.Instruction
	for _, b := range fn.Blocks {
		for _, in := range b.Instrs {
			if m.F(in) {
				out = append(out, in)
			}
		}
	}
	return out
}

// ---------------------------------------------------------------------------
// Small value helpers
// ---------------------------------------------------------------------------

var errorType = types.Universe.Lookup("error").Type()

func isErrorType(t types.Type) bool { return types.Identical(t, errorType) }

func isNilConst(v ssa.Value) bool {
	c, ok := v.(*ssa.Const)
	return ok && c.Value == nil
}

func constInt(v ssa.Value) (int64, bool) {
	c, ok := stripConv(v).(*ssa.Const)
	if !ok || c.Value == nil || c.Value.Kind() != constant.Int {
		return 0, false
	}
	return c.Int64(), true
}

// errResultOf returns the call instruction whose error result v is, if v is
// directly the (error-typed) result of a call or an Extract of one.
func errResultOf(v ssa.Value) *ssa.Call {
	switch x := v.(type) {
	case *ssa.Call:
		if isErrorType(x.Type()) {
			return x
		}
	case *ssa.Extract:
		if c, ok := x.Tuple.(*ssa.Call); ok && isErrorType(x.Type()) {
			return c
		}
	}
	return nil
}

// definitelyNonNilErr recognises values that are never a nil error.
func definitelyNonNilErr(v ssa.Value) bool {
	switch x := v.(type) {
	case *ssa.MakeInterface:
		return true
	case *ssa.Call:
		ci := infoOfCommon(x.Common())
		switch ci.Short {
		case "New", "Newf", "Errorf", "Wrap", "Wrapf", "CorruptionErrorf", "AssertionFailedf",
			"MarkCorruptionError", "WithStack", "Mark", "NewWithDepthf", "Join":
			if strings.Contains(ci.QName, "errors") || strings.Contains(ci.QName, "/base.") || strings.HasPrefix(ci.QName, "fmt.") {
				// errors.Wrap(nil) returns nil; only treat constructors as non-nil.
				switch ci.Short {
				case "Wrap", "Wrapf", "WithStack", "Mark", "MarkCorruptionError", "Join":
					return false
				}
				return true
			}
		}
	case *ssa.UnOp:
		// load of a package-level sentinel error variable
		if x.Op == token.MUL {
			if g, ok := x.X.(*ssa.Global); ok && strings.HasPrefix(g.Name(), "Err") {
				return true
			}
		}
	}
	return false
}

func blockIndexOf(in ssa.Instruction) int {
	for i, x := range in.Block().Instrs {
		if x == in {
			return i
		}
	}
	return -1
}

// RecvFrom matches channel receives (<-ch) whose channel path ends with suffix.
func RecvFrom(suffix string) M {
	return M{Desc: "<-…" + suffix, F: func(in ssa.Instruction) bool {
		u, ok := in.(*ssa.UnOp)
		if !ok || u.Op != token.ARROW {
			return false
		}
		return pathHasSuffix(pathOf(u.X), suffix)
	}}
}

// BuiltinCall matches calls of a builtin (close, panic, …) whose first argument
// path ends with suffix.
func BuiltinCall(name, suffix string) M {
	return M{Desc: name + "(…" + suffix + ")", F: func(in ssa.Instruction) bool {
		c, ok := in.(*ssa.Call)
		if !ok {
			return false
		}
		b, ok := c.Call.Value.(*ssa.Builtin)
		if !ok || b.Name() != name {
			return false
		}
		if suffix == "" {
			return true
		}
		return len(c.Call.Args) > 0 && pathHasSuffix(pathOf(c.Call.Args[0]), suffix)
	}}
}

// StoreThrough matches stores through the pointer held in field f (*x.f = v).
func StoreThrough(f *types.Var) M {
	return M{Desc: "store *(." + f.Name() + ")", F: func(in ssa.Instruction) bool {
		st, ok := in.(*ssa.Store)
		if !ok {
			return false
		}
		u, ok := st.Addr.(*ssa.UnOp)
		if !ok || u.Op != token.MUL {
			return false
		}
		fa, ok := u.X.(*ssa.FieldAddr)
		if !ok {
			return false
		}
		return fieldVar(fa.X.Type(), fa.Field) == f
	}}
}

// StorePath matches stores whose address path ends with suffix.
func StorePath(suffix string) M {
	return M{Desc: "store …" + suffix, F: func(in ssa.Instruction) bool {
		st, ok := in.(*ssa.Store)
		if !ok {
			return false
		}
		return pathHasSuffix(pathOf(st.Addr), suffix)
	}}
}

// Pred builds a matcher from a predicate.
func Pred(desc string, f func(in ssa.Instruction) bool) M { return M{Desc: desc, F: f} }

// AnyReturn matches every Return instruction except the synthetic one in the
// function's recover block.
var AnyReturn = M{Desc: "return", F: func(in ssa.Instruction) bool {
	ret, ok := in.(*ssa.Return)
	if !ok {
		return false
	}
	return ret.Block() != ret.Parent().Recover
}}

// Reaching lifts a matcher to call sites: it matches an instruction that m
// matches, or a call whose (loaded) static callee contains — up to depth levels
// down — an instruction that m matches. Used when the step sits in an
// immediately-invoked closure or a small helper.
func Reaching(m M, depth int) M {
	var contains func(fn *ssa.Function, d int, seen map[*ssa.Function]bool) bool
	contains = func(fn *ssa.Function, d int, seen map[*ssa.Function]bool) bool {
		if fn == nil || len(fn.Blocks) == 0 || seen[fn] || d < 0 {
			return false
		}
		seen[fn] = true
		for _, b := range fn.Blocks {
			for _, in := range b.Instrs {
				if m.F(in) {
					return true
				}
				if c, ok := in.(*ssa.Call); ok {
					if contains(c.Common().StaticCallee(), d-1, seen) {
						return true
					}
				}
			}
		}
		return false
	}
	return M{Desc: m.Desc + " (directly or in a callee)", F: func(in ssa.Instruction) bool {
		if m.F(in) {
			return true
		}
		c, ok := in.(*ssa.Call)
		if !ok {
			return false
		}
		return contains(c.Common().StaticCallee(), depth-1, map[*ssa.Function]bool{})
	}}
}

// freeVarBinding finds the value a closure's free variable was bound to where the closure was
// created (in the parent function).
func freeVarBinding(fv *ssa.FreeVar) ssa.Value {
	fn := fv.Parent()
	if fn == nil || fn.Parent() == nil {
		return nil
	}
	idx := -1
	for i, v := range fn.FreeVars {
		if v == fv {
			idx = i
		}
	}
	if idx < 0 {
		return nil
	}
	for _, b := range fn.Parent().Blocks {
		for _, in := range b.Instrs {
			if mc, ok := in.(*ssa.MakeClosure); ok && mc.Fn == ssa.Value(fn) && idx < len(mc.Bindings) {
				return mc.Bindings[idx]
			}
		}
	}
	return nil
}

// ParamName returns the name of fn's i-th parameter (0 = receiver for methods).
func ParamName(fn *ssa.Function, i int) string {
	if fn == nil || i >= len(fn.Params) {
		return "‹no such parameter›"
	}
	return fn.Params[i].Name()
}

// derefT strips one pointer level.
func derefT(t types.Type) types.Type {
	if p, ok := t.Underlying().(*types.Pointer); ok {
		return p.Elem()
	}
	return t
}
