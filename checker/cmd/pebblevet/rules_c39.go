package main

import (
	"go/types"

	"golang.org/x/tools/go/ssa"
)

func init() {
	register("C39", []string{".", "./objstorage/...", "./internal/manifest", "./valsep"}, runC39)
	propExplain["C39"] = "Decides ownership/ordering clauses of C39: objects are removed from the provider only by the obsolete-file deleter, the ingest's own cleanup of files it linked, and the copy-compaction's delete-on-exit; files are enqueued for deletion only by deleteObsoleteFiles, which does nothing while deletions are disabled and obsoletes WALs only below the durable minUnflushedLogNum; the obsolete lists are written only by their owners; files become obsolete only through the version-refcount callback, the flushable's last-reader unref, and the failure arms that dispose of their own outputs; zombie sets are updated before the new version is installed; every read-state/version reference is released or owned (C04.P1–P3); a compaction output object that was created is handed to the caller / result on every later exit (so failure arms can dispose of it). (A1) at Open the list of replayed flushable ingests handed to scanObsoleteFiles accumulates over all replayed WALs (every assignment in the loop appends to the list so far). (P3) references to file-cache values are released or handed over at every findOrCreateTable/findOrCreateBlob call site. Does not decide refcount arithmetic at run time."
	propTechnique["C39"] = "who-may-call/write (module-wide), SSA ordering and guard dataflow, resource pairing, created-object disposal obligation"
}

func runC39(c *Ctx) {
	prov := c.Iface("C39.W1a", "objs.Provider")
	c.Who("C39.W1a", ImplCall(prov, "objstorage.Provider", "Remove"), "objects removed only by the owners of deletion",
		"p.deleteObsoleteFile", "p.(*DB).deleteObsoleteFile", "p.ingestCleanup", "p.(*DB).runCopyCompaction", "p.(*DB).makeDeletePacer*", "p.openDeletePacer*", "p.*deleteObsoleteFile*")
	c.Who("C39.W1b", FuncRef("p/internal/deletepacer.(*DeletePacer).Enqueue", "github.com/cockroachdb/pebble/internal/deletepacer.(*DeletePacer).Enqueue"), "files enqueued for deletion only by deleteObsoleteFiles",
		"p.(*DB).deleteObsoleteFiles")
	for _, f := range []string{"obsoleteTables", "obsoleteBlobs", "obsoleteManifests", "obsoleteOptions"} {
		c.Who("C39.W1c", StoreTo(c.Field("C39.W1c", "p.versionSet."+f)), "vs."+f+" written only by its owners",
			"p.(*versionSet).addObsoleteLocked", "p.(*DB).scanObsoleteFiles", "p.(*DB).deleteObsoleteFiles", "p.(*versionSet).UpdateVersionLocked", "p.(*blobFileRewriteCompaction).Execute")
	}
	c.Who("C39.W1d", FuncRef("p.(*versionSet).addObsoleteLocked", "p.(*versionSet).addObsolete"), "files become obsolete only through the documented paths",
		"p.(*versionSet).init", "p.(*DB).newFlushableEntry", "p.(*DB).cleanupVersionEdit", "p.(*DB).runDefaultTableCompaction", "p.(*versionSet).UpdateVersionLocked", "p.(*versionSet).addObsolete")
	// O1: zombie sets before installing the version
	if fn := c.Fn("C39.O1", "p.(*versionSet).UpdateVersionLocked"); fn != nil {
		fl := NewFlow(c.P).KillAfter("version-not-installed-yet", CallTo("p.(*versionSet).append"))
		entry := emptyState()
		entry.add("version-not-installed-yet")
		res := fl.Analyze(fn, entry)
		for _, set := range []string{"zombieTables", "zombieBlobs"} {
			n := c.Require("C39.O1", res, MethodOn("Add", "recv."+set), set+" updated before the new version is installed", []string{"version-not-installed-yet"})
			if n == 0 {
				c.Unresolved("C39.O1", set+".Add not found in UpdateVersionLocked (or its helpers)")
			}
		}
	}
	// O1b: deleteObsoleteFiles
	if fn := c.Fn("C39.O1", "p.(*DB).deleteObsoleteFiles"); fn != nil {
		fl := NewFlow(c.P).Edge("deletions-enabled", func(v ssa.Value) (bool, bool) {
			ok, neg := CmpGuardGT0("fileDeletions.disableCount")(v)
			return ok, neg
		})
		res := fl.Analyze(fn, emptyState())
		c.noteFlow(fl)
		n := c.Require("C39.O1", res, MethodOn("Obsolete", "log.manager"), "nothing is obsoleted while file deletions are disabled", []string{"deletions-enabled"})
		n += c.Require("C39.O1", res, MethodOn("Enqueue", "deletePacer"), "nothing is enqueued while file deletions are disabled", []string{"deletions-enabled"})
		if n < 2 {
			c.Unresolved("C39.O1", "log.manager.Obsolete / deletePacer.Enqueue not found in deleteObsoleteFiles")
		}
		minLog := c.Field("C39.O1", "p.versionSet.minUnflushedLogNum")
		for _, in := range instrs(fn, MethodOn("Obsolete", "log.manager")) {
			args := in.(*ssa.Call).Common().Args
			ok := false
			for _, a := range args {
				if len(derivesFrom(a, func(v ssa.Value) bool { return isLoadOfField(v, minLog) }, 3)) > 0 {
					ok = true
				}
			}
			c.Ob("C39.O1", fn, "WALs are obsoleted only below the durable minUnflushedLogNum", c.P.Pos(in.Pos()), ok,
				map[bool]string{true: "", false: "the WAL obsoletion bound is no longer versionSet.minUnflushedLogNum"}[ok])
		}
	}
	// P2: created-object disposal in the blob-file rewrite (F7)
	if fn := c.Fn("C39.P2", "p.(*DB).runBlobFileRewriteLocked"); fn != nil {
		fl := NewFlow(c.P).Ok("created", CallTo("p.(*DB).newCompactionOutputBlob"))
		res := fl.Analyze(fn, emptyState())
		var created ssa.Value
		for _, in := range instrs(fn, CallTo("p.(*DB).newCompactionOutputBlob")) {
			call := in.(*ssa.Call)
			if call.Referrers() != nil {
				for _, r := range *call.Referrers() {
					if ex, ok := r.(*ssa.Extract); ok && ex.Index == 1 {
						created = ex
					}
				}
			}
		}
		if created == nil {
			c.Unresolved("C39.P2", "created object metadata not found in runBlobFileRewriteLocked")
		} else {
			n := 0
			res.At(AnyReturn, func(in ssa.Instruction, s State) {
				if !s.has("created") {
					return
				}
				n++
				ret := in.(*ssa.Return)
				rv := ret.Results[0]
				if u, isLoad := rv.(*ssa.UnOp); isLoad {
					if st := precedingStore(u); st != nil {
						rv = st.Val // named result: the value this return statement stored
					}
				}
				ok := len(derivesFrom(rv, func(v ssa.Value) bool { return v == created }, 6)) > 0
				c.Ob("C39.P2", fn, "created output object is reported to the caller on every later exit", c.P.Pos(in.Pos()), ok,
					map[bool]string{true: "", false: "after the output blob object was created this return hands the caller a zero ObjectMetadata: the caller's cleanup cannot mark the partial file obsolete"}[ok])
			})
			if n == 0 {
				c.Unresolved("C39.P2", "no return after object creation found")
			}
		}
	}
	// P2b: copy compaction deletes its output on every failure after creating it
	if fn := c.Fn("C39.P2", "p.(*DB).runCopyCompaction"); fn != nil {
		// deleteOnExit: the boolean captured by the deferred closure that removes the object
		doe := "deleteOnExit"
		for _, a := range fn.AnonFuncs {
			if len(instrs(a, ImplCall(c.Iface("C39.P2", "objs.Provider"), "objstorage.Provider", "Remove"))) == 0 {
				continue
			}
			for _, fv := range a.FreeVars {
				if pt, ok := fv.Type().(*types.Pointer); ok {
					if bt, ok := pt.Elem().Underlying().(*types.Basic); ok && bt.Kind() == types.Bool {
						doe = pathOf(fv)
					}
				}
			}
		}
		// deleteOnExit = true right after each creation
		c.Chain("C39.P2", fn, nil,
			Step{Name: "create|link", M: ImplCall(c.Iface("C39.P2", "objs.Provider"), "objstorage.Provider", "Create", "LinkOrCopyFromLocal"), Gated: true},
			Step{Name: "deleteOnExit = true", M: Pred("store true to deleteOnExit", func(in ssa.Instruction) bool {
				st, ok := in.(*ssa.Store)
				if !ok || pathOf(st.Addr) != doe {
					return false
				}
				k, isK := st.Val.(*ssa.Const)
				return isK && k.Value != nil && k.Value.String() == "true"
			})},
		)
		// deleteOnExit = false only after the provider sync succeeded
		fl := NewFlow(c.P).Ok("ok:sync", ImplCall(c.Iface("C39.P2", "objs.Provider"), "objstorage.Provider", "Sync")).
			After("created-something", ImplCall(c.Iface("C39.P2", "objs.Provider"), "objstorage.Provider", "Create", "LinkOrCopyFromLocal"))
		res := fl.Analyze(fn, emptyState())
		res.At(Pred("deleteOnExit = false", func(in ssa.Instruction) bool {
			st, ok := in.(*ssa.Store)
			if !ok || pathOf(st.Addr) != doe {
				return false
			}
			k, isK := st.Val.(*ssa.Const)
			return isK && k.Value != nil && k.Value.String() == "false"
		}), func(in ssa.Instruction, s State) {
			if !s.has("created-something") {
				return // the initialisation
			}
			ok := s.has("ok:sync")
			c.Ob("C39.P2", fn, "output kept only after it was synced", c.P.Pos(in.Pos()), ok, "")
		})
	}
	// P2c: value separation (F8, recorded as a known finding): when closing a blob file writer
	// fails, the object that was created for it must still be reported to the caller, otherwise the
	// compaction's failure arm (which obsoletes result.Blobs) never learns about it.
	if c.P.ByPath[pkgAlias["valsep"]] != nil {
		if fn := c.Fn("C39.P2", "valsep.(*ValueSeparator).closeWriters"); fn != nil {
			fl := NewFlow(c.P).Edge("close-failed", func(v ssa.Value) (bool, bool) {
				ok, neg := NilErrGuard(CallPred("Close", "blob"))(v)
				return ok, !neg
			})
			res := fl.Analyze(fn, emptyState())
			n := 0
			res.At(AnyReturn, func(in ssa.Instruction, s State) {
				if !s.has("close-failed") {
					return
				}
				n++
				ret := in.(*ssa.Return)
				rv := ret.Results[0]
				if u, isLoad := rv.(*ssa.UnOp); isLoad {
					if st := precedingStore(u); st != nil {
						rv = st.Val
					}
				}
				ok := !isNilConst(rv)
				c.Ob("C39.P2", fn, "a blob object whose writer failed to close is still reported to the caller", c.P.Pos(in.Pos()), ok,
					map[bool]string{true: "", false: "closeWriters returns no NewBlobFileInfo when FileWriter.Close fails: the created .blob object is never marked obsolete and lingers until the next Open (F8)"}[ok])
			})
			if n == 0 {
				c.Unresolved("C39.P2", "error return after FileWriter.Close not found in closeWriters")
			}
		}
	}
	runC39G3(c)
	runC39P3(c)
	runC39A1(c)
	// shared pairing rules
	runC04Pairing(c)
}

// runC39G3: cleaning up after a cancelled version edit. cleanupVersionEdit makes the
// edit's NEW physical tables obsolete; a table the edit merely MOVES (present in both
// DeletedTables and NewTables) is still referenced by the current version, and a virtual
// table's backing is handled separately. So every AddBacking of a NewTables entry must be
// guarded by "not virtual" and by a failed lookup in a set built from DeletedTables.
func runC39G3(c *Ctx) {
	fn := c.Fn("C39.G3", "p.(*DB).cleanupVersionEdit")
	if fn == nil {
		return
	}
	newTables := c.Field("C39.G3", "man.VersionEdit.NewTables")
	deleted := c.Field("C39.G3", "man.VersionEdit.DeletedTables")
	overDeleted := func(v ssa.Value) bool {
		nx, ok := v.(*ssa.Next)
		if !ok {
			return false
		}
		rg, ok := nx.Iter.(*ssa.Range)
		return ok && isLoadOfField(rg.X, deleted)
	}
	// maps populated with keys taken from ve.DeletedTables
	delSets := map[ssa.Value]bool{}
	for _, b := range fn.Blocks {
		for _, in := range b.Instrs {
			if mu, ok := in.(*ssa.MapUpdate); ok && len(derivesFrom(mu.Key, overDeleted, 6)) > 0 {
				delSets[mu.Map] = true
			}
		}
	}
	notMoved := func(v ssa.Value) (bool, bool) {
		ex, ok := v.(*ssa.Extract)
		if !ok || ex.Index != 1 {
			return false, false
		}
		lk, ok := ex.Tuple.(*ssa.Lookup)
		if !ok || !lk.CommaOk || !delSets[lk.X] {
			return false, false
		}
		return true, true // the fact holds where the lookup failed
	}
	fl := NewFlow(c.P).
		Edge("not-moved", notMoved).
		Edge("not-virtual", BoolGuard("Virtual", false)).
		IterationLocal("not-moved", "not-virtual")
	res := fl.Analyze(fn, emptyState())
	c.noteFlow(fl)
	n := c.Require("C39.G3", res, Pred("AddBacking(<backing of a NewTables entry>)", func(in ssa.Instruction) bool {
		call, ok := in.(*ssa.Call)
		if !ok || infoOfCommon(call.Common()).Short != "AddBacking" {
			return false
		}
		args := call.Common().Args
		return len(derivesFrom(args[len(args)-1], func(v ssa.Value) bool { return isLoadOfField(v, newTables) }, 10)) > 0
	}), "a new table is made obsolete only if it is physical and not merely moved by the edit", []string{"not-virtual", "not-moved"})
	if n == 0 {
		c.Unresolved("C39.G3", "no AddBacking of a NewTables entry in cleanupVersionEdit")
	}
}

// CmpGuardGT0: fact holds where "x > 0" is known FALSE (x <= 0), for x by path suffix.
func CmpGuardGT0(suffix string) CondM {
	return func(v ssa.Value) (bool, bool) {
		bo, ok := v.(*ssa.BinOp)
		if !ok || !pathHasSuffix(pathOf(bo.X), suffix) || !isZeroConst(bo.Y) {
			return false, false
		}
		switch bo.Op.String() {
		case ">":
			return true, true
		case "<=", "==":
			return true, false
		case "!=":
			return true, true
		}
		return false, false
	}
}

// runC39P3: references to file-cache values. findOrCreateTable / findOrCreateBlob return a
// reference that pins the open reader (and, through it, the file: an obsolete file is deleted
// only once its reader is closed; Close reports leaked references). Every call site releases the
// reference on every path on which the call succeeded, or hands it over (stored in a field, or
// owned by the point iterator whose close hook releases it).
func runC39P3(c *Ctx) {
	spec := PairSpec{Rule: "C39.P3", What: "file-cache reference released or handed over", Release: []string{"Unref"},
		ErrGated: true, Derived: []string{"Value"},
		Consumers:  []string{"p.(*fileCacheHandle).newPointIter", "p.(*fileCacheHandle).addReference"},
		OwnedWhere: []CondM{NonZeroGuard("iters.point")},
	}
	n := acquireSites(c, CallTo("p.(*fileCacheHandle).findOrCreateTable", "p.(*fileCacheHandle).findOrCreateBlob"), modPath, func(fn *ssa.Function, call *ssa.Call) {
		var v ssa.Value = call
		if call.Referrers() != nil {
			for _, r := range *call.Referrers() {
				if ex, ok := r.(*ssa.Extract); ok && ex.Index == 0 {
					v = ex
				}
			}
		}
		c.Pairing(spec, fn, call, v)
	})
	if n < 4 {
		c.Unresolved("C39.P3", "fewer than 4 findOrCreateTable/findOrCreateBlob call sites found")
	}
}

// runC39A1: at Open the files of flushable ingests replayed from the WALs are not yet in any
// version; scanObsoleteFiles spares exactly the ones in the list it is given. That list is an
// accumulator over ALL replayed WALs: every value that flows into it inside the replay loop is
// `append(<the list so far>, …)` (or the initial empty list) — an assignment that replaces the
// list makes the tables of every earlier pending ingest look like orphans, and they are deleted
// while the recovered state still needs them.
func runC39A1(c *Ctx) {
	fn := c.Fn("C39.A1", "p.Open")
	if fn == nil {
		return
	}
	n := 0
	for _, in := range instrs(fn, CallTo("p.(*DB).scanObsoleteFiles")) {
		args := in.(*ssa.Call).Common().Args
		list := args[len(args)-1]
		web := map[ssa.Value]bool{}
		var leaves []ssa.Value
		var walk func(v ssa.Value)
		walk = func(v ssa.Value) {
			if web[v] {
				return
			}
			if phi, ok := v.(*ssa.Phi); ok {
				web[v] = true
				for _, e := range phi.Edges {
					walk(e)
				}
				return
			}
			leaves = append(leaves, v)
		}
		walk(list)
		if len(web) == 0 {
			c.Unresolved("C39.A1", "the flushable-ingest list passed to scanObsoleteFiles is not a loop-carried variable of Open")
			continue
		}
		for _, lf := range leaves {
			n++
			ok := false
			what := pathOf(lf)
			if isNilConst(lf) {
				ok = true
			} else if call, isCall := lf.(*ssa.Call); isCall {
				if b, isB := call.Common().Value.(*ssa.Builtin); isB && b.Name() == "append" && len(call.Common().Args) > 0 && web[call.Common().Args[0]] {
					ok = true
				}
			}
			pos := lf.Pos()
			if !pos.IsValid() {
				if ex, isEx := lf.(*ssa.Extract); isEx {
					pos = ex.Tuple.Pos()
				}
			}
			if !pos.IsValid() {
				pos = in.Pos()
			}
			c.Ob("C39.A1", fn, "the list of replayed flushable ingests accumulates over all WALs", c.P.Pos(pos), ok,
				map[bool]string{true: "", false: "the list is assigned " + what + ", which is not append(<the list so far>, …): ingests replayed from earlier WALs are forgotten and scanObsoleteFiles deletes their tables"}[ok])
		}
	}
	if n < 2 {
		c.Unresolved("C39.A1", "scanObsoleteFiles call / accumulator not found in Open")
	}
}
