package main

import (
	"fmt"
	"go/ast"
	"go/constant"
	"go/token"
	"golang.org/x/tools/go/ssa"
	"regexp"
	"sort"
	"strings"

	"golang.org/x/tools/go/packages"
)

func init() {
	register("C46", []string{"."}, runC46)
	propExplain["C46"] = "Decides the key-agreement clause of C46: every `section.key` that Options.String emits with a data-bearing verb has a non-empty case for that key in the matching section of Options.Parse (sections and keys are extracted on every run from the constant format strings of the Fprintf/Fprintln calls and from Parse's section/key switches), and for keys printed directly from a field of Options / LevelOptions / the value-separation or failover structs the same first-level field is assigned in that key's case. (S1) parseOptions separates key and value at the first '=' of a line (first-occurrence primitives only): values are free-form and may contain '='. Does not decide that a parsed value formats back identically (value-level)."
}

type optKey struct {
	section, key string
	dataBearing  bool
	pos          token.Pos
	fields       map[string]bool // first-level field names read by the arguments
}

var kvRe = regexp.MustCompile(`^\s*([A-Za-z_0-9]+)=(.*)$`)
var sectRe = regexp.MustCompile(`^\[([A-Za-z ]+?)( "%d")?\]$`)

func stringLit(p *packages.Package, e ast.Expr) (string, bool) {
	tv, ok := p.TypesInfo.Types[e]
	if !ok || tv.Value == nil || tv.Value.Kind() != constant.String {
		return "", false
	}
	return constant.StringVal(tv.Value), true
}

// firstLevelFields collects selector names x.F (the F directly selected on an
// identifier or on a call result) appearing in exprs.
func selectorNames(exprs []ast.Expr) map[string]bool {
	out := map[string]bool{}
	for _, e := range exprs {
		ast.Inspect(e, func(n ast.Node) bool {
			if sel, ok := n.(*ast.SelectorExpr); ok {
				out[sel.Sel.Name] = true
			}
			return true
		})
	}
	return out
}

// runC46S1: Options.String writes `key=value` lines whose values are free-form (comparer / merger
// names, directory paths) and may themselves contain '='. The parser therefore separates key and
// value at the FIRST '=' of the line: in parseOptions the searches for the "=" separator use a
// first-occurrence primitive (strings.Index / IndexByte / Cut / SplitN(…, 2)) and never one that
// splits at every or at the last occurrence.
func runC46S1(c *Ctx) {
	fn := c.Fn("C46.S1", "p.parseOptions")
	if fn == nil {
		return
	}
	first := map[string]bool{"Index": true, "IndexByte": true, "Cut": true, "SplitN": true, "IndexRune": true}
	wrong := map[string]bool{"Split": true, "SplitAfter": true, "LastIndex": true, "LastIndexByte": true, "FieldsFunc": true, "SplitAfterN": true}
	nFirst := 0
	for _, b := range fn.Blocks {
		for _, in := range b.Instrs {
			call, ok := in.(*ssa.Call)
			if !ok {
				continue
			}
			cal := call.Common().StaticCallee()
			if cal == nil || cal.Pkg == nil || cal.Pkg.Pkg.Path() != "strings" {
				continue
			}
			hasEq := false
			for _, a := range call.Common().Args {
				if k, ok := a.(*ssa.Const); ok && k.Value != nil && (k.Value.ExactString() == `"="` || k.Value.ExactString() == "61") {
					hasEq = true
				}
			}
			if !hasEq {
				continue
			}
			switch {
			case wrong[cal.Name()]:
				c.Ob("C46.S1", fn, "key and value are separated at the first '='", c.P.Pos(call.Pos()), false,
					"strings."+cal.Name()+` with "=" splits at every (or the last) occurrence: a value that contains '=' (a path, a comparer or merger name) is truncated, so Parse(o.String()) differs from o and CheckCompatibility rejects the store's own OPTIONS file`)
			case first[cal.Name()]:
				okk := true
				if cal.Name() == "SplitN" {
					n, isK := constInt(call.Common().Args[len(call.Common().Args)-1])
					okk = isK && n == 2
				}
				nFirst++
				c.Ob("C46.S1", fn, "key and value are separated at the first '='", c.P.Pos(call.Pos()), okk, map[bool]string{true: "", false: "SplitN with a limit other than 2 splits the value as well"}[okk])
			}
		}
	}
	if nFirst == 0 {
		c.Unresolved("C46.S1", `no first-occurrence search for "=" found in parseOptions`)
	}
}

func runC46(c *Ctx) {
	runC46S1(c)
	sfn := c.Fn("C46.K1", "p.(*Options).String")
	pfn := c.Fn("C46.K1", "p.(*Options).Parse")
	if sfn == nil || pfn == nil {
		return
	}
	sD, pkg := c.P.Decl(sfn)
	pD, _ := c.P.Decl(pfn)
	// ---- writer side --------------------------------------------------------
	var keys []optKey
	section := ""
	ast.Inspect(sD, func(n ast.Node) bool {
		call, ok := n.(*ast.CallExpr)
		if !ok {
			return true
		}
		sel, ok := call.Fun.(*ast.SelectorExpr)
		if !ok || (sel.Sel.Name != "Fprintf" && sel.Sel.Name != "Fprintln") || len(call.Args) < 2 {
			return true
		}
		lit, ok := stringLit(pkg, call.Args[1])
		if !ok {
			return true
		}
		line := strings.TrimRight(lit, "\n")
		if m := sectRe.FindStringSubmatch(strings.TrimSpace(line)); m != nil {
			section = m[1]
			return true
		}
		if m := kvRe.FindStringSubmatch(line); m != nil && section != "" {
			k := optKey{section: section, key: m[1], pos: call.Pos(), fields: selectorNames(call.Args[2:])}
			k.dataBearing = strings.Contains(m[2], "%")
			keys = append(keys, k)
		}
		return true
	})
	if len(keys) < 50 {
		c.Unresolved("C46.K1", fmt.Sprintf("only %d keys extracted from Options.String", len(keys)))
		return
	}
	// ---- reader side --------------------------------------------------------
	type caseInfo struct {
		body     []ast.Stmt
		assigned map[string]bool
	}
	parsed := map[string]map[string]*caseInfo{} // section -> key -> case
	ast.Inspect(pD, func(n ast.Node) bool {
		cc, ok := n.(*ast.CaseClause)
		if !ok || len(cc.List) != 1 {
			return true
		}
		sect := ""
		switch e := cc.List[0].(type) {
		case *ast.BinaryExpr:
			if id, ok := e.X.(*ast.Ident); ok && id.Name == "section" && e.Op == token.EQL {
				if s, ok := stringLit(pkg, e.Y); ok {
					sect = s
				}
			}
		case *ast.CallExpr:
			if exprString(e.Fun) == "strings.HasPrefix" && len(e.Args) == 2 {
				if id, ok := e.Args[0].(*ast.Ident); ok && id.Name == "section" {
					if s, ok := stringLit(pkg, e.Args[1]); ok {
						sect = strings.TrimSpace(s)
					}
				}
			}
		}
		if sect == "" {
			return true
		}
		if parsed[sect] == nil {
			parsed[sect] = map[string]*caseInfo{}
		}
		for _, st := range cc.Body {
			ast.Inspect(st, func(m ast.Node) bool {
				sw, ok := m.(*ast.SwitchStmt)
				if !ok {
					return true
				}
				if id, ok := sw.Tag.(*ast.Ident); !ok || id.Name != "key" {
					return true
				}
				for _, s2 := range sw.Body.List {
					kc := s2.(*ast.CaseClause)
					for _, ke := range kc.List {
						if ks, ok := stringLit(pkg, ke); ok {
							ci := &caseInfo{body: kc.Body, assigned: map[string]bool{}}
							for _, bs := range kc.Body {
								ast.Inspect(bs, func(x ast.Node) bool {
									switch y := x.(type) {
									case *ast.AssignStmt:
										for _, l := range y.Lhs {
											for f := range selectorNames([]ast.Expr{l}) {
												ci.assigned[f] = true
											}
										}
									case *ast.CallExpr:
										// setters: o.X.Set(...), append-style helpers
										for f := range selectorNames([]ast.Expr{y.Fun}) {
											ci.assigned[f] = true
										}
										for _, a := range y.Args {
											if u, ok := a.(*ast.UnaryExpr); ok && u.Op == token.AND {
												for f := range selectorNames([]ast.Expr{u.X}) {
													ci.assigned[f] = true
												}
											}
										}
									}
									return true
								})
							}
							parsed[sect][ks] = ci
						}
					}
				}
				return false
			})
		}
		return true
	})
	if len(parsed) < 4 {
		c.Unresolved("C46.K1", fmt.Sprintf("only %d sections found in Options.Parse", len(parsed)))
		return
	}
	sort.Slice(keys, func(i, j int) bool { return keys[i].pos < keys[j].pos })
	seen := map[string]bool{}
	for _, k := range keys {
		id := k.section + "." + k.key
		if seen[id] {
			continue
		}
		seen[id] = true
		ci := parsed[k.section][k.key]
		ok := ci != nil
		detail := ""
		if !ok {
			detail = "Options.String writes " + id + " but Options.Parse has no case for it: the value is lost (or reported as unknown) on a round trip"
		} else if k.dataBearing && len(ci.body) == 0 {
			ok = false
			detail = "Options.String writes a value for " + id + " but the Parse case is empty: the value is silently dropped"
		}
		c.Ob("C46.K1", pfn, "Parse handles "+id, c.P.Pos(k.pos), ok, detail)
		if ok && k.dataBearing && len(ci.body) > 0 {
			// K3: a field printed directly is among the fields the case assigns
			var printed []string
			for f := range k.fields {
				printed = append(printed, f)
			}
			sort.Strings(printed)
			if len(printed) == 0 {
				continue // printed from a local
			}
			hit := false
			for _, f := range printed {
				if ci.assigned[f] {
					hit = true
				}
			}
			c.Ob("C46.K3", pfn, "Parse of "+id+" assigns a field that String printed", c.P.Pos(k.pos), hit,
				map[bool]string{true: "", false: fmt.Sprintf("String prints %s from %v but the Parse case assigns %v: the value is parsed into a different field", id, printed, sortedKeys(ci.assigned))}[hit])
		}
	}
	c.Note("C46: %d keys written by Options.String in %d sections", len(seen), len(parsed))
}
