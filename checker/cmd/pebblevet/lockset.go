package main

import (
	"fmt"
	"go/token"
	"go/types"
	"sort"
	"strings"

	"golang.org/x/tools/go/ssa"
)

// ---------------------------------------------------------------------------
// E10 LOCKSET for one mutex (DB.mu): protected sites must execute with the
// mutex held. Intra-procedural must-analysis ("held" fact: Lock gens, Unlock
// kills, cond.Wait is identity) + bottom-up "requires held at entry" summaries
// over static callees (closures included). A function that requires the mutex
// and is reachable without it — an exported entry point, a goroutine body, or
// a callback whose calling context is not in the justified table — is reported.
// ---------------------------------------------------------------------------

type LockSet struct {
	c        *Ctx
	Rule     string
	IsLock   M
	IsUnlock M
	Site     func(in ssa.Instruction) (string, bool) // protected site and its description
	Funcs    []*ssa.Function
	// HeldAtEntry: functions (qualified names, closures as parent$N or by
	// "closure passed to X") documented to run with the mutex held.
	HeldAtEntry map[string]string
	req         map[*ssa.Function]string // function -> first reason it requires the mutex
}

type lockSiteReport struct {
	fn   *ssa.Function
	in   ssa.Instruction
	desc string
}

// analyse returns (sites not held assuming entry NOT held, sites not held even assuming entry held).
func (ls *LockSet) analyse(fn *ssa.Function, extraSite func(ssa.Instruction) (string, bool)) (needEntry, never []lockSiteReport) {
	run := func(entryHeld bool) []lockSiteReport {
		fl := NewFlow(ls.c.P).After("held", ls.IsLock).KillAfter("held", ls.IsUnlock)
		fl.MaxDepth = 0 // summaries are handled by the requires-held propagation
		entry := emptyState()
		if entryHeld {
			entry.add("held")
		}
		res := fl.Analyze(fn, entry)
		var out []lockSiteReport
		for _, b := range fn.Blocks {
			res.transfer(b, res.in[b], func(in ssa.Instruction, s State) {
				if !s.Reachable() || s.has("held") {
					return
				}
				if d, ok := ls.Site(in); ok {
					out = append(out, lockSiteReport{fn, in, d})
					return
				}
				if extraSite != nil {
					if d, ok := extraSite(in); ok {
						out = append(out, lockSiteReport{fn, in, d})
					}
				}
			})
		}
		return out
	}
	return run(false), run(true)
}

func (ls *LockSet) Run() {
	c := ls.c
	ls.req = map[*ssa.Function]string{}
	fnSet := map[*ssa.Function]bool{}
	for _, f := range ls.Funcs {
		fnSet[f] = true
	}
	// calls into requires-held functions are sites too
	// interface dispatch: concrete methods among Funcs by (name, receiver implements iface)
	implsOf := func(cc *ssa.CallCommon) []*ssa.Function {
		var out []*ssa.Function
		it, ok := cc.Value.Type().Underlying().(*types.Interface)
		if !ok {
			return nil
		}
		for _, f := range ls.Funcs {
			if f.Parent() != nil || f.Signature.Recv() == nil || f.Name() != cc.Method.Name() {
				continue
			}
			if types.Implements(f.Signature.Recv().Type(), it) {
				out = append(out, f)
			}
		}
		return out
	}
	callSite := func(in ssa.Instruction) (string, bool) {
		call, ok := in.(*ssa.Call)
		if !ok {
			return "", false
		}
		if call.Common().IsInvoke() {
			for _, f := range implsOf(call.Common()) {
				if why, ok := ls.req[f]; ok {
					return "interface call reaching " + shortQ(QName(f)) + " (needs the mutex: " + why + ")", true
				}
			}
			return "", false
		}
		callee := call.Common().StaticCallee()
		if callee == nil {
			return "", false
		}
		if why, ok := ls.req[callee]; ok {
			return "call of " + shortQ(QName(callee)) + " (needs the mutex: " + why + ")", true
		}
		return "", false
	}
	definite := map[string]lockSiteReport{}
	for iter := 0; iter < 30; iter++ {
		changed := false
		for _, fn := range ls.Funcs {
			need, never := ls.analyse(fn, callSite)
			for _, r := range never {
				// not held even if the caller holds it: released before the site
				definite[c.P.Pos(r.in.Pos())+r.desc] = r
			}
			if len(need) > 0 {
				if _, ok := ls.req[fn]; !ok {
					ls.req[fn] = need[0].desc + " at " + c.P.Pos(need[0].in.Pos())
					changed = true
				}
			}
		}
		if !changed {
			break
		}
	}
	// definite violations
	var keys []string
	for k := range definite {
		keys = append(keys, k)
	}
	sort.Strings(keys)
	for _, k := range keys {
		r := definite[k]
		c.Ob(ls.Rule, r.fn, "protected access with the mutex held: "+r.desc, c.P.Pos(r.in.Pos()), false,
			"the mutex is released (or never taken) on a path to this access even if the caller holds it")
	}
	// roots: requires-held functions that can be entered without the mutex
	callers := map[*ssa.Function][]*ssa.Function{}
	goTargets := map[*ssa.Function]bool{}
	valueUse := map[*ssa.Function]string{} // closure/function used as a value: description of the consumer
	for _, fn := range c.P.AllFuncs {
		for _, b := range fn.Blocks {
			for _, in := range b.Instrs {
				switch x := in.(type) {
				case *ssa.MapUpdate:
					if mc, ok := x.Value.(*ssa.MakeClosure); ok {
						if f, ok := mc.Fn.(*ssa.Function); ok {
							valueUse[f] = "closure stored in map " + mapName(x.Map)
						}
					}
					if f, ok := x.Value.(*ssa.Function); ok {
						valueUse[f] = "closure stored in map " + mapName(x.Map)
					}
				case *ssa.Call:
					if cal := x.Common().StaticCallee(); cal != nil {
						callers[cal] = append(callers[cal], fn)
					}
					if x.Common().IsInvoke() {
						for _, f := range implsOf(x.Common()) {
							callers[f] = append(callers[f], fn)
						}
					}
					for _, a := range x.Common().Args {
						if mc, ok := a.(*ssa.MakeClosure); ok {
							if f, ok := mc.Fn.(*ssa.Function); ok {
								valueUse[f] = "closure passed to " + calleeDesc(x.Common())
							}
						}
						if f, ok := a.(*ssa.Function); ok {
							valueUse[f] = "function passed to " + calleeDesc(x.Common())
						}
					}
				case *ssa.Go:
					if cal := x.Call.StaticCallee(); cal != nil {
						goTargets[cal] = true
					}
				case *ssa.Defer:
					if cal := x.Call.StaticCallee(); cal != nil {
						callers[cal] = append(callers[cal], fn)
					}
				case *ssa.Store:
					if mc, ok := x.Val.(*ssa.MakeClosure); ok {
						if f, ok := mc.Fn.(*ssa.Function); ok {
							valueUse[f] = "closure stored to " + pathOf(x.Addr)
						}
					}
				case *ssa.MakeClosure:
					// bound later
				}
			}
		}
	}
	var reqFns []*ssa.Function
	for fn := range ls.req {
		reqFns = append(reqFns, fn)
	}
	sort.Slice(reqFns, func(i, j int) bool { return QName(reqFns[i]) < QName(reqFns[j]) })
	nReq := 0
	for _, fn := range reqFns {
		nReq++
		name := QName(fn)
		why := ls.req[fn]
		justified, hasJ := ls.HeldAtEntry[shortKey(name)]
		if !hasJ {
			if vu, ok := valueUse[fn]; ok {
				justified, hasJ = ls.HeldAtEntry[vu]
				if !hasJ {
					// generic: "closure passed to <callee>"
					for k, v := range ls.HeldAtEntry {
						if strings.HasPrefix(k, "closure ") && strings.HasPrefix(vu, k) {
							justified, hasJ = v, true
						}
					}
				}
			}
		}
		isRoot := false
		reason := ""
		switch {
		case goTargets[fn]:
			isRoot, reason = true, "it is started as a goroutine"
		case fn.Parent() == nil && fn.Object() != nil && fn.Object().Exported() && isExportedRecv(fn):
			isRoot, reason = true, "it is an exported entry point"
		case len(callers[fn]) == 0:
			if vu, ok := valueUse[fn]; ok {
				isRoot, reason = true, "it is used as a value ("+vu+") so its calling context is unknown"
			} else if fn.Parent() != nil {
				isRoot, reason = true, "it is a closure whose call sites are not static"
			} else {
				isRoot, reason = true, "it has no static caller in the module"
			}
		}
		if !isRoot {
			continue
		}
		ok := hasJ
		detail := ""
		if !ok {
			detail = fmt.Sprintf("%s needs the mutex (%s) but %s, and no calling context is documented", shortQ(name), why, reason)
		} else {
			c.Note("%s: %s runs with the mutex held: %s", ls.Rule, shortQ(name), justified)
		}
		c.Ob(ls.Rule, fn, "function requiring the mutex is entered only with it held", c.P.Pos(fn.Pos()), ok, detail)
	}
	c.Note("%s: %d functions require the mutex at entry", ls.Rule, nReq)
}

func shortKey(q string) string { return strings.ReplaceAll(q, modPath, "p") }

func calleeDesc(cc *ssa.CallCommon) string {
	ci := infoOfCommon(cc)
	if ci.QName != "" {
		return shortKey(ci.QName)
	}
	return "dynamic " + pathOf(cc.Value)
}

func isExportedRecv(fn *ssa.Function) bool {
	if fn.Signature.Recv() == nil {
		return true
	}
	if n := namedOf(fn.Signature.Recv().Type()); n != nil {
		return n.Obj().Exported()
	}
	return false
}

// dbMuMatchers builds Lock/Unlock matchers for the sync.Mutex embedded in the
// anonymous struct DB.mu.
func dbMuMatchers(c *Ctx, rule string) (lock, unlock M, muType types.Type) {
	muField := c.Field(rule, "p.DB.mu")
	muType = muField.Type()
	isDBMu := func(recv ssa.Value) bool {
		// receiver is &x.mu.Mutex (embedded) : FieldAddr(Mutex) of FieldAddr(mu)
		v := recv
		for i := 0; i < 3; i++ {
			fa, ok := v.(*ssa.FieldAddr)
			if !ok {
				return false
			}
			pt, ok := fa.X.Type().Underlying().(*types.Pointer)
			if ok && types.Identical(pt.Elem(), muType) {
				return true
			}
			v = fa.X
		}
		return false
	}
	mk := func(name string) M {
		return M{Desc: "DB.mu." + name, F: func(in ssa.Instruction) bool {
			cc := getCallCommon(in)
			if cc == nil {
				return false
			}
			ci := infoOfCommon(cc)
			if ci.Short != name || ci.Recv == nil || !strings.HasPrefix(ci.QName, "sync.(*Mutex)") {
				return false
			}
			return isDBMu(ci.Recv)
		}}
	}
	return mk("Lock"), mk("Unlock"), muType
}

// mapName names a map value: the global it is stored into, if any.
func mapName(v ssa.Value) string {
	if v.Referrers() != nil {
		for _, r := range *v.Referrers() {
			if st, ok := r.(*ssa.Store); ok && st.Val == v {
				if g, ok := st.Addr.(*ssa.Global); ok {
					return g.Name()
				}
			}
		}
	}
	return pathOf(v)
}

// pkgFuncs returns the source functions (closures included) of one package.
func pkgFuncs(c *Ctx, path string) []*ssa.Function {
	var out []*ssa.Function
	for _, fn := range c.P.AllFuncs {
		top := TopLevel(fn)
		if top.Pkg == nil || top.Pkg.Pkg.Path() != path || fn.Origin() != nil {
			continue
		}
		if fn.Synthetic != "" && fn.Parent() == nil {
			continue
		}
		out = append(out, fn)
	}
	return out
}

// mutexIn builds matchers for Lock/Unlock (names) on a sync.Mutex / sync.RWMutex that is the
// field muField, or is embedded in the struct that is the field muField.
func mutexIn(muField *types.Var, names ...string) M {
	set := map[string]bool{}
	for _, n := range names {
		set[n] = true
	}
	return M{Desc: muField.Name() + "." + strings.Join(names, "|"), F: func(in ssa.Instruction) bool {
		cc := getCallCommon(in)
		if cc == nil {
			return false
		}
		ci := infoOfCommon(cc)
		if !set[ci.Short] || ci.Recv == nil || !(strings.HasPrefix(ci.QName, "sync.(*Mutex)") || strings.HasPrefix(ci.QName, "sync.(*RWMutex)")) {
			return false
		}
		recv := ci.Recv
		for i := 0; i < 4; i++ {
			recv = throughSingleStoreCell(recv)
			fa, ok := recv.(*ssa.FieldAddr)
			if !ok {
				return false
			}
			if fieldVar(fa.X.Type(), fa.Field) == muField {
				return true
			}
			recv = fa.X
		}
		return false
	}}
}

// throughSingleStoreCell: a load from a local cell (a captured local such as `f := &w.flusher`)
// that is stored exactly once denotes the stored value.
func throughSingleStoreCell(v ssa.Value) ssa.Value {
	u, ok := v.(*ssa.UnOp)
	if !ok || u.Op != token.MUL {
		return v
	}
	var cell ssa.Value = u.X
	if fv, ok := cell.(*ssa.FreeVar); ok {
		if b := freeVarBinding(fv); b != nil {
			cell = b
		}
	}
	al, ok := cell.(*ssa.Alloc)
	if !ok || al.Referrers() == nil {
		return v
	}
	var only ssa.Value
	n := 0
	for _, r := range *al.Referrers() {
		if st, ok := r.(*ssa.Store); ok && st.Addr == ssa.Value(al) {
			only = st.Val
			n++
		}
	}
	if n == 1 {
		return only
	}
	return v
}

// fieldSites: accesses (address-of) to any of the given fields.
func fieldSites(desc string, fields ...*types.Var) func(in ssa.Instruction) (string, bool) {
	set := map[*types.Var]bool{}
	for _, f := range fields {
		set[f] = true
	}
	return func(in ssa.Instruction) (string, bool) {
		fa, ok := in.(*ssa.FieldAddr)
		if !ok {
			return "", false
		}
		if f := fieldVar(fa.X.Type(), fa.Field); f != nil && set[f] {
			return "access to " + desc + "." + f.Name(), true
		}
		return "", false
	}
}

// countSites counts protected sites in funcs.
func countSites(funcs []*ssa.Function, site func(in ssa.Instruction) (string, bool)) int {
	n := 0
	for _, fn := range funcs {
		for _, b := range fn.Blocks {
			for _, in := range b.Instrs {
				if _, ok := site(in); ok {
					n++
				}
			}
		}
	}
	return n
}

// ---------------------------------------------------------------------------
// Lock balance: every function leaves a mutex as it found it. The analysis tracks, per
// path, the function's net effect on one mutex relative to its entry: 0 (as found), +1
// (acquired, not yet released), -1 (released, to be re-acquired: a function called with the
// mutex held that drops it around a blocking operation). Lock: -1→0, 0→+1; Unlock: +1→0,
// 0→-1. A deferred Unlock (direct, or inside a deferred closure) counts at every return
// after its registration. A return at a definite non-zero level is reported unless the
// function is listed as handing the mutex over on purpose. Joins of different levels are
// "unknown" and stay silent: the rule decides only what it can see on every path.
// ---------------------------------------------------------------------------

type lockLevel int8

const (
	lvlUnreached lockLevel = -128
	lvlUnknown   lockLevel = 127
)

func joinLvl(a, b lockLevel) lockLevel {
	switch {
	case a == lvlUnreached:
		return b
	case b == lvlUnreached:
		return a
	case a == b:
		return a
	}
	return lvlUnknown
}

type balanceState struct {
	lvl      lockLevel
	deferred int8 // net effect of the deferred lock operations registered so far (-1 per deferred Unlock, +1 per deferred Lock); 120 = unknown
}

func joinBal(a, b balanceState) balanceState {
	if a.lvl == lvlUnreached {
		return b
	}
	if b.lvl == lvlUnreached {
		return a
	}
	r := balanceState{lvl: joinLvl(a.lvl, b.lvl), deferred: a.deferred}
	if a.deferred != b.deferred {
		r.deferred = 120
	}
	return r
}

// LockBalance checks fn for one mutex. isLock / isUnlock match Call, Defer instructions;
// closures deferred by fn that contain an unlock count as deferred unlocks. It returns the
// obligations (returns) examined.
func (c *Ctx) LockBalance(rule string, fn *ssa.Function, isLock, isUnlock M, what string, handover map[string]string) int {
	return c.lockBalance(rule, fn, isLock, isUnlock, what, handover, nil, nil)
}

// lockBalance is LockBalance with callee summaries: summ gives the net effect of a static callee
// that hands the mutex over on all its paths (a "…LockedAndUnlock" helper); when collect is
// non-nil the per-return levels are recorded there instead of being reported.
func (c *Ctx) lockBalance(rule string, fn *ssa.Function, isLock, isUnlock M, what string, handover map[string]string,
	summ map[*ssa.Function]int, collect map[*ssa.Function][]int) int {
	if len(fn.Blocks) == 0 {
		return 0
	}
	// a closure that its parent defers is accounted for in the parent (deferredDelta)
	if par := fn.Parent(); par != nil {
		for _, b := range par.Blocks {
			for _, in := range b.Instrs {
				if d, ok := in.(*ssa.Defer); ok {
					if mc, ok := d.Call.Value.(*ssa.MakeClosure); ok && mc.Fn == ssa.Value(fn) {
						return 0
					}
				}
			}
		}
	}
	touches := false
	// deferredDelta: the effect a deferred call has on the mutex when it runs at exit:
	// -1 for a deferred Unlock (directly or in a closure), +1 for a deferred Lock
	// (`d.mu.Unlock(); defer d.mu.Lock()` in a function entered with the mutex held).
	deferredDelta := func(d *ssa.Defer) int {
		deferAsCall = true
		du, dl := isUnlock.F(d), isLock.F(d)
		deferAsCall = false
		switch {
		case du:
			return -1
		case dl:
			return +1
		}
		if mc, ok := d.Call.Value.(*ssa.MakeClosure); ok {
			if cf, ok := mc.Fn.(*ssa.Function); ok {
				nu, nl := 0, 0
				deferAsCall = true // count the closure's own deferred operations too
				for _, b := range cf.Blocks {
					for _, in := range b.Instrs {
						if isUnlock.F(in) {
							nu++
						}
						if isLock.F(in) {
							nl++
						}
					}
				}
				deferAsCall = false
				switch {
				case nu > 0 && nl == 0:
					return -1
				case nl > 0 && nu == 0:
					return +1
				}
			}
		}
		return 0
	}
	deferredUnlockIn := func(d *ssa.Defer) bool { return deferredDelta(d) != 0 }
	for _, b := range fn.Blocks {
		for _, in := range b.Instrs {
			if isLock.F(in) || isUnlock.F(in) {
				touches = true
			}
			if call, ok := in.(*ssa.Call); ok && summ != nil {
				if cal := call.Common().StaticCallee(); cal != nil {
					if _, has := summ[cal]; has {
						touches = true
					}
				}
			}
			if d, ok := in.(*ssa.Defer); ok && deferredUnlockIn(d) {
				touches = true
			}
		}
	}
	if !touches {
		return 0
	}
	in := map[*ssa.BasicBlock]balanceState{}
	out := map[*ssa.BasicBlock]balanceState{}
	for _, b := range fn.Blocks {
		in[b] = balanceState{lvl: lvlUnreached}
		out[b] = balanceState{lvl: lvlUnreached}
	}
	step := func(s balanceState, ins ssa.Instruction) balanceState {
		if s.lvl == lvlUnreached {
			return s
		}
		if isTerminatorCall(ins) {
			return balanceState{lvl: lvlUnreached}
		}
		if _, isPanic := ins.(*ssa.Panic); isPanic {
			return balanceState{lvl: lvlUnreached}
		}
		if d, ok := ins.(*ssa.Defer); ok {
			if dd := deferredDelta(d); dd != 0 && s.deferred > -100 && s.deferred < 100 {
				s.deferred += int8(dd)
			}
			return s
		}
		if _, ok := ins.(*ssa.Call); !ok {
			return s
		}
		if s.lvl == lvlUnknown {
			return s
		}
		if isLock.F(ins) {
			s.lvl++
		} else if isUnlock.F(ins) {
			s.lvl--
		} else if call, ok := ins.(*ssa.Call); ok && summ != nil {
			if cal := call.Common().StaticCallee(); cal != nil {
				if d, has := summ[cal]; has {
					s.lvl += lockLevel(d)
				}
			}
		}
		if s.lvl > 2 || s.lvl < -2 {
			s.lvl = lvlUnknown
		}
		return s
	}
	for changed, iter := true, 0; changed && iter < 100; iter++ {
		changed = false
		for _, b := range fn.Blocks {
			var s balanceState
			if b == fn.Blocks[0] {
				s = balanceState{lvl: 0}
			} else if b == fn.Recover {
				s = balanceState{lvl: lvlUnreached}
			} else {
				s = balanceState{lvl: lvlUnreached}
				for _, p := range b.Preds {
					s = joinBal(s, out[p])
				}
			}
			o := s
			for _, ins := range b.Instrs {
				o = step(o, ins)
			}
			if in[b] != s || out[b] != o {
				in[b], out[b] = s, o
				changed = true
			}
		}
	}
	n := 0
	key := shortKey(QName(TopLevel(fn)))
	for _, b := range fn.Blocks {
		if b == fn.Recover || len(b.Instrs) == 0 {
			continue
		}
		ret, ok := b.Instrs[len(b.Instrs)-1].(*ssa.Return)
		if !ok {
			continue
		}
		s := in[b]
		for _, ins := range b.Instrs[:len(b.Instrs)-1] {
			s = step(s, ins)
		}
		if s.lvl == lvlUnreached {
			continue
		}
		n++
		if s.lvl == lvlUnknown || s.deferred == 120 {
			if collect != nil {
				collect[fn] = append(collect[fn], 99)
				continue
			}
			c.Ob(rule, fn, what, c.P.Pos(ret.Pos()), true, "") // undecided on this path: silent by design
			continue
		}
		final := int(s.lvl) + int(s.deferred)
		if collect != nil {
			collect[fn] = append(collect[fn], final)
			continue
		}
		okk := final == 0
		detail := ""
		if !okk {
			if why, has := handover[key]; has {
				okk = true
				c.Note("%s: %s hands the mutex over on purpose: %s", rule, key, why)
			} else if final > 0 {
				detail = "the function returns with the mutex still held (acquired here and not released on this path): the next acquirer blocks forever"
			} else {
				detail = "the function releases the mutex once more than it acquired it on this path (a caller that still believes it holds the mutex races, or sync.Mutex panics on unlock of an unlocked mutex)"
			}
		}
		pos := ret.Pos()
		if !pos.IsValid() {
			pos = fn.Pos()
		}
		c.Ob(rule, fn, what, c.P.Pos(pos), okk, detail)
	}
	return n
}

// LockBalanceAll runs the lock-balance rule for one mutex over funcs. Unexported functions that
// change the mutex by the same non-zero amount on every return and have static callers are
// hand-over helpers ("…LockedAndUnlock"): their effect is applied at their call sites and the
// callers are checked instead.
func (c *Ctx) LockBalanceAll(rule string, funcs []*ssa.Function, isLock, isUnlock M, what string, handover map[string]string) int {
	idx := c.P.callIndex()
	summ := map[*ssa.Function]int{}
	for round := 0; round < 3; round++ {
		collect := map[*ssa.Function][]int{}
		for _, fn := range funcs {
			c.lockBalance(rule, fn, isLock, isUnlock, what, handover, summ, collect)
		}
		changed := false
		for fn, lv := range collect {
			if len(lv) == 0 || lv[0] == 0 || lv[0] == 99 {
				continue
			}
			same := true
			for _, x := range lv {
				if x != lv[0] {
					same = false
				}
			}
			obj := fn.Object()
			if !same || fn.Parent() != nil || obj == nil || obj.Exported() || idx.valueRef[fn] || len(idx.callers[fn]) == 0 {
				continue
			}
			if _, has := summ[fn]; !has {
				summ[fn] = lv[0]
				changed = true
				c.Note("%s: %s changes the mutex by %+d on every return: treated as a hand-over helper, its callers are checked", rule, shortQ(QName(fn)), lv[0])
			}
		}
		if !changed {
			break
		}
	}
	n := 0
	for _, fn := range funcs {
		if _, isHelper := summ[fn]; isHelper {
			continue
		}
		n += c.lockBalance(rule, fn, isLock, isUnlock, what, handover, summ, nil)
	}
	return n
}
