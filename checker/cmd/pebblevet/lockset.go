package main

import (
	"fmt"
	"go/token"
	"go/types"
	"sort"
	"strings"

	"golang.org/x/tools/go/ssa"
)

// ---------------------------------------------------------------------------
// E10 LOCKSET for one mutex (DB.mu): protected sites must execute with the
// mutex held. Intra-procedural must-analysis ("held" fact: Lock gens, Unlock
// kills, cond.Wait is identity) + bottom-up "requires held at entry" summaries
// over static callees (closures included). A function that requires the mutex
// and is reachable without it — an exported entry point, a goroutine body, or
// a callback whose calling context is not in the justified table — is reported.
// ---------------------------------------------------------------------------

type LockSet struct {
	c        *Ctx
	Rule     string
	IsLock   M
	IsUnlock M
	Site     func(in ssa.Instruction) (string, bool) // protected site and its description
	Funcs    []*ssa.Function
	// HeldAtEntry: functions (qualified names, closures as parent$N or by
	// "closure passed to X") documented to run with the mutex held.
	HeldAtEntry map[string]string
	req         map[*ssa.Function]string // function -> first reason it requires the mutex
}

type lockSiteReport struct {
	fn   *ssa.Function
	in   ssa.Instruction
	desc string
}

// analyse returns (sites not held assuming entry NOT held, sites not held even assuming entry held).
func (ls *LockSet) analyse(fn *ssa.Function, extraSite func(ssa.Instruction) (string, bool)) (needEntry, never []lockSiteReport) {
	run := func(entryHeld bool) []lockSiteReport {
		fl := NewFlow(ls.c.P).After("held", ls.IsLock).KillAfter("held", ls.IsUnlock)
		fl.MaxDepth = 0 // summaries are handled by the requires-held propagation
		entry := emptyState()
		if entryHeld {
			entry.add("held")
		}
		res := fl.Analyze(fn, entry)
		var out []lockSiteReport
		for _, b := range fn.Blocks {
			res.transfer(b, res.in[b], func(in ssa.Instruction, s State) {
				if !s.Reachable() || s.has("held") {
					return
				}
				if d, ok := ls.Site(in); ok {
					out = append(out, lockSiteReport{fn, in, d})
					return
				}
				if extraSite != nil {
					if d, ok := extraSite(in); ok {
						out = append(out, lockSiteReport{fn, in, d})
					}
				}
			})
		}
		return out
	}
	return run(false), run(true)
}

func (ls *LockSet) Run() {
	c := ls.c
	ls.req = map[*ssa.Function]string{}
	fnSet := map[*ssa.Function]bool{}
	for _, f := range ls.Funcs {
		fnSet[f] = true
	}
	// calls into requires-held functions are sites too
	// interface dispatch: concrete methods among Funcs by (name, receiver implements iface)
	implsOf := func(cc *ssa.CallCommon) []*ssa.Function {
		var out []*ssa.Function
		it, ok := cc.Value.Type().Underlying().(*types.Interface)
		if !ok {
			return nil
		}
		for _, f := range ls.Funcs {
			if f.Parent() != nil || f.Signature.Recv() == nil || f.Name() != cc.Method.Name() {
				continue
			}
			if types.Implements(f.Signature.Recv().Type(), it) {
				out = append(out, f)
			}
		}
		return out
	}
	callSite := func(in ssa.Instruction) (string, bool) {
		call, ok := in.(*ssa.Call)
		if !ok {
			return "", false
		}
		if call.Common().IsInvoke() {
			for _, f := range implsOf(call.Common()) {
				if why, ok := ls.req[f]; ok {
					return "interface call reaching " + shortQ(QName(f)) + " (needs the mutex: " + why + ")", true
				}
			}
			return "", false
		}
		callee := call.Common().StaticCallee()
		if callee == nil {
			return "", false
		}
		if why, ok := ls.req[callee]; ok {
			return "call of " + shortQ(QName(callee)) + " (needs the mutex: " + why + ")", true
		}
		return "", false
	}
	definite := map[string]lockSiteReport{}
	for iter := 0; iter < 30; iter++ {
		changed := false
		for _, fn := range ls.Funcs {
			need, never := ls.analyse(fn, callSite)
			for _, r := range never {
				// not held even if the caller holds it: released before the site
				definite[c.P.Pos(r.in.Pos())+r.desc] = r
			}
			if len(need) > 0 {
				if _, ok := ls.req[fn]; !ok {
					ls.req[fn] = need[0].desc + " at " + c.P.Pos(need[0].in.Pos())
					changed = true
				}
			}
		}
		if !changed {
			break
		}
	}
	// definite violations
	var keys []string
	for k := range definite {
		keys = append(keys, k)
	}
	sort.Strings(keys)
	for _, k := range keys {
		r := definite[k]
		c.Ob(ls.Rule, r.fn, "protected access with the mutex held: "+r.desc, c.P.Pos(r.in.Pos()), false,
			"the mutex is released (or never taken) on a path to this access even if the caller holds it")
	}
	// roots: requires-held functions that can be entered without the mutex
	callers := map[*ssa.Function][]*ssa.Function{}
	goTargets := map[*ssa.Function]bool{}
	valueUse := map[*ssa.Function]string{} // closure/function used as a value: description of the consumer
	for _, fn := range c.P.AllFuncs {
		for _, b := range fn.Blocks {
			for _, in := range b.Instrs {
				switch x := in.(type) {
				case *ssa.MapUpdate:
					if mc, ok := x.Value.(*ssa.MakeClosure); ok {
						if f, ok := mc.Fn.(*ssa.Function); ok {
							valueUse[f] = "closure stored in map " + mapName(x.Map)
						}
					}
					if f, ok := x.Value.(*ssa.Function); ok {
						valueUse[f] = "closure stored in map " + mapName(x.Map)
					}
				case *ssa.Call:
					if cal := x.Common().StaticCallee(); cal != nil {
						callers[cal] = append(callers[cal], fn)
					}
					if x.Common().IsInvoke() {
						for _, f := range implsOf(x.Common()) {
							callers[f] = append(callers[f], fn)
						}
					}
					for _, a := range x.Common().Args {
						if mc, ok := a.(*ssa.MakeClosure); ok {
							if f, ok := mc.Fn.(*ssa.Function); ok {
								valueUse[f] = "closure passed to " + calleeDesc(x.Common())
							}
						}
						if f, ok := a.(*ssa.Function); ok {
							valueUse[f] = "function passed to " + calleeDesc(x.Common())
						}
					}
				case *ssa.Go:
					if cal := x.Call.StaticCallee(); cal != nil {
						goTargets[cal] = true
					}
				case *ssa.Defer:
					if cal := x.Call.StaticCallee(); cal != nil {
						callers[cal] = append(callers[cal], fn)
					}
				case *ssa.Store:
					if mc, ok := x.Val.(*ssa.MakeClosure); ok {
						if f, ok := mc.Fn.(*ssa.Function); ok {
							valueUse[f] = "closure stored to " + pathOf(x.Addr)
						}
					}
				case *ssa.MakeClosure:
					// bound later
				}
			}
		}
	}
	var reqFns []*ssa.Function
	for fn := range ls.req {
		reqFns = append(reqFns, fn)
	}
	sort.Slice(reqFns, func(i, j int) bool { return QName(reqFns[i]) < QName(reqFns[j]) })
	nReq := 0
	for _, fn := range reqFns {
		nReq++
		name := QName(fn)
		why := ls.req[fn]
		justified, hasJ := ls.HeldAtEntry[shortKey(name)]
		if !hasJ {
			if vu, ok := valueUse[fn]; ok {
				justified, hasJ = ls.HeldAtEntry[vu]
				if !hasJ {
					// generic: "closure passed to <callee>"
					for k, v := range ls.HeldAtEntry {
						if strings.HasPrefix(k, "closure ") && strings.HasPrefix(vu, k) {
							justified, hasJ = v, true
						}
					}
				}
			}
		}
		isRoot := false
		reason := ""
		switch {
		case goTargets[fn]:
			isRoot, reason = true, "it is started as a goroutine"
		case fn.Parent() == nil && fn.Object() != nil && fn.Object().Exported() && isExportedRecv(fn):
			isRoot, reason = true, "it is an exported entry point"
		case len(callers[fn]) == 0:
			if vu, ok := valueUse[fn]; ok {
				isRoot, reason = true, "it is used as a value ("+vu+") so its calling context is unknown"
			} else if fn.Parent() != nil {
				isRoot, reason = true, "it is a closure whose call sites are not static"
			} else {
				isRoot, reason = true, "it has no static caller in the module"
			}
		}
		if !isRoot {
			continue
		}
		ok := hasJ
		detail := ""
		if !ok {
			detail = fmt.Sprintf("%s needs the mutex (%s) but %s, and no calling context is documented", shortQ(name), why, reason)
		} else {
			c.Note("%s: %s runs with the mutex held: %s", ls.Rule, shortQ(name), justified)
		}
		c.Ob(ls.Rule, fn, "function requiring the mutex is entered only with it held", c.P.Pos(fn.Pos()), ok, detail)
	}
	c.Note("%s: %d functions require the mutex at entry", ls.Rule, nReq)
}

func shortKey(q string) string { return strings.ReplaceAll(q, modPath, "p") }

func calleeDesc(cc *ssa.CallCommon) string {
	ci := infoOfCommon(cc)
	if ci.QName != "" {
		return shortKey(ci.QName)
	}
	return "dynamic " + pathOf(cc.Value)
}

func isExportedRecv(fn *ssa.Function) bool {
	if fn.Signature.Recv() == nil {
		return true
	}
	if n := namedOf(fn.Signature.Recv().Type()); n != nil {
		return n.Obj().Exported()
	}
	return false
}

// dbMuMatchers builds Lock/Unlock matchers for the sync.Mutex embedded in the
// anonymous struct DB.mu.
func dbMuMatchers(c *Ctx, rule string) (lock, unlock M, muType types.Type) {
	muField := c.Field(rule, "p.DB.mu")
	muType = muField.Type()
	isDBMu := func(recv ssa.Value) bool {
		// receiver is &x.mu.Mutex (embedded) : FieldAddr(Mutex) of FieldAddr(mu)
		v := recv
		for i := 0; i < 3; i++ {
			fa, ok := v.(*ssa.FieldAddr)
			if !ok {
				return false
			}
			pt, ok := fa.X.Type().Underlying().(*types.Pointer)
			if ok && types.Identical(pt.Elem(), muType) {
				return true
			}
			v = fa.X
		}
		return false
	}
	mk := func(name string) M {
		return M{Desc: "DB.mu." + name, F: func(in ssa.Instruction) bool {
			cc := getCallCommon(in)
			if cc == nil {
				return false
			}
			ci := infoOfCommon(cc)
			if ci.Short != name || ci.Recv == nil || !strings.HasPrefix(ci.QName, "sync.(*Mutex)") {
				return false
			}
			return isDBMu(ci.Recv)
		}}
	}
	return mk("Lock"), mk("Unlock"), muType
}

// mapName names a map value: the global it is stored into, if any.
func mapName(v ssa.Value) string {
	if v.Referrers() != nil {
		for _, r := range *v.Referrers() {
			if st, ok := r.(*ssa.Store); ok && st.Val == v {
				if g, ok := st.Addr.(*ssa.Global); ok {
					return g.Name()
				}
			}
		}
	}
	return pathOf(v)
}

// pkgFuncs returns the source functions (closures included) of one package.
func pkgFuncs(c *Ctx, path string) []*ssa.Function {
	var out []*ssa.Function
	for _, fn := range c.P.AllFuncs {
		top := TopLevel(fn)
		if top.Pkg == nil || top.Pkg.Pkg.Path() != path || fn.Origin() != nil {
			continue
		}
		if fn.Synthetic != "" && fn.Parent() == nil {
			continue
		}
		out = append(out, fn)
	}
	return out
}

// mutexIn builds matchers for Lock/Unlock (names) on a sync.Mutex / sync.RWMutex that is the
// field muField, or is embedded in the struct that is the field muField.
func mutexIn(muField *types.Var, names ...string) M {
	set := map[string]bool{}
	for _, n := range names {
		set[n] = true
	}
	return M{Desc: muField.Name() + "." + strings.Join(names, "|"), F: func(in ssa.Instruction) bool {
		cc := getCallCommon(in)
		if cc == nil {
			return false
		}
		ci := infoOfCommon(cc)
		if !set[ci.Short] || ci.Recv == nil || !(strings.HasPrefix(ci.QName, "sync.(*Mutex)") || strings.HasPrefix(ci.QName, "sync.(*RWMutex)")) {
			return false
		}
		recv := ci.Recv
		for i := 0; i < 4; i++ {
			recv = throughSingleStoreCell(recv)
			fa, ok := recv.(*ssa.FieldAddr)
			if !ok {
				return false
			}
			if fieldVar(fa.X.Type(), fa.Field) == muField {
				return true
			}
			recv = fa.X
		}
		return false
	}}
}

// throughSingleStoreCell: a load from a local cell (a captured local such as `f := &w.flusher`)
// that is stored exactly once denotes the stored value.
func throughSingleStoreCell(v ssa.Value) ssa.Value {
	u, ok := v.(*ssa.UnOp)
	if !ok || u.Op != token.MUL {
		return v
	}
	var cell ssa.Value = u.X
	if fv, ok := cell.(*ssa.FreeVar); ok {
		if b := freeVarBinding(fv); b != nil {
			cell = b
		}
	}
	al, ok := cell.(*ssa.Alloc)
	if !ok || al.Referrers() == nil {
		return v
	}
	var only ssa.Value
	n := 0
	for _, r := range *al.Referrers() {
		if st, ok := r.(*ssa.Store); ok && st.Addr == ssa.Value(al) {
			only = st.Val
			n++
		}
	}
	if n == 1 {
		return only
	}
	return v
}

// fieldSites: accesses (address-of) to any of the given fields.
func fieldSites(desc string, fields ...*types.Var) func(in ssa.Instruction) (string, bool) {
	set := map[*types.Var]bool{}
	for _, f := range fields {
		set[f] = true
	}
	return func(in ssa.Instruction) (string, bool) {
		fa, ok := in.(*ssa.FieldAddr)
		if !ok {
			return "", false
		}
		if f := fieldVar(fa.X.Type(), fa.Field); f != nil && set[f] {
			return "access to " + desc + "." + f.Name(), true
		}
		return "", false
	}
}

// countSites counts protected sites in funcs.
func countSites(funcs []*ssa.Function, site func(in ssa.Instruction) (string, bool)) int {
	n := 0
	for _, fn := range funcs {
		for _, b := range fn.Blocks {
			for _, in := range b.Instrs {
				if _, ok := site(in); ok {
					n++
				}
			}
		}
	}
	return n
}
