package main

import (
	"fmt"

	"golang.org/x/tools/go/ssa"
)

func init() {
	register("C44", []string{"./valsep", "./sstable/blob", "./sstable/valblk", "./sstable"}, runC44)
	propExplain["C44"] = "Decides structural necessary conditions of C44 (byte-identity of the values themselves is value-level): (V1) the blob handle that the value separator writes into the sstable is assembled from the handle returned by the blob writer's AddValue for THAT value (block id, value id, length) and from the reference id of the same writer; a preserved reference keeps the decoded suffix and length of the handle it was read from; (K1, shared with C27) the one-block caches of the value fetchers (value blocks, blob files) name a block only after that block's verified read succeeded, and the sstable data-block iterator returns invalid, untouched or initialised from the block its handle names — otherwise a failed read is followed by values served from the previously loaded block. Does not decide the varint codec of handles, blob-file rewrites, or crash behaviour."
	propTechnique["C44"] = "SSA value provenance of the handle literal's fields; must-facts dataflow (cache-tag coherence)"
}

// handleFieldSources: for the call of AddWithBlobHandle in fn, the values stored into the fields of
// the InlineHandle literal passed to it, by field name (nested structs flattened).
func handleFieldSources(fn *ssa.Function) (map[string][]ssa.Value, *ssa.Call) {
	for _, in := range instrs(fn, MethodOn("AddWithBlobHandle", "")) {
		call, ok := in.(*ssa.Call)
		if !ok {
			continue
		}
		for _, a := range call.Common().Args {
			ld, ok := a.(*ssa.UnOp)
			if !ok {
				continue
			}
			al, ok := ld.X.(*ssa.Alloc)
			if !ok {
				continue
			}
			out := map[string][]ssa.Value{}
			var walk func(addr ssa.Value, d int)
			walk = func(addr ssa.Value, d int) {
				if d > 4 || addr.Referrers() == nil {
					return
				}
				for _, r := range *addr.Referrers() {
					switch x := r.(type) {
					case *ssa.FieldAddr:
						if x.X == addr {
							walk(x, d+1)
						}
					case *ssa.Store:
						if x.Addr == addr {
							if fa, ok := addr.(*ssa.FieldAddr); ok {
								if f := fieldVar(fa.X.Type(), fa.Field); f != nil {
									out[f.Name()] = append(out[f.Name()], x.Val)
								}
							}
						}
					}
				}
			}
			walk(al, 0)
			if len(out) > 0 {
				return out, call
			}
		}
	}
	return nil, nil
}

func runC44(c *Ctx) {
	runC27K1(c)
	// V1a: a separated value
	if fn := c.Fn("C44.V1", "valsep.(*ValueSeparator).separateValue"); fn != nil {
		src, call := handleFieldSources(fn)
		if call == nil {
			c.Unresolved("C44.V1", "InlineHandle literal passed to AddWithBlobHandle not found in separateValue")
		} else {
			addValue := CallPred("AddValue", "blob")
			for _, f := range []string{"ValueLen", "BlockID", "ValueID"} {
				ok := len(src[f]) > 0
				for _, v := range src[f] {
					if len(derivesFrom(v, addValue, 5)) == 0 {
						ok = false
					}
				}
				c.Ob("C44.V1", fn, fmt.Sprintf("handle field %s comes from the handle AddValue returned for this value", f), c.P.Pos(call.Pos()), ok,
					map[bool]string{true: "", false: "the field is not (only) derived from the result of FileWriter.AddValue in this function: the sstable would point at another value"}[ok])
			}
			// the reference id is the one of the writer that received the value
			okRef := len(src["ReferenceID"]) > 0
			var writerOwner ssa.Value
			for _, in := range instrs(fn, CallTo("blob.(*FileWriter).AddValue")) {
				recv := stripConv(in.(*ssa.Call).Common().Args[0]) // load of wnm.fileWriter
				if ld, ok := recv.(*ssa.UnOp); ok {
					if fa, ok := ld.X.(*ssa.FieldAddr); ok {
						writerOwner = fa.X
					}
				}
			}
			for _, v := range src["ReferenceID"] {
				good := false
				if ld, ok := stripConv(v).(*ssa.UnOp); ok {
					if fa, ok := ld.X.(*ssa.FieldAddr); ok && writerOwner != nil && fa.X == writerOwner {
						good = true
					}
				}
				if !good {
					okRef = false
				}
			}
			c.Ob("C44.V1", fn, "the handle's reference id is that of the writer the value was appended to", c.P.Pos(call.Pos()), okRef,
				map[bool]string{true: "", false: "ReferenceID is not read from the same writer-and-metadata value whose fileWriter received AddValue"}[okRef])
		}
	}
	// V1b: a preserved reference
	if fn := c.Fn("C44.V1", "valsep.(*ValueSeparator).preserveBlobReference"); fn != nil {
		src, call := handleFieldSources(fn)
		if call == nil {
			c.Unresolved("C44.V1", "InlineHandle literal passed to AddWithBlobHandle not found in preserveBlobReference")
		} else {
			lazy := CallPred("LazyValue", "")
			okS := len(src["HandleSuffix"]) > 0
			for _, v := range src["HandleSuffix"] {
				if len(derivesFrom(v, CallPred("DecodeHandleSuffix", "blob"), 4)) == 0 || len(derivesFrom(v, lazy, 8)) == 0 {
					okS = false
				}
			}
			c.Ob("C44.V1", fn, "a preserved reference keeps the suffix decoded from the handle it was read from", c.P.Pos(call.Pos()), okS, "")
			okL := len(src["ValueLen"]) > 0
			for _, v := range src["ValueLen"] {
				if len(derivesFrom(v, lazy, 8)) == 0 || !pathHasSuffix(pathOf(v), "ValueLen") {
					okL = false
				}
			}
			c.Ob("C44.V1", fn, "a preserved reference keeps the value length recorded with the handle it was read from", c.P.Pos(call.Pos()), okL, "")
		}
	}
}
