package main

import (
	"fmt"
	"strings"

	"golang.org/x/tools/go/ssa"
)

// Step is one link of an ordering chain.
type Step struct {
	Name   string   // fact base name
	M      M        // instructions constituting the step
	Gated  bool     // later steps need this step's nil-error edge (⊢) rather than mere execution (≺)
	Unless []string // facts (from extra Edge/After specs) that excuse this step's requirement on its predecessor
	// MayBeAbsent: the step is not a mechanism; if nothing matches, the chain
	// simply skips it (used for alternative forms).
	MayBeAbsent bool
}

func (st Step) fact() string {
	if st.Gated {
		return "ok:" + st.Name
	}
	return "did:" + st.Name
}

// Chain checks, in fn, that every instruction of step i is reached only after
// step i-1 (executed, or returned nil if gated). extra may carry additional
// generator specs (guards); it may be nil.
func (c *Ctx) Chain(rule string, fn *ssa.Function, extra *Flow, steps ...Step) *FnResult {
	if fn == nil {
		return nil
	}
	fl := extra
	if fl == nil {
		fl = NewFlow(c.P)
	}
	for _, st := range steps {
		if st.Gated {
			fl.Ok("ok:"+st.Name, st.M)
		} else {
			fl.After("did:"+st.Name, st.M)
		}
	}
	res := fl.Analyze(fn, emptyState())
	c.noteFlow(fl)
	prev := -1
	for i, st := range steps {
		n := 0
		st := st
		n = res.At(st.M, func(in ssa.Instruction, s State) {
			if prev < 0 {
				return
			}
			c.CallSites++
			if !s.Reachable() {
				return
			}
			need := steps[prev].fact()
			ok := s.has(need)
			for _, u := range st.Unless {
				if s.has(u) {
					ok = true
				}
			}
			what := fmt.Sprintf("%s %s %s", steps[prev].Name, map[bool]string{true: "⊢", false: "≺"}[steps[prev].Gated], st.Name)
			detail := ""
			if !ok {
				detail = fmt.Sprintf("%s is reachable on a path where %q does not hold (state %s); required by %s", st.M.Desc, need, s, steps[prev].M.Desc)
			}
			c.Ob(rule, fn, what, c.P.Pos(in.Pos()), ok, detail)
		})
		if n == 0 {
			if st.MayBeAbsent {
				continue
			}
			if i == len(steps)-1 && i > 0 {
				c.Unresolved(rule, fmt.Sprintf("target step %q (%s) not found in %s", st.Name, st.M.Desc, QName(fn)))
			} else {
				c.Ob(rule, fn, "step "+st.Name+" present", c.P.Pos(fn.Pos()), false,
					fmt.Sprintf("mechanism step %q (%s) no longer occurs in %s", st.Name, st.M.Desc, QName(fn)))
			}
			continue
		}
		if i == 0 {
			c.Ob(rule, fn, "step "+st.Name+" present", c.P.Pos(fn.Pos()), true, "")
		}
		prev = i
	}
	return res
}

func (c *Ctx) noteFlow(fl *Flow) {
	for f := range fl.FuncsAnalysed {
		c.Funcs[QName(f)] = true
	}
}

// RequireAtSuccess checks that every possibly-successful return of the
// analysed function holds all of the facts (or one of the excuses).
func (c *Ctx) RequireAtSuccess(rule string, res *FnResult, what string, facts []string, unless ...string) {
	if res == nil {
		return
	}
	rs := res.SuccessReturns()
	if len(rs) == 0 {
		c.Unresolved(rule, "no successful return found in "+QName(res.Fn))
		return
	}
	for _, r := range rs {
		ok := true
		var missing []string
		for _, f := range facts {
			if !r.State.has(f) {
				ok = false
				missing = append(missing, f)
			}
		}
		for _, u := range unless {
			if r.State.has(u) {
				ok = true
			}
		}
		detail := ""
		if !ok {
			detail = fmt.Sprintf("a return with a possibly nil error is reachable without %s (state %s)", strings.Join(missing, ","), r.State)
		}
		c.Ob(rule, res.Fn, "ret✓ passes "+what, c.P.Pos(r.Pos), ok, detail)
	}
}

// Require checks that every instruction matching m holds all of the facts.
func (c *Ctx) Require(rule string, res *FnResult, m M, what string, facts []string, unless ...string) int {
	if res == nil {
		return 0
	}
	n := res.At(m, func(in ssa.Instruction, s State) {
		c.CallSites++
		if !s.Reachable() {
			return
		}
		ok := true
		var missing []string
		for _, f := range facts {
			if !s.has(f) {
				ok = false
				missing = append(missing, f)
			}
		}
		for _, u := range unless {
			if s.has(u) {
				ok = true
			}
		}
		detail := ""
		if !ok {
			detail = fmt.Sprintf("%s reachable without %s (state %s)", m.Desc, strings.Join(missing, ","), s)
		}
		c.Ob(rule, res.Fn, what, c.P.Pos(in.Pos()), ok, detail)
	})
	return n
}

// dumpFlow prints block states for debugging.
func dumpFlow(p *Program, res *FnResult) {
	for _, b := range res.Fn.Blocks {
		fmt.Printf("  block %d in=%s out=%s\n", b.Index, res.in[b], res.out[b])
		for _, in := range b.Instrs {
			if v, ok := in.(ssa.Value); ok {
				fmt.Printf("      %s = %s   [%s]\n", v.Name(), in.String(), p.Pos(in.Pos()))
			} else {
				fmt.Printf("      %s   [%s]\n", in.String(), p.Pos(in.Pos()))
			}
		}
	}
}
