package main

import (
	"go/token"

	"golang.org/x/tools/go/ssa"
)

func init() {
	register("C06", []string{"."}, runC06)
	register("C07", []string{"."}, runC07)
	propExplain["C06"] = "Decides the ordering/ownership clause of C06 in the commit pipeline: a batch is published only through the nil-error edges of prepare and apply; a large (flushable) batch receives its sequence number before it is queued where flushes and readers can find it; the applied flag is set before the publisher dequeues; only publish advances the visible sequence number (by CAS) and marks a batch applied; only the pipeline applies batches to memtables. Also (O4) memTable.apply links a batch's range deletions and range keys into their skiplists before it invalidates the memtable's cached fragments, and does invalidate them. Does not decide the lock-free queue's interleavings."
	propExplain["C07"] = "Decides the sequencing clause of C07: sequence-number allocation, enqueueing and the WAL write happen in that order inside one commitPipeline.mu region (WAL order = seqnum order = queue order); only the pipeline and Open/recovery write logSeqNum; the visible sequence number is ratcheted (CAS only on the false edge of new <= cur) and a committer is released only after the publish loop advanced it; Commit does not return before publish; a batch is marked applied only by publish (C06.W1, shared: the ratchet advances over every queued batch carrying the mark); logSeqNum — the next number to assign — is read only by the sequencing side (memtable rotation, version edits, Open), never to pick a read sequence number (V1). Does not decide the SPMC queue interleavings."
}

func runC06(c *Ctx) {
	// C06.O1a
	if fn := c.Fn("C06.O1a", "p.(*commitPipeline).Commit"); fn != nil {
		c.Chain("C06.O1a", fn, nil,
			Step{Name: "prepare", M: CallTo("p.(*commitPipeline).prepare"), Gated: true},
			Step{Name: "env.apply", M: DynCall("env.apply"), Gated: true},
			Step{Name: "publish", M: CallTo("p.(*commitPipeline).publish")},
		)
	}
	// C06.O1b
	if fn := c.Fn("C06.O1b", "p.(*commitPipeline).AllocateSeqNum"); fn != nil {
		c.Chain("C06.O1b", fn, nil,
			Step{Name: "prepare(seqNum)", M: DynCall(ParamName(fn, 2))},
			Step{Name: "mu.Unlock", M: MethodOn("Unlock", "recv.mu")},
			Step{Name: "apply(seqNum)", M: DynCall(ParamName(fn, 3))},
			Step{Name: "publish", M: CallTo("p.(*commitPipeline).publish")},
		)
	}
	// C06.O2
	if fn := c.Fn("C06.O2", "p.(*DB).commitWrite"); fn != nil {
		fl := NewFlow(c.P).Edge("seqnum-set|not-flushable", ZeroGuard("flushable"))
		c.Chain("C06.O2", fn, fl,
			Step{Name: "flushable.setSeqNum", M: CallTo("p.(*flushableBatch).setSeqNum"), Also: "seqnum-set|not-flushable", Free: true},
			Step{Name: "makeRoomForWrite", M: Reaching(CallTo("p.(*DB).makeRoomForWrite"), 2), Need: []string{"seqnum-set|not-flushable"}},
		)
	}
	// C06.O3
	if fn := c.Fn("C06.O3", "p.(*commitPipeline).publish"); fn != nil {
		c.Chain("C06.O3", fn, nil,
			Step{Name: "applied.Store(true)", M: AtomicOp(c.Field("C06.O3", "p.Batch.applied"), "Store")},
			Step{Name: "dequeueApplied", M: CallTo("p.(*commitQueue).dequeueApplied")},
		)
	}
	// C06.O4: memTable.apply links a batch's range deletions / range keys into their skiplists
	// BEFORE it invalidates the memtable's cached fragments. The other order lets a reader rebuild
	// (and cache, until the next invalidation) a fragment set that lacks part of the batch, which is
	// then still missing after the batch is published.
	if fn := c.Fn("C06.O4", "p.(*memTable).apply"); fn != nil {
		for _, sp := range []struct{ cache, skl string }{{"rangeKeys", "rangeKeySkl"}, {"tombstones", "rangeDelSkl"}} {
			inv := MethodOn("invalidate", "recv."+sp.cache)
			add := MethodOn("Add", "recv."+sp.skl)
			fact := sp.cache + "-not-invalidated-yet"
			fl := NewFlow(c.P).KillAfter(fact, inv)
			entry := emptyState()
			entry.add(fact)
			res := fl.Analyze(fn, entry)
			c.noteFlow(fl)
			n := c.Require("C06.O4", res, add, sp.skl+".Add precedes "+sp.cache+".invalidate", []string{fact})
			if n == 0 {
				c.Unresolved("C06.O4", "no "+sp.skl+".Add in memTable.apply")
			}
			c.Ob("C06.O4", fn, "apply invalidates the cached "+sp.cache+" fragments", c.P.Pos(fn.Pos()), len(instrs(fn, inv)) > 0,
				"memTable.apply no longer invalidates "+sp.cache+": readers keep a fragment cache that lacks newly applied keys")
		}
	}
	// C06.W1
	c.Who("C06.W1", Or(MethodOn("Store", "visibleSeqNum"), MethodOn("Add", "visibleSeqNum"), MethodOn("Swap", "visibleSeqNum")),
		"visibleSeqNum is stored only at Open", "p.Open")
	c.Who("C06.W1", MethodOn("CompareAndSwap", "visibleSeqNum"), "visibleSeqNum advanced only by publish", "p.(*commitPipeline).publish")
	appliedOnlyByPublish(c)
	// C06.W2
	c.Who("C06.W2", FuncRef("p.(*memTable).apply"), "memtables are written only by the commit pipeline and WAL replay", "p.(*DB).commitApply", "p.(*DB).replayWAL")
	c.Who("C06.W2", FuncRef("p.(*commitPipeline).Commit"), "Commit is entered only through applyInternal", "p.(*DB).applyInternal")
	c.Who("C06.W2", FuncRef("p.(*DB).applyInternal"), "applyInternal only from Apply/ApplyNoSyncWait", "p.(*DB).Apply", "p.(*DB).ApplyNoSyncWait")
	c.Who("C06.W2", FuncRef("p.(*DB).commitApply", "p.(*DB).commitWrite"), "commitApply/commitWrite are only installed as the pipeline's environment", "p.Open")
}

// appliedOnlyByPublish (C06.W1, shared with C07): publish ratchets the visible sequence number
// over every queued batch that is marked applied, so nothing else may set that mark.
func appliedOnlyByPublish(c *Ctx) {
	c.Who("C06.W1", Pred("applied.Store(true)", func(in ssa.Instruction) bool {
		if !AtomicOp(c.Field("C06.W1", "p.Batch.applied"), "Store").F(in) {
			return false
		}
		cc := getCallCommon(in)
		if cc == nil || len(cc.Args) < 2 {
			return false
		}
		k, ok := cc.Args[len(cc.Args)-1].(*ssa.Const)
		return ok && k.Value != nil && k.Value.String() == "true"
	}), "a batch is marked applied only by publish", "p.(*commitPipeline).publish")
}

func runC07(c *Ctx) {
	appliedOnlyByPublish(c)
	// C07.V1: logSeqNum is the next sequence number to ASSIGN; it runs ahead of what has been
	// applied and published. Only the sequencing side reads it (the memtable rotation that stamps a
	// new memtable, the version edit's LastSeqNum, Open/recovery). A reader that takes its sequence
	// number from it sees batches that are sequenced but not yet applied (C03-c and C07-c are both
	// this one-token slip: visibleSeqNum -> logSeqNum).
	c.Who("C07.V1", MethodOn("Load", "logSeqNum"), "logSeqNum is read only by the sequencing side, never to pick a read sequence number",
		"p.(*DB).makeRoomForWrite", "p.Open", "p.(*versionSet).UpdateVersionLocked")
	lockM := MethodOn("Lock", "recv.mu")
	unlockM := MethodOn("Unlock", "recv.mu")
	// C07.R1
	if fn := c.Fn("C07.R1", "p.(*commitPipeline).prepare"); fn != nil {
		fl := NewFlow(c.P).After("held:commit.mu", lockM).KillAfter("held:commit.mu", unlockM)
		res := c.Chain("C07.R1", fn, fl,
			Step{Name: "pending.enqueue", M: CallTo("p.(*commitQueue).enqueue")},
			Step{Name: "logSeqNum.Add", M: MethodOn("Add", "logSeqNum")},
			Step{Name: "env.write", M: DynCall("env.write")},
		)
		for _, m := range []M{CallTo("p.(*commitQueue).enqueue"), MethodOn("Add", "logSeqNum"), DynCall("env.write")} {
			c.Require("C07.R1", res, m, m.Desc+" under commitPipeline.mu", []string{"held:commit.mu"})
		}
	}
	if fn := c.Fn("C07.R1", "p.(*commitPipeline).AllocateSeqNum"); fn != nil {
		fl := NewFlow(c.P).After("held:commit.mu", lockM).KillAfter("held:commit.mu", unlockM)
		res := c.Chain("C07.R1", fn, fl,
			Step{Name: "pending.enqueue", M: CallTo("p.(*commitQueue).enqueue")},
			Step{Name: "logSeqNum.Add", M: MethodOn("Add", "logSeqNum")},
			Step{Name: "prepare(seqNum)", M: DynCall(ParamName(fn, 2))},
		)
		for _, m := range []M{CallTo("p.(*commitQueue).enqueue"), MethodOn("Add", "logSeqNum"), DynCall(ParamName(fn, 2))} {
			c.Require("C07.R1", res, m, m.Desc+" under commitPipeline.mu", []string{"held:commit.mu"})
		}
	}
	// C07.W1
	c.Who("C07.W1", Or(MethodOn("Add", "logSeqNum"), MethodOn("Store", "logSeqNum"), MethodOn("Swap", "logSeqNum"), MethodOn("CompareAndSwap", "logSeqNum")),
		"logSeqNum written only by the pipeline and Open/recovery",
		"p.(*commitPipeline).prepare", "p.(*commitPipeline).AllocateSeqNum", "p.Open", "p.(*versionSet).init", "p.(*versionSet).initRecoveredDB")
	// C07.O1: ratchet
	if fn := c.Fn("C07.O1", "p.(*commitPipeline).publish"); fn != nil {
		fl := NewFlow(c.P).
			Edge("new>cur", func(v ssa.Value) (bool, bool) {
				bo, ok := v.(*ssa.BinOp)
				if !ok {
					return false, false
				}
				isCur := func(x ssa.Value) bool { return MethodOn("Load", "visibleSeqNum").F(instrOf(x)) }
				isNew := func(x ssa.Value) bool {
					b2, ok := x.(*ssa.BinOp)
					return ok && b2.Op == token.ADD && len(derivesFrom(b2, CallPred("SeqNum", ""), 3)) > 0 && len(derivesFrom(b2, CallPred("Count", ""), 3)) > 0
				}
				switch {
				case isNew(bo.X) && isCur(bo.Y):
					switch bo.Op {
					case token.GTR:
						return true, false
					case token.LEQ:
						return true, true
					}
				case isCur(bo.X) && isNew(bo.Y):
					switch bo.Op {
					case token.LSS:
						return true, false
					case token.GEQ:
						return true, true
					}
				}
				return false, false
			}).
			After("did:dequeue", CallTo("p.(*commitQueue).dequeueApplied")).
			IterationLocal("new>cur")
		res := fl.Analyze(fn, emptyState())
		c.noteFlow(fl)
		n := c.Require("C07.O1", res, MethodOn("CompareAndSwap", "visibleSeqNum"), "visible seqnum only moves forward (CAS only where new > cur)", []string{"new>cur"})
		if n == 0 {
			c.Unresolved("C07.O1", "visibleSeqNum.CompareAndSwap not found in publish")
		}
		// the CAS arguments are (cur, new): old value = the loaded current value
		for _, in := range instrs(fn, MethodOn("CompareAndSwap", "visibleSeqNum")) {
			args := in.(*ssa.Call).Common().Args
			ok := len(args) == 3 && MethodOn("Load", "visibleSeqNum").F(instrOf(args[1]))
			c.Ob("C07.O1", fn, "CAS expects the value just loaded", c.P.Pos(in.Pos()), ok, "")
		}
		// t.commit.Done only after the ratchet loop for t
		c.Chain("C07.O1", fn, nil,
			Step{Name: "visibleSeqNum.Load", M: MethodOn("Load", "visibleSeqNum")},
			Step{Name: "t.commit.Done", M: MethodOn("Done", "commit")},
		)
	}
	// C07.O2
	if fn := c.Fn("C07.O2", "p.(*commitPipeline).Commit"); fn != nil {
		res := c.Chain("C07.O2", fn, nil,
			Step{Name: "publish", M: CallTo("p.(*commitPipeline).publish")},
			Step{Name: "<-commitQueueSem", M: RecvFrom("commitQueueSem")},
		)
		fl := NewFlow(c.P).After("did:publish", CallTo("p.(*commitPipeline).publish")).Edge("empty", BoolGuard("Empty()", true))
		res = fl.Analyze(fn, emptyState())
		c.RequireAtSuccess("C07.O2", res, "publish", []string{"did:publish"}, "empty")
	}
}
