package main

import (
	"golang.org/x/tools/go/ssa"
)

func init() {
	register("C05", []string{"."}, runC05)
	propExplain["C05"] = "Decides two structural necessary conditions of C05 (the overlay semantics themselves are value-level): (I1) every batch mutator that appends a record through prepareDeferredKeyRecord / prepareDeferredKeyValueRecord and hands out the deferred operation has, on every path on which the batch is indexed, assigned the index the finished record is to be inserted into (deferredOp.index) — a mutator that leaves the previous operation's index in place files the record under the wrong index or not at all, and reads through the indexed batch miss it; (K2, shared with C04) every mutator that inserts into the range-deletion / range-key index has cleared the batch's cached fragments of that kind, so iterators created or refreshed afterwards see the new range operations. (S1) every absolute positioning method (SeekGE, SeekPrefixGE, SeekLT, First, Last) of the two batch iterators (batchIter, flushableBatchIter) assigns the iterator's prefix gate on every path — Next() hides keys outside a gate left behind by an earlier SeekPrefixGE, so a sibling that forgets to reset it makes the batch level drop out of the merged view after a direction change. Does not decide the merged view's ordering (SeqNumBatchBit), nor that uncommitted mutations never reach the DB."
	propTechnique["C05"] = "SSA must-facts dataflow over the Batch mutators (index assignment on all indexed paths; cache invalidation before index insertion)"
}

func runC05(c *Ctx) {
	runC04K2(c)
	runC05S1(c)
	deferredIndexF := c.Field("C05.I1", "p.DeferredBatchOp.index")
	batchIndexF := c.Field("C05.I1", "p.batchInternal.index")
	prep := CallTo("p.(*Batch).prepareDeferredKeyRecord", "p.(*Batch).prepareDeferredKeyValueRecord")
	assign := StoreTo(deferredIndexF)
	unindexed := func(v ssa.Value) (bool, bool) {
		bo, ok := v.(*ssa.BinOp)
		if !ok {
			return false, false
		}
		var x ssa.Value
		switch {
		case isNilConst(bo.Y):
			x = bo.X
		case isNilConst(bo.X):
			x = bo.Y
		default:
			return false, false
		}
		if !isLoadOfField(x, batchIndexF) {
			return false, false
		}
		// fact holds where b.index == nil
		return true, bo.Op.String() == "!="
	}
	n := 0
	for _, fn := range pebbleFuncs(c) {
		if fn.Parent() != nil || len(instrs(fn, prep)) == 0 {
			continue
		}
		// only mutators that hand the deferred operation out (or finish it themselves) matter:
		// LogData / ingestSST / excise records are never indexed and never finished.
		usesIndex := false
		for _, b := range fn.Blocks {
			for _, in := range b.Instrs {
				switch x := in.(type) {
				case *ssa.Return:
					for _, r := range x.Results {
						if fa, ok := r.(*ssa.FieldAddr); ok && fieldVar(fa.X.Type(), fa.Field) != nil && fieldVar(fa.X.Type(), fa.Field).Name() == "deferredOp" {
							usesIndex = true
						}
					}
				case *ssa.FieldAddr:
					if fieldVar(x.X.Type(), x.Field) == deferredIndexF {
						usesIndex = true
					}
				}
			}
		}
		if !usesIndex {
			continue
		}
		fl := NewFlow(c.P).
			KillAfter("index-decided", prep).
			After("index-decided", assign).
			Edge("index-decided", unindexed)
		fl.MaxDepth = 2
		entry := emptyState()
		entry.add("index-decided")
		res := fl.Analyze(fn, entry)
		c.noteFlow(fl)
		n += c.Require("C05.I1", res, AnyReturn, "the index for the appended record is assigned on every indexed path", []string{"index-decided"})
	}
	if n < 8 {
		c.Unresolved("C05.I1", "fewer than 8 returns of deferred batch mutators found")
	}
}

// runC05S1 (added after seed C05-b): sibling agreement on the prefix gate. SeekPrefixGE arms
// i.prefix; Next() returns nil for a key outside it ("this level is exhausted for the prefix").
// Every other absolute repositioning must disarm it. The instances (2 types x 5 methods) are the
// methods of base.InternalIterator that position absolutely; all ten store the field today.
func runC05S1(c *Ctx) {
	n := 0
	for _, typ := range []string{"batchIter", "flushableBatchIter"} {
		f := c.Field("C05.S1", "p."+typ+".prefix")
		if f == nil {
			continue
		}
		for _, m := range []string{"SeekGE", "SeekPrefixGE", "SeekLT", "First", "Last"} {
			fn := c.Fn("C05.S1", "p.(*"+typ+")."+m)
			if fn == nil {
				continue
			}
			fl := NewFlow(c.P).After("prefix-gate-assigned", StoreTo(f))
			fl.MaxDepth = 2 // SeekPrefixGE positions through SeekGE
			res := fl.Analyze(fn, emptyState())
			c.noteFlow(fl)
			n += c.Require("C05.S1", res, AnyReturn, "an absolute repositioning (re)assigns the prefix gate that Next() applies", []string{"prefix-gate-assigned"})
		}
	}
	if n < 10 {
		c.Unresolved("C05.S1", "fewer than 10 returns of absolute positioning methods of the batch iterators found")
	}
}
