package main

import (
	"fmt"
	"go/token"

	"golang.org/x/tools/go/ssa"
)

// ---------------------------------------------------------------------------
// A small bounds prover for decode helpers (C31.B1): every non-constant bound
// of a slice expression S[lo:hi] must be justified by a dominating comparison
// against len(S) of the SAME slice value: e == x with x <= len(S), e == x+1
// with x < len(S), a constant not above a proven lower bound of len(S), or a
// phi of justified values. Loads of S[c] for constant c are identified with
// each other (the slice is not written in these functions).
// ---------------------------------------------------------------------------

type boundKey struct {
	v   ssa.Value
	idx string
}

func canonKey(v ssa.Value) boundKey {
	v = stripAllConv(v)
	if u, ok := v.(*ssa.UnOp); ok && u.Op == token.MUL {
		if ia, ok := u.X.(*ssa.IndexAddr); ok {
			if k, isK := constInt(ia.Index); isK {
				return boundKey{stripAllConv(ia.X), fmt.Sprintf("[%d]", k)}
			}
		}
	}
	return boundKey{v, ""}
}

func stripAllConv(v ssa.Value) ssa.Value {
	for i := 0; i < 8; i++ {
		switch x := v.(type) {
		case *ssa.Convert:
			v = x.X
		case *ssa.ChangeType:
			v = x.X
		default:
			return v
		}
	}
	return v
}

func lenOf(v ssa.Value) ssa.Value {
	v = stripAllConv(v)
	call, ok := v.(*ssa.Call)
	if !ok {
		return nil
	}
	if b, ok := call.Common().Value.(*ssa.Builtin); ok && b.Name() == "len" && len(call.Common().Args) == 1 {
		return call.Common().Args[0]
	}
	return nil
}

type boundFacts struct {
	le map[boundKey]bool // x <= len(S)
	lt map[boundKey]bool // x <  len(S)
	lb int64             // len(S) >= lb
}

// factsFor collects what the dominating branches prove about S at block b.
func factsFor(S ssa.Value, b *ssa.BasicBlock) boundFacts {
	f := boundFacts{le: map[boundKey]bool{}, lt: map[boundKey]bool{}}
	child := b
	for d := b.Idom(); d != nil; child, d = d, d.Idom() {
		if len(d.Instrs) == 0 {
			continue
		}
		ifi, ok := d.Instrs[len(d.Instrs)-1].(*ssa.If)
		if !ok || len(d.Succs) != 2 || d.Succs[0] == d.Succs[1] {
			continue
		}
		// The branch outcome is known at b only if exactly one successor of d
		// dominates b through an edge that is that successor's only way in.
		var branch bool
		s0 := d.Succs[0].Dominates(b) && len(d.Succs[0].Preds) == 1
		s1 := d.Succs[1].Dominates(b) && len(d.Succs[1].Preds) == 1
		switch {
		case s0 && !s1:
			branch = true
		case s1 && !s0:
			branch = false
		default:
			continue
		}
		_ = child
		bo, ok := ifi.Cond.(*ssa.BinOp)
		if !ok {
			continue
		}
		op := bo.Op
		if !branch {
			neg := map[token.Token]token.Token{token.LSS: token.GEQ, token.GEQ: token.LSS, token.GTR: token.LEQ, token.LEQ: token.GTR, token.EQL: token.NEQ, token.NEQ: token.EQL}
			n, has := neg[op]
			if !has {
				continue
			}
			op = n
		}
		L, R := bo.X, bo.Y
		// normalise to "x OP len(S)" or "len(S) OP const"
		if lenOf(L) != nil && lenOf(R) == nil {
			if s := lenOf(L); s == S {
				if k, isK := constInt(R); isK {
					switch op {
					case token.GTR:
						if k+1 > f.lb {
							f.lb = k + 1
						}
					case token.GEQ:
						if k > f.lb {
							f.lb = k
						}
					case token.NEQ:
						if k == 0 && f.lb < 1 {
							f.lb = 1
						}
					}
					continue
				}
				// len(S) OP x  ==>  x OP' len(S)
				mirror := map[token.Token]token.Token{token.LSS: token.GTR, token.GTR: token.LSS, token.LEQ: token.GEQ, token.GEQ: token.LEQ}
				if m, has := mirror[op]; has {
					L, R, op = R, L, m
				} else {
					continue
				}
			} else {
				continue
			}
		}
		if s := lenOf(R); s != nil && s == S {
			switch op {
			case token.LSS:
				f.lt[canonKey(L)] = true
				f.le[canonKey(L)] = true
			case token.LEQ:
				f.le[canonKey(L)] = true
			}
		}
	}
	return f
}

func boundJustified(e ssa.Value, f boundFacts, depth int) bool {
	if depth > 4 {
		return false
	}
	if k, ok := constInt(e); ok {
		return k <= f.lb
	}
	if f.le[canonKey(e)] {
		return true
	}
	switch x := stripAllConv(e).(type) {
	case *ssa.BinOp:
		if x.Op == token.ADD {
			for _, pair := range [][2]ssa.Value{{x.X, x.Y}, {x.Y, x.X}} {
				if k, ok := constInt(pair[1]); ok {
					if k == 0 && f.le[canonKey(pair[0])] {
						return true
					}
					if k == 1 && f.lt[canonKey(pair[0])] {
						return true
					}
				}
			}
		}
	case *ssa.Phi:
		for _, ed := range x.Edges {
			if !boundJustified(ed, f, depth+1) {
				return false
			}
		}
		return len(x.Edges) > 0
	}
	return false
}

// checkSliceBounds reports every slice expression of fn whose bound is not justified.
func (c *Ctx) checkSliceBounds(rule string, fn *ssa.Function) int {
	n := 0
	for _, b := range fn.Blocks {
		for _, in := range b.Instrs {
			sl, ok := in.(*ssa.Slice)
			if !ok {
				continue
			}
			if _, isArr := sl.X.(*ssa.Alloc); isArr {
				continue // slicing a local array
			}
			n++
			f := factsFor(sl.X, b)
			okAll := true
			var bad string
			for _, e := range []ssa.Value{sl.Low, sl.High} {
				if e == nil {
					continue
				}
				if !boundJustified(e, f, 0) {
					okAll = false
					bad = pathOf(e)
				}
			}
			c.Ob(rule, fn, "slice bound is proven against len() of the same slice", c.P.Pos(in.Pos()), okAll,
				map[bool]string{true: "", false: "the bound " + bad + " of this slice expression is not covered by a dominating comparison with len() of the slice being sliced: malformed input can panic with 'slice bounds out of range'"}[okAll])
		}
	}
	return n
}
