package main

import "golang.org/x/tools/go/ssa"

func init() {
	register("C38", []string{".", "./record"}, runC38)
	propExplain["C38"] = "Decides the capture clause of C38 in DB.Checkpoint: file deletions are disabled before anything is captured and re-enabled by a deferred call; the current version, the MANIFEST size, the list of WALs, the queue of flushable ingests and the visible sequence number are all captured inside ONE region in which both DB.mu and the manifest lock are held, and the version is referenced before that region ends (released by a deferred Unref); with flushWAL the WAL is synced before the capture; success is returned only after the checkpoint directory was synced. The MANIFEST copy stops at err == io.EOF: no function below record.Reader.Next (its sticky error field included) returns a wrapped error (error identity). Does not decide the contents of restricted-span checkpoints (value-level)."
	propTechnique["C38"] = "SSA lock-region dataflow (two locks), ordering, resource pairing, error-identity (no-wrap) check"
}

func runC38(c *Ctx) {
	fn := c.Fn("C38.O1", "p.(*DB).Checkpoint")
	if fn == nil {
		return
	}
	lock, unlock, _ := dbMuMatchers(c, "C38.O1")
	fl := NewFlow(c.P)
	fl.MaxDepth = 0 // callees lock and unlock DB.mu in balanced pairs; only this function's own region matters
	fl.
		After("held:DB.mu", lock).KillAfter("held:DB.mu", unlock).
		After("held:manifest", CallTo("p.(*versionSet).logLock")).KillAfter("held:manifest", CallTo("p.(*versionSet).logUnlock")).
		After("deletions-disabled", CallTo("p.(*DB).disableFileDeletions")).
		After("did:LogData", CallTo("p.(*DB).LogData")).
		Edge("wal-flushed|not-requested", BoolGuard("flushWAL", false)).
		Edge("wal-flushed|not-requested", BoolGuard("opts.DisableWAL", true)).
		Ok("wal-flushed|not-requested", CallTo("p.(*DB).LogData"))
	res := fl.Analyze(fn, emptyState())
	c.noteFlow(fl)
	need := []string{"held:DB.mu", "held:manifest", "deletions-disabled", "wal-flushed|not-requested"}
	caps := []struct {
		name string
		m    M
	}{
		{"current version", CallTo("p.(*versionSet).currentVersion")},
		{"MANIFEST size", MethodOn("Size", "versions.manifest")},
		{"WAL list", MethodOn("List", "log.manager")},
		{"visible sequence number", MethodOn("Load", "visibleSeqNum")},
		{"version reference", CallTo("man.(*Version).Ref")},
		{"blob file set", MethodOn("Metadatas", "blobFiles")},
	}
	for _, cp := range caps {
		n := c.Require("C38.O1", res, cp.m, "capture of "+cp.name+" inside the DB.mu + manifest-lock region", need)
		if n == 0 {
			c.Unresolved("C38.O1", cp.name+" capture not found in Checkpoint")
		}
	}
	// deferred re-enable and deferred Unref
	hasEnable := false
	for _, a := range fn.AnonFuncs {
		if len(instrs(a, CallTo("p.(*DB).enableFileDeletions"))) > 0 {
			hasEnable = true
		}
	}
	c.Ob("C38.P1", fn, "file deletions re-enabled by a deferred closure", c.P.Pos(fn.Pos()), hasEnable, "")
	hasUnref := len(instrs(fn, DeferTo("man.(*Version).Unref"))) > 0
	c.Ob("C38.P1", fn, "captured version released by a deferred Unref", c.P.Pos(fn.Pos()), hasUnref, "")
	// success only after the directory sync
	dirSync := And(MethodOn("Sync", ""), Pred("receiver is the directory handle returned by mkdirAllAndSyncParents", func(in ssa.Instruction) bool {
		cc := getCallCommon(in)
		if cc == nil {
			return false
		}
		ci := infoOfCommon(cc)
		return ci.Recv != nil && len(derivesFrom(ci.Recv, CallPred("mkdirAllAndSyncParents", ""), 4)) > 0
	}))
	if len(instrs(fn, dirSync)) == 0 {
		c.Unresolved("C38.O2", "no Sync on the handle returned by mkdirAllAndSyncParents in Checkpoint")
	}
	fl2 := NewFlow(c.P).Ok("ok:dir.Sync", dirSync)
	res2 := fl2.Analyze(fn, emptyState())
	c.RequireAtSuccess("C38.O2", res2, "checkpoint directory sync", []string{"ok:dir.Sync"})
	// C38.E2: the MANIFEST copy stops at `err == io.EOF` (the captured size); the record reader
	// must hand that sentinel on unwrapped, or every checkpoint fails / copies a torn tail.
	if wfn := c.Fn("C38.E2", "p.(*DB).writeCheckpointManifest"); wfn != nil {
		c.ErrIdentityIn("C38.E2", wfn, 1)
	}
}
