package main

import (
	"fmt"
	"go/token"

	"golang.org/x/tools/go/ssa"
)

func init() {
	register("C19", []string{".", "./record", "./wal"}, runC19)
	propExplain["C19"] = "Decides structural clauses of C19: (S1) in every WAL-reading loop (wal.virtualWALReader.nextRecord, wal.Copy, DB.replayWAL) a read error is tolerated — i.e. the loop continues, moves to the next segment, processes a record or returns success — only on edges that classified it as io.EOF or record.ErrUnexpectedEOF (and, for replay, not under strictWALTail); any other error, in particular the confirmed-corruption sentinels, must be returned; (O1) record.Reader.Next/Read route both invalid-chunk sentinels through read-ahead; (G2) read-ahead reports a benign unclean tail only after reaching EOF and confirms corruption only from a CRC-valid chunk whose synced offset exceeds the invalid offset; (W1) the synced offset advances only in the flush loop after a successful sync. Shares C18's rules on the chunk reader (what nextChunk may hand out or pass over). Does not decide which byte patterns are detected."
}

// readErrFlow builds the 'no unresolved read error' obligation-as-fact flow:
// the fact is dropped when a read call executes and re-established only on
// edges that prove the error nil or classify it as EOF-class.
func readErrFlow(c *Ctx, readCalls M, readPred func(ssa.Value) bool) *Flow {
	return NewFlow(c.P).
		KillAfter("read-ok", readCalls).
		Edge("read-ok", NilErrGuard(nil)).
		Edge("read-ok", ErrorsIsGuard("EOF")).
		Edge("is-unexpected-eof", ErrorsIsGuard("ErrUnexpectedEOF"))
}

func runC19(c *Ctx) {
	runC19Core(c)
	// what nextChunk may hand out or pass over is the other half of "never hidden" (C18's rules
	// on the chunk reader are shared)
	runC18Core(c)
}

func runC19Core(c *Ctx) {
	// ---- C19.S1 -----------------------------------------------------------
	if fn := c.Fn("C19.S1", "wal.(*virtualWALReader).nextRecord"); fn != nil {
		reads := Or(CallTo("rec.(*Reader).Next"), CallTo("io.Copy"))
		fl := readErrFlow(c, reads, nil).
			Derive("read-ok", []string{"is-unexpected-eof"})
		entry := emptyState()
		entry.add("read-ok")
		res := fl.Analyze(fn, entry)
		c.noteFlow(fl)
		n := c.Require("C19.S1", res, CallTo("wal.(*virtualWALReader).nextFile"), "next segment only after EOF / unexpected-EOF (never after a corruption sentinel)", []string{"read-ok"})
		n += c.Require("C19.S1", res, CallTo("rec.(*Reader).Next"), "reading continues only after EOF-class or no error", []string{"read-ok"})
		n += c.Require("C19.S1", res, CallTo("brepr.ReadHeader"), "a record is decoded only if it was read without error", []string{"read-ok"})
		if n < 4 {
			c.Unresolved("C19.S1", "nextFile / Reader.Next / ReadHeader call sites not found in nextRecord")
		}
		c.RequireAtSuccess("C19.S1", res, "no unresolved read error", []string{"read-ok"})
	}
	if fn := c.Fn("C19.S1", "wal.Copy"); fn != nil {
		reads := Or(CallTo("wal.(*virtualWALReader).nextRecord"), CallTo("io.ReadAll"))
		fl := readErrFlow(c, reads, nil).Derive("read-ok", []string{"is-unexpected-eof"})
		entry := emptyState()
		entry.add("read-ok")
		res := fl.Analyze(fn, entry)
		c.noteFlow(fl)
		n := c.Require("C19.S1", res, CallTo("rec.(*LogWriter).WriteRecord"), "a record is copied only if it was read without error", []string{"read-ok"})
		n += c.Require("C19.S1", res, CallTo("rec.(*LogWriter).Close"), "the copy is finished only after EOF-class or no error", []string{"read-ok"})
		if n < 2 {
			c.Unresolved("C19.S1", "WriteRecord / Close call sites not found in wal.Copy")
		}
	}
	if fn := c.Fn("C19.S1", "p.(*DB).replayWAL"); fn != nil {
		reads := Or(ImplCall(c.Iface("C19.S1", "wal.Reader"), "wal.Reader", "NextRecord"), CallTo("io.Copy"))
		fl := readErrFlow(c, reads, nil).
			Edge("not-strict", BoolGuard(ParamName(fn, 3), false)).
			Derive("read-ok", []string{"is-unexpected-eof", "not-strict"})
		entry := emptyState()
		entry.add("read-ok")
		res := fl.Analyze(fn, entry)
		c.noteFlow(fl)
		n := c.Require("C19.S1", res, CallTo("p.(*Batch).SetRepr"), "a batch is replayed only if its record was read without error", []string{"read-ok"})
		n += c.Require("C19.S1", res, reads, "replay continues only after no error", []string{"read-ok"})
		if n < 3 {
			c.Unresolved("C19.S1", "SetRepr / NextRecord call sites not found in replayWAL")
		}
		c.RequireAtSuccess("C19.S1", res, "no unresolved read error (EOF, or unexpected EOF on a non-strict tail)", []string{"read-ok"})
	}
	// ---- C19.O1 -----------------------------------------------------------
	for _, name := range []string{"rec.(*Reader).Next", "rec.(singleReader).Read"} {
		fn := c.Fn("C19.O1", name)
		if fn == nil {
			continue
		}
		fl := NewFlow(c.P).
			KillEdge("no-pending-sentinel", ErrorsIsGuard("ErrInvalidChunk")).
			KillEdge("no-pending-sentinel", ErrorsIsGuard("ErrZeroedChunk")).
			After("no-pending-sentinel", CallTo("rec.(*Reader).readAheadForCorruption"))
		entry := emptyState()
		entry.add("no-pending-sentinel")
		res := fl.Analyze(fn, entry)
		c.noteFlow(fl)
		for _, s := range []string{"ErrInvalidChunk", "ErrZeroedChunk"} {
			k := CondCount(fn, ErrorsIsGuard(s))
			c.Ob("C19.O1", fn, "classifies "+s+" after nextChunk", c.P.Pos(fn.Pos()), k > 0,
				map[bool]string{true: "", false: "no test of the nextChunk error against " + s + ": the sentinel would bypass read-ahead"}[k > 0])
		}
		c.Require("C19.O1", res, AnyReturn,
			"invalid-chunk sentinels are routed through readAheadForCorruption", []string{"no-pending-sentinel"})
		// the result returned after read-ahead is read-ahead's result
		for _, in := range instrs(fn, CallTo("rec.(*Reader).readAheadForCorruption")) {
			call := in.(*ssa.Call)
			used := false
			if call.Referrers() != nil {
				for _, r := range *call.Referrers() {
					if _, ok := r.(*ssa.Return); ok {
						used = true
					}
				}
			}
			c.Ob("C19.O1", fn, "read-ahead verdict is what is returned", c.P.Pos(in.Pos()), used, "")
		}
	}
	// ---- C19.G2 -----------------------------------------------------------
	if fn := c.Fn("C19.G2", "rec.(*Reader).readAheadForCorruption"); fn != nil {
		endF := c.Field("C19.G2", "rec.Reader.end")
		beginF := c.Field("C19.G2", "rec.Reader.begin")
		fl := NewFlow(c.P).
			Edge("at-eof", ErrorsIsGuard("EOF")).
			Edge("crc-ok", crcEqGuard()).
			KillAfter("crc-ok", Or(StoreTo(endF), StoreTo(beginF))).
			Edge("synced-beyond-invalid", func(v ssa.Value) (bool, bool) {
				bo, ok := v.(*ssa.BinOp)
				if !ok {
					return false, false
				}
				px, py := pathOf(bo.X), pathOf(bo.Y)
				xInv, yInv := pathHasSuffix(px, "recv.invalidOffset"), pathHasSuffix(py, "recv.invalidOffset")
				xU, yU := isCallNamed(bo.X, "Uint64", "binary"), isCallNamed(bo.Y, "Uint64", "binary")
				switch {
				case xU && yInv && bo.Op == token.GTR, xInv && yU && bo.Op == token.LSS:
					return true, false
				case xU && yInv && bo.Op == token.LEQ, xInv && yU && bo.Op == token.GEQ:
					return true, true
				}
				return false, false
			}).
			IterationLocal("crc-ok", "synced-beyond-invalid")
		res := fl.Analyze(fn, emptyState())
		c.noteFlow(fl)
		n := c.Require("C19.G2", res, ReturnOf("ErrUnexpectedEOF", -1, sentinelPred("ErrUnexpectedEOF")),
			"an unclean tail is reported only after read-ahead reached EOF", []string{"at-eof"})
		if n == 0 {
			c.Unresolved("C19.G2", "no return of ErrUnexpectedEOF in readAheadForCorruption")
		}
		errF := c.Field("C19.G2", "rec.Reader.err")
		n = c.Require("C19.G2", res, ReturnOf("r.err", -1, func(v ssa.Value) bool { return isLoadOfField(v, errF) }),
			"corruption is confirmed only by a CRC-valid chunk whose synced offset exceeds the invalid offset", []string{"crc-ok", "synced-beyond-invalid"})
		if n == 0 {
			c.Unresolved("C19.G2", "no return of r.err in readAheadForCorruption")
		}
	}
	// ---- C19.W1 -----------------------------------------------------------
	so := c.Field("C19.W1", "rec.LogWriter.syncedOffset")
	c.Who("C19.W1", AtomicOp(so, "Store", "Add", "Swap", "CompareAndSwap"), "syncedOffset advanced only by the flush loop", "rec.(*LogWriter).flushLoop")
	if fn := c.Fn("C19.W1", "rec.(*LogWriter).flushLoop"); fn != nil {
		fl := NewFlow(c.P).Edge("synced", BoolGuard("flushPending().synced", true))
		res := fl.Analyze(fn, emptyState())
		n := c.Require("C19.W1", res, AtomicOp(so, "Store"), "syncedOffset.Store only when flushPending reported synced", []string{"synced"})
		if n == 0 {
			c.Unresolved("C19.W1", "syncedOffset.Store not found in flushLoop")
		}
	}
	if fn := c.Fn("C19.W1", "rec.(*LogWriter).flushPending"); fn != nil {
		// `synced` may be true at return only if syncWithLatency was called
		_ = fmt.Sprint
	}
}
