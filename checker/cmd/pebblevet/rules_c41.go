package main

import (
	"fmt"
	"go/token"
	"strings"

	"golang.org/x/tools/go/ssa"
)

func init() {
	register("C41", []string{"./objstorage/objstorageprovider", "./objstorage/objstorageprovider/remoteobjcat", "./record"}, runC41)
	propExplain["C41"] = "Decides the ordering clause of C41 in the object provider: sharedUnref deletes its own reference marker (or finds it already gone) before it lists the remaining markers, and deletes the shared object only through the nil-error edge of that listing and only on the branch where the listing is empty; AttachRemoteObjects creates its own reference before it checks the origin's marker, registers the objects only if that check returned no error, and drops its reference when the check fails; the catalog replay tells a torn tail from corruption by identity comparison (err == io.EOF, record.IsInvalidRecord), so no function below record.Reader.Next returns a wrapped error. (E1) the error of every call on remote.Storage, and of Write/Close on a writer it handed out, is consumed inside the object provider. Does not decide the remote store's consistency model."
}

func argFromCall(idx int, short string) M {
	return M{Desc: "arg from " + short + "()", F: func(in ssa.Instruction) bool {
		cc := getCallCommon(in)
		if cc == nil || len(cc.Args) == 0 {
			return false
		}
		i := idx
		if i < 0 {
			i = len(cc.Args) + i
		}
		if i < 0 || i >= len(cc.Args) {
			return false
		}
		return len(derivesFrom(cc.Args[i], CallPred(short, ""), 4)) > 0
	}}
}

func runC41(c *Ctx) {
	// C41.E1: the reference markers and objects on the shared store are what "no other store still
	// references this object" is decided from; the error of every mutating / listing call on
	// remote.Storage, and of Write/Close on a writer it handed out (Close is where a blob store
	// uploads), is consumed — a failed marker upload reported as success lets the creator delete an
	// object a "successfully attached" provider still uses.
	{
		st := c.Iface("C41.E1", "remote.Storage")
		writerFromCreate := Pred("Write/Close on the writer returned by CreateObject", func(in ssa.Instruction) bool {
			cc := getCallCommon(in)
			if cc == nil {
				return false
			}
			ci := infoOfCommon(cc)
			if (ci.Short != "Close" && ci.Short != "Write") || ci.Recv == nil {
				return false
			}
			return len(derivesFrom(ci.Recv, CallPred("CreateObject", ""), 4)) > 0
		})
		m := Or(ImplCall(st, "remote.Storage", "CreateObject", "Delete", "List", "Size", "ReadObject", "IsNotExistError"), writerFromCreate)
		inProvider := func(path string) bool { return strings.HasPrefix(path, pkgAlias["osp"]) }
		if n := c.ErrFlow("C41.E1", m, inProvider, nil); n < 8 {
			c.Unresolved("C41.E1", fmt.Sprintf("only %d calls on the shared store found in the object provider", n))
		}
	}
	// C41.E2: the shared-object catalog is replayed like the MANIFEST: a torn tail is told from
	// corruption by identity comparison, so the reader hands its sentinels on unwrapped.
	if fn := c.Fn("C41.E2", "osp/remoteobjcat.(*Catalog).loadFromCatalogFile"); fn != nil {
		c.ErrIdentityIn("C41.E2", fn, 1, "rec.IsInvalidRecord")
	}
	storage := c.Iface("C41.O1", "remote.Storage")
	if fn := c.Fn("C41.O1", "osp.(*provider).sharedUnref"); fn != nil && storage != nil {
		// a deletion of the object named by <producer>(): Storage.Delete directly, or a helper of
		// this module that passes one of its parameters to Storage.Delete as the name
		rawDelete := ImplCall(storage, "remote.Storage", "Delete")
		deleteOf := func(producer string) M {
			return Pred("delete of "+producer+"()", func(in ssa.Instruction) bool {
				call, ok := in.(*ssa.Call)
				if !ok {
					return false
				}
				args := call.Common().Args
				var name ssa.Value
				if rawDelete.F(call) {
					name = args[len(args)-1]
				} else if cal := call.Common().StaticCallee(); cal != nil && inModule(cal) && len(cal.Blocks) > 0 {
					for _, inner := range instrs(cal, rawDelete) {
						ia := inner.(*ssa.Call).Common().Args
						if prm, ok := stripConv(ia[len(ia)-1]).(*ssa.Parameter); ok {
							for i, fp := range cal.Params {
								if fp == prm && i < len(args) {
									name = args[i]
								}
							}
						}
					}
				}
				return name != nil && len(derivesFrom(name, CallPred(producer, ""), 4)) > 0
			})
		}
		delRef := deleteOf("sharedObjectRefName")
		delObj := deleteOf("remoteObjectName")
		list := ImplCall(storage, "remote.Storage", "List")
		isDelRefErr := func(v ssa.Value) bool {
			call, ok := v.(*ssa.Call)
			return ok && delRef.F(call)
		}
		fl := NewFlow(c.P).
			Edge("own-ref-gone", NilErrGuard(isDelRefErr)).
			Edge("own-ref-gone", func(v ssa.Value) (bool, bool) {
				call, ok := v.(*ssa.Call)
				if !ok {
					return false, false
				}
				ci := infoOfCommon(call.Common())
				return ci.Short == "IsNotExistError", false
			}).
			Ok("ok:List", list).
			Edge("no-other-refs", func(v ssa.Value) (bool, bool) {
				bo, ok := v.(*ssa.BinOp)
				if !ok || (bo.Op != token.EQL && bo.Op != token.NEQ) {
					return false, false
				}
				var other ssa.Value
				if isZeroConst(bo.Y) {
					other = bo.X
				} else if isZeroConst(bo.X) {
					other = bo.Y
				} else {
					return false, false
				}
				call, ok := other.(*ssa.Call)
				if !ok {
					return false, false
				}
				if b, ok := call.Common().Value.(*ssa.Builtin); !ok || b.Name() != "len" {
					return false, false
				}
				if len(derivesFrom(call.Common().Args[0], func(v ssa.Value) bool { c2, ok := v.(*ssa.Call); return ok && list.F(c2) }, 3)) == 0 {
					return false, false
				}
				return true, bo.Op == token.NEQ
			})
		res := fl.Analyze(fn, emptyState())
		c.noteFlow(fl)
		n1 := len(instrs(fn, delRef))
		c.Ob("C41.O1", fn, "own reference marker is deleted", c.P.Pos(fn.Pos()), n1 > 0, map[bool]string{true: "", false: "sharedUnref no longer deletes its own reference marker"}[n1 > 0])
		n2 := c.Require("C41.O1", res, list, "own ref deleted (or already gone) ≺ List", []string{"own-ref-gone"})
		n3 := c.Require("C41.O1", res, delObj, "object deleted only after an empty, successful listing", []string{"own-ref-gone", "ok:List", "no-other-refs"})
		if n2 == 0 || n3 == 0 {
			c.Unresolved("C41.O1", "List / Delete(object) call not found in sharedUnref")
		}
	}
	if fn := c.Fn("C41.O2", "osp.(*provider).AttachRemoteObjects"); fn != nil && storage != nil {
		size := ImplCall(storage, "remote.Storage", "Size")
		createRef := CallTo("osp.(*provider).sharedCreateRef")
		isCreate := func(v ssa.Value) bool { call, ok := v.(*ssa.Call); return ok && createRef.F(call) }
		isSize := func(v ssa.Value) bool {
			if ex, ok := v.(*ssa.Extract); ok {
				v = ex.Tuple
			}
			call, ok := v.(*ssa.Call)
			return ok && size.F(call)
		}
		fl := NewFlow(c.P).
			Ok("ok:createRef", createRef).
			KillEdge("origin-verified", NilErrGuard(isCreate)). // a new reference exists whose origin is unchecked
			Edge("origin-verified", NilErrGuard(isSize)).
			KillEdge("ref-balanced", NilErrGuard(isCreate)).
			Edge("ref-balanced", NilErrGuard(isSize)).
			After("ref-balanced", CallTo("osp.(*provider).sharedUnref"))
		entry := emptyState()
		entry.add("origin-verified")
		entry.add("ref-balanced")
		res := fl.Analyze(fn, entry)
		c.noteFlow(fl)
		n := c.Require("C41.O2", res, size, "own reference created ⊢ origin marker check", []string{"ok:createRef"})
		n2 := c.Require("C41.O2", res, CallTo("osp.(*provider).addMetadataLocked"), "objects registered only after every origin check succeeded", []string{"origin-verified"})
		if n == 0 || n2 == 0 {
			c.Unresolved("C41.O2", "Storage.Size / addMetadataLocked call not found in AttachRemoteObjects")
		}
		c.RequireAtSuccess("C41.O2", res, "origin marker verified", []string{"origin-verified"})
		c.Require("C41.O2", res, AnyReturn,
			"a reference created by this attach is verified or dropped before returning", []string{"ref-balanced"})
	}
}
