package main

import (
	"fmt"
	"go/ast"
	"go/types"
	"sort"
	"strings"

	"golang.org/x/tools/go/ssa"
)

func init() {
	register("C31", []string{".", "./batchrepr"}, runC31)
	propExplain["C31"] = "Decides the table-agreement clause of C31: the set of key kinds for which the batch WRITERS emit a value (computed on every run from the constant kinds passed to the record-preparing helpers and from AddInternalKey's switch, including its default arm) equals the set for which batchrepr.Reader.Next decodes a value, and is contained in the has-value lists of the indexed-batch and flushable-batch iterators; the batch classifiers name every kind the writers can emit and reject unknown kinds with an error rather than a panic; Reader.Next rejects kinds above InternalKeyKindMax before dispatching. Does not decide varint/length arithmetic (value-level)."
}

// kindSetString renders a set of InternalKeyKind values with their names.
func kindSetString(names map[int64]string, set map[int64]bool) string {
	var ks []int64
	for k := range set {
		ks = append(ks, k)
	}
	sort.Slice(ks, func(i, j int) bool { return ks[i] < ks[j] })
	var out []string
	for _, k := range ks {
		n := names[k]
		if n == "" {
			n = fmt.Sprint(k)
		}
		out = append(out, strings.TrimPrefix(n, "InternalKeyKind"))
	}
	return "{" + strings.Join(out, ",") + "}"
}

// calleeNamesIn lists the method/function objects called (syntactically) in stmts.
func calleeNamesIn(p *types.Info, stmts []ast.Stmt) map[string]bool {
	out := map[string]bool{}
	for _, s := range stmts {
		ast.Inspect(s, func(n ast.Node) bool {
			call, ok := n.(*ast.CallExpr)
			if !ok {
				return true
			}
			switch f := call.Fun.(type) {
			case *ast.SelectorExpr:
				out[f.Sel.Name] = true
			case *ast.Ident:
				out[f.Name] = true
			}
			return true
		})
	}
	return out
}

func runC31(c *Ctx) {
	kindT := c.P.TypeByPath("base.InternalKeyKind")
	if kindT == nil {
		c.Unresolved("C31.T1", "base.InternalKeyKind not found")
		return
	}
	names := map[int64]string{}
	for _, k := range c.ConstsOfType("C31.T1", "base.InternalKeyKind") {
		if _, dup := names[k.Val]; !dup && !strings.Contains(k.Name, "Max") && !strings.Contains(k.Name, "Min") && !strings.Contains(k.Name, "Boundary") {
			names[k.Val] = k.Name
		}
	}
	// --- writer side -------------------------------------------------------
	V := map[int64]bool{} // kinds written with a value
	K := map[int64]bool{} // kinds written key-only
	collect := func(callee string, into map[int64]bool) int {
		n := 0
		for _, fn := range c.P.AllFuncs {
			if fn.Pkg == nil || fn.Pkg.Pkg.Path() != modPath {
				continue
			}
			for _, in := range instrs(fn, CallTo(callee)) {
				args := in.(*ssa.Call).Common().Args
				if v, ok := constInt(args[len(args)-1]); ok {
					into[v] = true
					n++
				}
			}
		}
		return n
	}
	nv := collect("p.(*Batch).prepareDeferredKeyValueRecord", V)
	nk := collect("p.(*Batch).prepareDeferredKeyRecord", K)
	if nv < 5 || nk < 3 {
		c.Unresolved("C31.T1", fmt.Sprintf("too few constant-kind writer call sites (value:%d key-only:%d)", nv, nk))
		return
	}
	// classifier = accepted kinds
	accepted := map[int64]bool{}
	if fn := c.Fn("C31.T2", "p.(*Batch).refreshMemTableSize"); fn != nil {
		fd, pkg := c.P.Decl(fn)
		sws := SwitchesOn(pkg, fd, kindT)
		if len(sws) != 1 {
			c.Unresolved("C31.T2", fmt.Sprintf("expected one kind switch in refreshMemTableSize, found %d", len(sws)))
		} else {
			for k := range sws[0].Cases {
				accepted[k] = true
			}
		}
	}
	// AddInternalKey: explicit arms and the default arm
	if fn := c.Fn("C31.T1", "p.(*Batch).AddInternalKey"); fn != nil {
		fd, pkg := c.P.Decl(fn)
		sws := SwitchesOn(pkg, fd, kindT)
		if len(sws) != 1 {
			c.Unresolved("C31.T1", fmt.Sprintf("expected one kind switch in AddInternalKey, found %d", len(sws)))
		} else {
			sw := sws[0]
			explicit := map[int64]bool{}
			for k, cc := range sw.Cases {
				explicit[k] = true
				calls := calleeNamesIn(pkg.TypesInfo, cc.Body)
				switch {
				case calls["prepareDeferredKeyValueRecord"]:
					V[k] = true
				case calls["prepareDeferredKeyRecord"]:
					K[k] = true
				}
			}
			if sw.Default != nil {
				calls := calleeNamesIn(pkg.TypesInfo, sw.Default.Body)
				for k := range accepted {
					if explicit[k] {
						continue
					}
					if _, isNamed := names[k]; !isNamed {
						continue
					}
					// kinds that are not point/range keys a caller can add through AddInternalKey
					switch {
					case calls["prepareDeferredKeyValueRecord"]:
						if !K[k] { // a kind the dedicated writers emit key-only (LogData, IngestSST) is not re-classified
							V[k] = true
						}
					case calls["prepareDeferredKeyRecord"]:
						if !V[k] {
							K[k] = true
						}
					}
				}
			}
		}
	}
	c.Note("C31: writers emit a value for %s and key-only for %s", kindSetString(names, V), kindSetString(names, K))
	for k := range V {
		if K[k] {
			c.Ob("C31.T1", nil, "writers agree on arity of "+names[k], "", false, "kind "+names[k]+" is written both with and without a value")
		}
	}
	// --- reader side -------------------------------------------------------
	type reader struct {
		fn       string
		exact    bool
		exclude  []string // kinds that cannot reach this decoder
		minCases int
	}
	readers := []reader{
		{"brepr.(*Reader).Next", true, nil, 5},
		{"p.(*batchIter).value", false, []string{"InternalKeyKindIngestSSTWithBlobs", "InternalKeyKindExcise", "InternalKeyKindIngestSST", "InternalKeyKindLogData"}, 5},
		{"p.(*flushableBatchIter).extractValue", false, []string{"InternalKeyKindIngestSSTWithBlobs", "InternalKeyKindExcise", "InternalKeyKindIngestSST", "InternalKeyKindLogData"}, 5},
	}
	for _, r := range readers {
		fn := c.Fn("C31.T1", r.fn)
		if fn == nil {
			continue
		}
		fd, pkg := c.P.Decl(fn)
		sws := SwitchesOn(pkg, fd, kindT)
		var sw *switchInfo
		for _, s := range sws {
			if len(s.Cases) >= r.minCases {
				sw = s
			}
		}
		if sw == nil {
			c.Unresolved("C31.T1", "has-value switch not found in "+r.fn)
			continue
		}
		// the has-value clause is the one whose body calls DecodeStr
		has := map[int64]bool{}
		for k, cc := range sw.Cases {
			if calleeNamesIn(pkg.TypesInfo, cc.Body)["DecodeStr"] {
				has[k] = true
			}
		}
		excl := map[int64]bool{}
		for _, e := range r.exclude {
			for k, n := range names {
				if n == e {
					excl[k] = true
				}
			}
		}
		for k := range V {
			if excl[k] {
				continue
			}
			ok := has[k]
			c.Ob("C31.T1", fn, "decodes the value written for "+names[k], c.P.Pos(sw.Stmt.Pos()), ok,
				map[bool]string{true: "", false: fmt.Sprintf("writers emit key+value for %s but this decoder's has-value list %s omits it: the value bytes are misread as the next entry", names[k], kindSetString(names, has))}[ok])
		}
		for k := range K {
			ok := !has[k]
			c.Ob("C31.T1", fn, "does not decode a value for key-only kind "+names[k], c.P.Pos(sw.Stmt.Pos()), ok,
				map[bool]string{true: "", false: "writers emit " + names[k] + " without a value but this decoder reads one"}[ok])
		}
		if r.exact {
			for k := range has {
				ok := V[k]
				c.Ob("C31.T1", fn, "has-value kind "+names[k]+" is written with a value", c.P.Pos(sw.Stmt.Pos()), ok,
					map[bool]string{true: "", false: "decoder reads a value for " + names[k] + " but no writer emits one"}[ok])
			}
		}
	}
	// --- T2: classifiers complete and fail-soft ---------------------------
	for _, name := range []string{"p.(*Batch).refreshMemTableSize", "p.(*Batch).Apply", "p.newFlushableBatch"} {
		fn := c.Fn("C31.T2", name)
		if fn == nil {
			continue
		}
		fd, pkg := c.P.Decl(fn)
		for _, sw := range SwitchesOn(pkg, fd, kindT) {
			if len(sw.Cases) < 6 {
				continue // sub-dispatch inside an arm
			}
			// Ingest/excise records live in dedicated internal batches that are written
			// with commit.directWrite and replayed by replayIngestedFlushable; they never
			// reach newFlushableBatch (replayWAL dispatches on the first kind before it).
			skip := map[string]bool{}
			if name == "p.newFlushableBatch" {
				skip = map[string]bool{"InternalKeyKindIngestSST": true, "InternalKeyKindIngestSSTWithBlobs": true, "InternalKeyKindExcise": true}
			}
			for k := range V {
				if !skip[names[k]] {
					c31cover(c, fn, sw, names, k)
				}
			}
			for k := range K {
				if !skip[names[k]] {
					c31cover(c, fn, sw, names, k)
				}
			}
			soft := sw.Default != nil && clauseReturnsError(sw.Default)
			c.Ob("C31.T2", fn, "unknown kinds are rejected with an error", c.P.Pos(sw.Stmt.Pos()), soft,
				map[bool]string{true: "", false: "the classifier's default arm does not return an error (decoding arbitrary bytes must fail softly)"}[soft])
		}
	}
	c.MinObs("C31.T2", 20)
	// B1: the string decoder's slice bounds are proven
	if fn := c.Fn("C31.B1", "brepr.DecodeStr"); fn != nil {
		if c.checkSliceBounds("C31.B1", fn) < 3 {
			c.Unresolved("C31.B1", "fewer than 3 slice expressions found in DecodeStr")
		}
	}
	// Reader.Next rejects kind > Max before dispatch
	if fn := c.Fn("C31.O1", "brepr.(*Reader).Next"); fn != nil {
		maxK, _ := c.ConstInt("base", "InternalKeyKindMax")
		fl := NewFlow(c.P).Edge("kind-in-range", func(v ssa.Value) (bool, bool) {
			bo, ok := v.(*ssa.BinOp)
			if !ok {
				return false, false
			}
			k, isK := constInt(bo.Y)
			if !isK || k != maxK {
				return false, false
			}
			switch bo.Op.String() {
			case ">":
				return true, true
			case "<=":
				return true, false
			}
			return false, false
		})
		res := fl.Analyze(fn, emptyState())
		n := c.Require("C31.O1", res, CallTo("brepr.DecodeStr"), "kind validated against InternalKeyKindMax before decoding", []string{"kind-in-range"})
		if n == 0 {
			c.Unresolved("C31.O1", "DecodeStr calls not found in Reader.Next")
		}
	}
}

func c31cover(c *Ctx, fn *ssa.Function, sw *switchInfo, names map[int64]string, k int64) {
	_, ok := sw.Cases[k]
	c.Ob("C31.T2", fn, "classifier names "+names[k], c.P.Pos(sw.Stmt.Pos()), ok,
		map[bool]string{true: "", false: "kind " + names[k] + " can be written into a batch but is not recognised here (valid batches would be rejected)"}[ok])
}

// clauseReturnsError: the clause's last statement returns something that is not a bare nil.
func clauseReturnsError(cc *ast.CaseClause) bool {
	if cc == nil || len(cc.Body) == 0 {
		return false
	}
	var found bool
	ast.Inspect(cc, func(n ast.Node) bool {
		if r, ok := n.(*ast.ReturnStmt); ok && len(r.Results) > 0 {
			last := r.Results[len(r.Results)-1]
			if id, ok := last.(*ast.Ident); !ok || id.Name != "nil" {
				found = true
			}
		}
		if call, ok := n.(*ast.CallExpr); ok {
			if id, ok := call.Fun.(*ast.Ident); ok && id.Name == "panic" {
				found = false
			}
		}
		return true
	})
	return found
}
