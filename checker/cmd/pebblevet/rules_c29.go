package main

import (
	"fmt"
	"go/types"

	"golang.org/x/tools/go/ssa"
)

func init() {
	register("C29", []string{".", "./sstable"}, runC29)
	propTechnique["C29"] = "SSA must-facts dataflow with value provenance (bounds stored into an sstable iterator are the virtual-constrained ones on every path on which the table is virtual), who-may-write for the bound fields, pass-through of the truncating wrapper for span iterators, virtual parameters reaching the read environment"
	propExplain["C29"] = "Decides the confinement clause of C29 — a virtual table never yields entries outside its virtual bounds — where it is visible in the shape of the readers; that the entries inside the bounds are exactly the transformed physical ones (synthetic prefix/suffix/seqnum arithmetic) and CopySpan's completeness are value-level and are not decided. (V1) wherever package pebble builds the sstable.ReadEnv for a table (createReader, withReader), the table's VirtualParams are stored into it on every path on which TableMetadata.Virtual is true; (B1) the point iterator's bounds (singleLevelIterator.lower / upper / endKeyInclusive; the two-level iterator shares them) are written only by init and SetBounds, and at every return of those, on every path on which the read environment is virtual, the values last stored are results of VirtualReaderParams.ConstrainBounds; (B3) each seek entry point (internalSeekGE — behind SeekGE and SeekGEWithMeta —, SeekPrefixGE, SeekLT of both iterator types) compares the seek key with its constrained lower / upper bound on the virtual path before handing the key to another iterator method; (B2) NewRawRangeDelIter and NewRawRangeKeyIter return a non-nil iterator for a virtual environment only after wrapping it in keyspan.Truncate. A reader that forgets one of these exposes the keys of the neighbouring virtual tables that share the same physical file — keys that were excised, or that belong to another store."
}

func runC29(c *Ctx) {
	// ---- V1 ----
	envVirtual := c.Field("C29.V1", "sst.ReadEnv.Virtual")
	metaVirtual := c.Field("C29.V1", "man.TableMetadata.Virtual")
	metaParams := c.Field("C29.V1", "man.TableMetadata.VirtualParams")
	if envVirtual != nil && metaVirtual != nil && metaParams != nil {
		storeParams := And(StoreTo(envVirtual), Pred("from meta.VirtualParams", func(in ssa.Instruction) bool {
			return len(derivesFrom(in.(*ssa.Store).Val, func(v ssa.Value) bool { return isLoadOfField(v, metaParams) }, 3)) > 0
		}))
		physical := func(v ssa.Value) (bool, bool) {
			if !isLoadOfField(v, metaVirtual) {
				return false, false
			}
			return true, true // fact on the false edge of `meta.Virtual`
		}
		n := 0
		for _, name := range []string{"p.createReader", "p.(*fileCacheHandle).withReader"} {
			fn := c.Fn("C29.V1", name)
			if fn == nil {
				continue
			}
			fl := NewFlow(c.P).After("virtual-params-in-env", storeParams).Edge("virtual-params-in-env", physical)
			fl.MaxDepth = 1 // the block is duplicated in both functions: a shared helper is a likely refactor
			res := fl.Analyze(fn, emptyState())
			c.noteFlow(fl)
			// the environment leaves the function through a return or through the callback
			leave := Pred("env handed out", func(in ssa.Instruction) bool {
				switch x := in.(type) {
				case *ssa.Return:
					for _, r := range x.Results {
						if nt, ok := r.Type().(*types.Named); ok && nt.Obj().Name() == "ReadEnv" {
							return true
						}
					}
				case *ssa.Call:
					if x.Common().StaticCallee() == nil && !x.Common().IsInvoke() {
						for _, a := range x.Common().Args {
							if nt, ok := a.Type().(*types.Named); ok && nt.Obj().Name() == "ReadEnv" {
								return true
							}
						}
					}
				}
				return false
			})
			n += c.Require("C29.V1", res, leave, "the read environment handed out for a virtual table carries the table's virtual parameters", []string{"virtual-params-in-env"})
		}
		if n < 2 {
			c.Unresolved("C29.V1", fmt.Sprintf("only %d hand-outs of a ReadEnv found in createReader/withReader", n))
		}
	}

	// ---- B1 ----
	lowerF := c.Field("C29.B1", "sst.singleLevelIterator.lower")
	upperF := c.Field("C29.B1", "sst.singleLevelIterator.upper")
	inclF := c.Field("C29.B1", "sst.singleLevelIterator.endKeyInclusive")
	if lowerF != nil && upperF != nil && inclF != nil {
		c.Who("C29.B1", Or(StoreTo(lowerF), StoreTo(upperF), StoreTo(inclF)),
			"the point iterator's bounds are written only by init and SetBounds",
			"sst.(*singleLevelIterator).init", "sst.(*singleLevelIterator).SetBounds")
		isConstrain := func(v ssa.Value) bool {
			ex, ok := v.(*ssa.Extract)
			if !ok {
				return false
			}
			call, ok := ex.Tuple.(*ssa.Call)
			return ok && infoOfCommon(call.Common()).Short == "ConstrainBounds"
		}
		isVirtualNil := func(fact string, onNil bool) CondM {
			z := ZeroGuard("Virtual")
			return func(v ssa.Value) (bool, bool) {
				ok, neg := z(v)
				if !ok {
					return false, false
				}
				if onNil {
					return true, neg
				}
				return true, !neg
			}
		}
		for _, name := range []string{"sst.(*singleLevelIterator).init", "sst.(*singleLevelIterator).SetBounds"} {
			fn := c.Fn("C29.B1", name)
			if fn == nil {
				continue
			}
			// phase 1: where is the environment known to be physical?
			f0 := NewFlow(c.P).Edge("physical", isVirtualNil("physical", true))
			f0.MaxDepth = 0
			r0 := f0.Analyze(fn, emptyState())
			var constrained func(v ssa.Value, d int) bool
			constrained = func(v ssa.Value, d int) bool {
				v = stripConv(v)
				if d > 4 {
					return false
				}
				if isConstrain(v) {
					return true
				}
				if phi, ok := v.(*ssa.Phi); ok {
					for i, e := range phi.Edges {
						if r0.edgeState(phi.Block().Preds[i], phi.Block()).has("physical") {
							continue // on that edge the table is not virtual: any bounds will do
						}
						if !constrained(e, d+1) {
							return false
						}
					}
					return true
				}
				return false
			}
			fl := NewFlow(c.P)
			var need []string
			for _, fd := range []*types.Var{lowerF, upperF, inclF} {
				fd := fd
				fact := "virtual-safe:" + fd.Name()
				need = append(need, fact)
				good := And(StoreTo(fd), Pred("constrained value", func(in ssa.Instruction) bool { return constrained(in.(*ssa.Store).Val, 0) }))
				bad := And(StoreTo(fd), Pred("unconstrained value", func(in ssa.Instruction) bool { return !constrained(in.(*ssa.Store).Val, 0) }))
				fl.After(fact, good).KillAfter(fact, bad).Edge(fact, isVirtualNil(fact, true))
			}
			fl.MaxDepth = 0
			res := fl.Analyze(fn, emptyState())
			c.noteFlow(fl)
			if n := c.Require("C29.B1", res, AnyReturn, "when the table is virtual the bounds left in the iterator are the ones ConstrainBounds returned", need); n == 0 {
				c.Unresolved("C29.B1", "no return in "+name)
			}
			if len(instrs(fn, Pred("ConstrainBounds", func(in ssa.Instruction) bool {
				cc := getCallCommon(in)
				return cc != nil && infoOfCommon(cc).Short == "ConstrainBounds"
			}))) == 0 {
				c.Ob("C29.B1", fn, "ConstrainBounds is applied", c.P.Pos(fn.Pos()), false, name+" no longer constrains the bounds of a virtual table")
			}
		}
	}

	// ---- B3 (added after seed C29-a): sibling agreement of the seek entry points ----
	// Callers do not know a virtual table's bounds. Each of internalSeekGE / SeekPrefixGE / SeekLT
	// of both iterator types compares the seek key with its (constrained) lower resp. upper bound
	// on the Virtual != nil path before it hands the key to any other method of the sstable
	// iterators; all six do so today.
	{
		n := 0
		for _, typ := range []string{"singleLevelIterator", "twoLevelIterator"} {
			for _, m := range []struct{ name, bound string }{{"internalSeekGE", "lower"}, {"SeekPrefixGE", "lower"}, {"SeekLT", "upper"}} {
				fn := c.Fn("C29.B3", "sst.(*"+typ+")."+m.name)
				if fn == nil {
					continue
				}
				// by position: internalSeekGE(key, …), SeekPrefixGE(prefix, key, …), SeekLT(key, …)
				idx := 1
				if m.name == "SeekPrefixGE" {
					idx = 2
				}
				keyParam := fn.Params[idx]
				bound := m.bound
				compared := Pred("cmp(key, "+bound+")", func(in ssa.Instruction) bool {
					call, ok := in.(*ssa.Call)
					if !ok || call.Common().IsInvoke() || call.Common().StaticCallee() != nil {
						return false
					}
					hasKey, hasBound := false, false
					for _, a := range call.Common().Args {
						if len(derivesFrom(a, func(v ssa.Value) bool { return v == ssa.Value(keyParam) }, 3)) > 0 {
							hasKey = true
						}
						if pathHasSuffix(pathOf(a), bound) {
							hasBound = true
						}
					}
					return hasKey && hasBound
				})
				onward := Pred("key handed to an sstable iterator method", func(in ssa.Instruction) bool {
					call, ok := in.(*ssa.Call)
					if !ok {
						return false
					}
					cal := call.Common().StaticCallee()
					if cal == nil || cal.Signature.Recv() == nil || cal.Pkg == nil && cal.Origin() == nil {
						return false
					}
					o := cal
					if cal.Origin() != nil {
						o = cal.Origin()
					}
					if o.Pkg == nil || o.Pkg.Pkg.Path() != pkgAlias["sst"] {
						return false
					}
					for i, a := range call.Common().Args {
						if i == 0 {
							continue
						}
						if _, isSlice := a.Type().Underlying().(*types.Slice); !isSlice {
							continue
						}
						if len(derivesFrom(a, func(v ssa.Value) bool { return v == ssa.Value(keyParam) }, 3)) > 0 {
							return true
						}
					}
					return false
				})
				fl := NewFlow(c.P).After("key-confined", compared).Edge("key-confined", ZeroGuard("Virtual"))
				fl.MaxDepth = 0
				res := fl.Analyze(fn, emptyState())
				c.noteFlow(fl)
				k := c.Require("C29.B3", res, onward, "the seek key is compared with the virtual "+bound+" bound before it is handed on", []string{"key-confined"})
				if k == 0 {
					c.Unresolved("C29.B3", "no onward use of the seek key found in "+typ+"."+m.name)
				}
				if len(instrs(fn, compared)) == 0 {
					c.Ob("C29.B3", fn, "the seek key is compared with the "+bound+" bound", c.P.Pos(fn.Pos()), false, typ+"."+m.name+" no longer compares the seek key with the iterator's "+bound+" bound")
				}
				n += k
			}
		}
		if n < 6 {
			c.Unresolved("C29.B3", fmt.Sprintf("only %d onward uses of a seek key found in the six seek entry points", n))
		}
	}

	// ---- B2 ----
	for _, name := range []string{"sst.(*Reader).NewRawRangeDelIter", "sst.(*Reader).NewRawRangeKeyIter"} {
		fn := c.Fn("C29.B2", name)
		if fn == nil {
			continue
		}
		truncate := Pred("keyspan.Truncate", func(in ssa.Instruction) bool {
			cc := getCallCommon(in)
			return cc != nil && infoOfCommon(cc).Short == "Truncate"
		})
		z := ZeroGuard("Virtual")
		fl := NewFlow(c.P).After("span-iter-confined", truncate).Edge("span-iter-confined", z)
		fl.MaxDepth = 0
		res := fl.Analyze(fn, emptyState())
		c.noteFlow(fl)
		nonNilIter := Pred("return of an iterator", func(in ssa.Instruction) bool {
			ret, ok := in.(*ssa.Return)
			if !ok || len(ret.Results) != 2 {
				return false
			}
			if k, isK := stripConv(ret.Results[0]).(*ssa.Const); isK && k.Value == nil {
				return false
			}
			k, isK := ret.Results[1].(*ssa.Const)
			return isK && k.Value == nil
		})
		if n := c.Require("C29.B2", res, nonNilIter, "a span iterator over a virtual table is truncated to the virtual bounds", []string{"span-iter-confined"}); n == 0 {
			c.Unresolved("C29.B2", "no successful iterator return in "+name)
		}
		// the truncation bounds come from the virtual parameters
		for _, in := range instrs(fn, truncate) {
			cc := getCallCommon(in)
			ok := false
			for _, a := range cc.Args {
				if len(derivesFrom(a, func(v ssa.Value) bool {
					return pathHasSuffix(pathOf(v), "Virtual.Lower") || pathHasSuffix(pathOf(v), "Virtual.Upper") || pathHasSuffix(pathOf(v), "Virtual")
				}, 6)) > 0 {
					ok = true
				}
			}
			c.Ob("C29.B2", fn, "the truncation bounds are the virtual table's bounds", c.P.Pos(in.Pos()), ok,
				map[bool]string{true: "", false: "keyspan.Truncate is not given bounds derived from env.Virtual"}[ok])
		}
	}
}
