package main

import (
	"go/types"

	"golang.org/x/tools/go/ssa"
)

func init() {
	register("C33", []string{".", "./internal/compact", "./internal/keyspan"}, runC33)
	propTechnique["C33"] = "SSA must-facts dataflow in the merging iterator (a range tombstone acts only on the visible-at-the-read-seqnum edge, with the iterator's own snapshot), loop-examines-all over the levels, sibling agreement of the forward and backward variants"
	propExplain["C33"] = "Decides the clauses of C33 that are in the shape of mergingIter; that the heap yields the model's entries in order is an algorithm over runtime keys and is not decided. (T1) a range tombstone makes the merging iterator skip anything — report the heap's top entry deleted (isNextEntryDeleted / isPrevEntryDeleted return true), or move a lower level's seek key past the tombstone (seekGE / seekLT) — only on the true edge of tombstone.VisibleAt(s) or tombstone.CoversAt(s, …) for that tombstone, and s is the iterator's own snapshot field: a tombstone written after the read sequence number hides nothing; The snapshot-unaware Span.Covers has no caller outside the compaction iterator. (L1) First, Last, seekGE and seekLT position the point iterator of every level in their loop (no level is skipped before its iterKV is assigned), and initHeap considers every level. Forward and backward siblings are checked with the same rule. Does not decide heap order, direction switches, or prefix iteration."
}

func runC33(c *Ctx) {
	snapF := c.Field("C33.T1", "p.mergingIter.snapshot")
	iterKV := c.Field("C33.L1", "p.mergingIterLevel.iterKV")
	if snapF == nil || iterKV == nil {
		return
	}
	isVis := func(v ssa.Value) (*ssa.Call, bool) {
		call, ok := v.(*ssa.Call)
		if !ok {
			return nil, false
		}
		s := infoOfCommon(call.Common()).Short
		return call, s == "VisibleAt" || s == "CoversAt"
	}
	visEdge := func(v ssa.Value) (bool, bool) {
		_, ok := isVis(v)
		return ok, false
	}
	// ---- T1 ----
	for _, name := range []string{"p.(*mergingIter).isNextEntryDeleted", "p.(*mergingIter).isPrevEntryDeleted"} {
		fn := c.Fn("C33.T1", name)
		if fn == nil {
			continue
		}
		fl := NewFlow(c.P).Edge("tombstone-visible-at-read-seqnum", visEdge)
		fl.MaxDepth = 0
		res := fl.Analyze(fn, emptyState())
		c.noteFlow(fl)
		deleted := Pred("return true", func(in ssa.Instruction) bool {
			ret, ok := in.(*ssa.Return)
			if !ok || len(ret.Results) != 2 {
				return false
			}
			k, isK := ret.Results[0].(*ssa.Const)
			return !(isK && k.Value != nil && k.Value.String() == "false")
		})
		if n := c.Require("C33.T1", res, deleted, "the top entry is reported deleted only by a tombstone visible at the read sequence number", []string{"tombstone-visible-at-read-seqnum"}); n == 0 {
			c.Unresolved("C33.T1", "no `return true` in "+name)
		}
		checkSnapshotArg(c, fn, snapF, isVis)
	}
	for _, name := range []string{"p.(*mergingIter).seekGE", "p.(*mergingIter).seekLT"} {
		fn := c.Fn("C33.T1", name)
		if fn == nil {
			continue
		}
		// the seek key is a loop-carried value; an edge of its phi that comes from a tombstone
		// bound must come out of a block reached on the visible edge
		fl := NewFlow(c.P).Edge("tombstone-visible-at-read-seqnum", visEdge)
		fl.MaxDepth = 0
		res := fl.Analyze(fn, emptyState())
		c.noteFlow(fl)
		keyParam := fn.Params[1]
		n := 0
		for _, b := range fn.Blocks {
			for _, in := range b.Instrs {
				phi, ok := in.(*ssa.Phi)
				if !ok || !types.Identical(phi.Type(), keyParam.Type()) {
					continue
				}
				for i, e := range phi.Edges {
					isBound := false
					if u, isU := stripConv(e).(*ssa.UnOp); isU {
						if fa, isFA := u.X.(*ssa.FieldAddr); isFA {
							nm := fieldVar(fa.X.Type(), fa.Field).Name()
							isBound = (nm == "End" || nm == "Start") && pathHasSuffix(pathOf(fa.X), "tombstone")
						}
					}
					if !isBound {
						continue
					}
					n++
					st := res.edgeState(b.Preds[i], b)
					ok := st.has("tombstone-visible-at-read-seqnum")
					c.Ob("C33.T1", fn, "a lower level's seek key is moved past a tombstone only if that tombstone is visible at the read sequence number", c.P.Pos(phi.Pos()), ok,
						map[bool]string{true: "", false: "the seek key takes a tombstone bound on a path that did not pass tombstone.VisibleAt(m.snapshot)"}[ok])
				}
			}
		}
		if n == 0 {
			c.Unresolved("C33.T1", "the seek-key adjustment past a tombstone was not found in "+name)
		}
		checkSnapshotArg(c, fn, snapF, isVis)
	}
	// T1 (added after seed C33-a): the snapshot-unaware Span.Covers has exactly one user in the
	// module, the compaction iterator (which reasons per snapshot stripe itself); the read path
	// always asks CoversAt(snapshot, …). "VisibleAt was checked just above" is not a substitute:
	// VisibleAt is about the OLDEST key of a fragmented tombstone, Covers about the NEWEST.
	c.Who("C33.T1", CallTo("keyspan.(Span).Covers"),
		"the snapshot-unaware Span.Covers is not used by package pebble's read path (its one user is the compaction iterator)",
		"compact.(*Iter).tombstoneCovers", pkgAlias["compact"]+".*", pkgAlias["keyspan"]+".*")

	// ---- L1 ----
	storeKV := StoreTo(iterKV)
	nL := 0
	for _, name := range []string{"p.(*mergingIter).First", "p.(*mergingIter).Last", "p.(*mergingIter).seekGE", "p.(*mergingIter).seekLT"} {
		fn := c.Fn("C33.L1", name)
		if fn == nil {
			continue
		}
		nL += c.LoopExaminesAll("C33.L1", fn, storeKV, "every level's point iterator is positioned by an absolute repositioning")
	}
	if nL < 4 {
		c.Unresolved("C33.L1", "fewer than 4 level-positioning loops found in mergingIter")
	}
	if fn := c.Fn("C33.L1", "p.(*mergingIter).initHeap"); fn != nil {
		loadKV := Pred("load of iterKV", func(in ssa.Instruction) bool {
			u, ok := in.(*ssa.UnOp)
			return ok && isLoadOfField(u, iterKV)
		})
		if n := c.LoopExaminesAll("C33.L1", fn, loadKV, "every level is considered for the heap"); n == 0 {
			c.Unresolved("C33.L1", "no loop over the levels reading iterKV in initHeap")
		}
	}
}

// checkSnapshotArg: every VisibleAt / CoversAt in fn is asked about the iterator's own snapshot.
func checkSnapshotArg(c *Ctx, fn *ssa.Function, snapF interface{ Name() string }, isVis func(ssa.Value) (*ssa.Call, bool)) {
	n := 0
	for _, b := range fn.Blocks {
		for _, in := range b.Instrs {
			v, ok := in.(ssa.Value)
			if !ok {
				continue
			}
			call, ok := isVis(v)
			if !ok || len(call.Common().Args) < 2 {
				continue
			}
			n++
			a := call.Common().Args[1]
			ok2 := pathHasSuffix(pathOf(a), "recv."+snapF.Name())
			c.Ob("C33.T1", fn, "visibility is decided at the iterator's own read sequence number", c.P.Pos(call.Pos()), ok2,
				map[bool]string{true: "", false: "VisibleAt/CoversAt is not given recv." + snapF.Name()}[ok2])
		}
	}
	if n == 0 {
		c.Unresolved("C33.T1", "no VisibleAt/CoversAt call in "+QName(fn))
	}
}
