package main

func init() {
	register("C14", []string{".", "./internal/tombspan", "./internal/compact"}, runC14)
	propExplain["C14"] = "C14 has no mechanism of its own: what a flush or compaction may do without changing any read is the conjunction of clauses decided under other ids, and this check runs exactly those (rule ids keep their home property): the compaction iterator receives the current snapshot list and wide-tombstone promotion uses the earliest snapshot strictly (C03.G1, O1, O2, G2, and the snapshot-list lockset R1/R2); within a snapshot stripe keys are skipped, sequence numbers zeroed and tombstones elided only where C17's guards allow it, and the two SINGLEDEL paths agree on SETWITHDEL (C17.G1–G3, S1, T1); readers pin their view before maintenance can delete files under them and every pin is released (C04.P1–P3); a cancelled version edit never makes a merely moved table obsolete (C39.G3). Does not decide which keys a compaction emits beyond those guards, nor move/copy/download/rewrite compactions' file handling (value-level / C39)."
	propTechnique["C14"] = "shared rules: SSA guard and ordering dataflow in the compaction iterator, provenance of the snapshot list, lockset for the snapshot list, resource pairing of read views"
}

func runC14(c *Ctx) {
	runC03(c)
	runC17(c)
	runC04Pairing(c)
	runC39G3(c)
}
