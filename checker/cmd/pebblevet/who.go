package main

import (
	"fmt"
	"go/types"
	"sort"
	"strings"

	"golang.org/x/tools/go/ssa"
)

// ---------------------------------------------------------------------------
// E3 WHO: who may call a function / write a field. Every instruction in every
// loaded function (closures attributed to their enclosing declared function)
// matching m must sit in one of the allowed functions.
// ---------------------------------------------------------------------------

// objQName names a *types.Func the way QName names an ssa.Function.
func objQName(f *types.Func) string {
	if f == nil {
		return ""
	}
	f = f.Origin()
	pkg := ""
	if f.Pkg() != nil {
		pkg = f.Pkg().Path()
	}
	sig, _ := f.Type().(*types.Signature)
	if sig != nil && sig.Recv() != nil {
		t := sig.Recv().Type()
		star := ""
		if pt, ok := t.(*types.Pointer); ok {
			star = "*"
			t = pt.Elem()
		}
		tn := t.String()
		if nt, ok := t.(*types.Named); ok {
			tn = nt.Obj().Name()
			if nt.Obj().Pkg() != nil {
				pkg = nt.Obj().Pkg().Path()
			}
		}
		return fmt.Sprintf("%s.(%s%s).%s", pkg, star, tn, f.Name())
	}
	return pkg + "." + f.Name()
}

// FuncRef matches any instruction that calls, defers, spawns or takes the value
// of one of the named functions/methods (static calls, interface invokes,
// bound-method closures, method expressions).
func FuncRef(names ...string) M {
	set := map[string]bool{}
	for _, n := range names {
		set[expandAlias(n)] = true
	}
	isTarget := func(fn *ssa.Function) bool {
		if fn == nil {
			return false
		}
		if set[QName(fn)] {
			return true
		}
		if fn.Synthetic != "" {
			if obj, ok := fn.Object().(*types.Func); ok && set[objQName(obj)] {
				return true
			}
		}
		return false
	}
	return M{Desc: "reference to " + strings.Join(names, "|"), F: func(in ssa.Instruction) bool {
		var cc *ssa.CallCommon
		switch x := in.(type) {
		case *ssa.Call:
			cc = x.Common()
		case *ssa.Defer:
			cc = &x.Call
		case *ssa.Go:
			cc = &x.Call
		}
		if cc != nil {
			if cc.IsInvoke() {
				if set[ifaceMethodQName(cc.Value.Type(), cc.Method)] || set[ifaceMethodDeclQName(cc.Method)] {
					return true
				}
			} else if isTarget(cc.StaticCallee()) {
				return true
			}
		}
		for _, op := range in.Operands(nil) {
			if op == nil || *op == nil {
				continue
			}
			switch v := (*op).(type) {
			case *ssa.Function:
				if cc != nil && cc.Value == ssa.Value(v) {
					continue // already handled as static callee
				}
				if isTarget(v) {
					return true
				}
			case *ssa.MakeClosure:
				if fn, ok := v.Fn.(*ssa.Function); ok && isTarget(fn) {
					return true
				}
			}
		}
		if mc, ok := in.(*ssa.MakeClosure); ok {
			if fn, ok := mc.Fn.(*ssa.Function); ok && isTarget(fn) {
				return true
			}
		}
		return false
	}}
}

// Who checks the allow-list. allowed entries are qualified names of declared
// functions (closures are attributed to their enclosing declaration). An entry
// may end in "*" to allow a name prefix (e.g. a whole type's methods).
func (c *Ctx) Who(rule string, m M, what string, allowed ...string) int {
	allow := map[string]bool{}
	var prefixes []string
	for _, a := range allowed {
		a = expandAlias(a)
		if strings.HasSuffix(a, "*") {
			prefixes = append(prefixes, strings.TrimSuffix(a, "*"))
		} else {
			allow[a] = true
		}
	}
	n := 0
	type site struct {
		fn  *ssa.Function
		pos string
		ok  bool
	}
	// A function is allowed if it is listed, or if it is a private helper of allowed functions:
	// unexported, never used as a value, and called (statically) only from allowed functions.
	// Extracting part of an owner into a helper therefore does not change the verdict.
	var allowedFn func(top *ssa.Function, d int) bool
	allowedFn = func(top *ssa.Function, d int) bool {
		name := QName(top)
		if allow[name] {
			return true
		}
		for _, p := range prefixes {
			if strings.HasPrefix(name, p) {
				return true
			}
		}
		if d >= 2 || top.Object() == nil || top.Object().Exported() {
			return false
		}
		idx := c.P.callIndex()
		if idx.valueRef[top] || len(idx.callers[top]) == 0 {
			return false
		}
		for _, caller := range idx.callers[top] {
			if ct := TopLevel(caller); ct != top && !allowedFn(ct, d+1) {
				return false
			}
		}
		return true
	}
	var sites []site
	var originBuilt map[*ssa.Function]bool
	instSeen := map[string]bool{}
	for _, fn := range c.P.AllFuncs {
		if fn.Synthetic != "" && fn.Parent() == nil && fn.Origin() == nil {
			continue // wrappers, bound thunks: the reference inside is to themselves
		}
		if o := fn.Origin(); o != nil {
			// generic instantiation: the origin is scanned instead if it was built; otherwise
			// (methods of a generic type that is only used instantiated) one instance stands
			// for all of them
			if originBuilt == nil {
				originBuilt = map[*ssa.Function]bool{}
				for _, f2 := range c.P.AllFuncs {
					if f2.Origin() == nil {
						originBuilt[f2] = true
					}
				}
			}
			if originBuilt[o] || instSeen[QName(fn)] {
				continue
			}
			instSeen[QName(fn)] = true
		}
		for _, b := range fn.Blocks {
			for _, in := range b.Instrs {
				if !m.F(in) {
					continue
				}
				n++
				c.CallSites++
				ok := allowedFn(TopLevel(fn), 0)
				sites = append(sites, site{fn, c.P.Pos(in.Pos()), ok})
			}
		}
	}
	sort.Slice(sites, func(i, j int) bool { return sites[i].pos < sites[j].pos })
	for _, s := range sites {
		detail := ""
		if !s.ok {
			detail = fmt.Sprintf("%s occurs in %s, which is not in the allow-list %v", m.Desc, QName(TopLevel(s.fn)), allowed)
		}
		c.Ob(rule, TopLevel(s.fn), what, s.pos, s.ok, detail)
	}
	if n == 0 {
		c.Unresolved(rule, "no site matches "+m.Desc+" (anchor drifted?)")
	}
	return n
}

// AtomicOp matches calls of the given methods (Store, Add, CompareAndSwap, …)
// on the atomic value held in field f.
func AtomicOp(f *types.Var, methods ...string) M {
	set := map[string]bool{}
	for _, m := range methods {
		set[m] = true
	}
	return M{Desc: fmt.Sprintf("%s.%s()", f.Name(), strings.Join(methods, "|")), F: func(in ssa.Instruction) bool {
		var cc *ssa.CallCommon
		switch x := in.(type) {
		case *ssa.Call:
			cc = x.Common()
		case *ssa.Defer:
			cc = &x.Call
		case *ssa.Go:
			cc = &x.Call
		}
		if cc == nil {
			return false
		}
		ci := infoOfCommon(cc)
		if !set[ci.Short] || ci.Recv == nil {
			return false
		}
		return recvIsField(ci.Recv, f)
	}}
}

// recvIsField reports whether the receiver value denotes field f (its address
// or its content), possibly through embedded-field selection of the method's
// receiver (e.g. f.Mutex.Lock → field Mutex inside f).
func recvIsField(v ssa.Value, f *types.Var) bool {
	for i := 0; i < 4; i++ {
		v = stripConv(v)
		if u, ok := v.(*ssa.UnOp); ok {
			v = u.X
			continue
		}
		switch x := v.(type) {
		case *ssa.FieldAddr:
			if fieldVar(x.X.Type(), x.Field) == f {
				return true
			}
			v = x.X
			continue
		case *ssa.Field:
			if fieldVar(x.X.Type(), x.Field) == f {
				return true
			}
			v = x.X
			continue
		}
		return false
	}
	return false
}

// OnField matches calls of the named method (short name) whose receiver is
// field f.
func OnField(f *types.Var, methods ...string) M { return AtomicOp(f, methods...) }

// callIndex: static callers of every function, and the functions that are used as values
// (stored, passed, bound as method values) — their callers are not statically known.
type callIdx struct {
	callers  map[*ssa.Function][]*ssa.Function
	valueRef map[*ssa.Function]bool
}

func (p *Program) callIndex() *callIdx {
	if p.cidx != nil {
		return p.cidx
	}
	idx := &callIdx{callers: map[*ssa.Function][]*ssa.Function{}, valueRef: map[*ssa.Function]bool{}}
	for _, fn := range p.AllFuncs {
		for _, b := range fn.Blocks {
			for _, in := range b.Instrs {
				var callee ssa.Value
				switch x := in.(type) {
				case *ssa.Call:
					callee = x.Call.Value
					if cal := x.Common().StaticCallee(); cal != nil {
						idx.callers[cal] = append(idx.callers[cal], fn)
					}
				case *ssa.Defer:
					callee = x.Call.Value
					if cal := x.Call.StaticCallee(); cal != nil {
						idx.callers[cal] = append(idx.callers[cal], fn)
					}
				case *ssa.Go:
					callee = x.Call.Value
					if cal := x.Call.StaticCallee(); cal != nil {
						idx.callers[cal] = append(idx.callers[cal], fn)
					}
				}
				for _, op := range in.Operands(nil) {
					if op == nil || *op == nil {
						continue
					}
					if f, ok := (*op).(*ssa.Function); ok && *op != callee {
						idx.valueRef[f] = true
						if f.Origin() != nil {
							idx.valueRef[f.Origin()] = true
						}
						// a bound-method / thunk wrapper stands for the method it calls
						if f.Synthetic != "" {
							for _, wb := range f.Blocks {
								for _, wi := range wb.Instrs {
									if wc, ok := wi.(*ssa.Call); ok {
										if cal := wc.Common().StaticCallee(); cal != nil {
											idx.valueRef[cal] = true
										}
									}
								}
							}
						}
					}
				}
			}
		}
	}
	p.cidx = idx
	return idx
}
