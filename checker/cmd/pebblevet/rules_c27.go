package main

import (
	"fmt"
	"go/token"
	"go/types"

	"golang.org/x/tools/go/ssa"
)

func init() {
	register("C27", []string{"./sstable/...", "./objstorage"}, runC27)
	propExplain["C27"] = "Decides the gating clause of C27: in block.Reader.doRead the bytes read are used (compression indicator, decompression, block metadata init, successful return) only through the nil-error edges of the read and of the checksum validation; every function of the sstable packages that validates a block checksum returns success only if the validation passed; a failed read is never put into the block cache as a value; the table footer's block handles are decoded only after the footer checksum matched (for formats that have one); raw object reads inside the sstable packages occur only in the listed owners. (K1) the one-block caches of the value fetchers (valblk.valueBlockFetcher, blob.cachedReader) record which block they hold only on the nil-error edge of that block's verified read, the blob reader marks its block not-loaded before it replaces the buffer and changes its (block id, value-id offset, physical index) tuple together or not at all; singleLevelIterator.loadDataBlock returns with its data-block iterator invalid, untouched, or initialised from the block its recorded handle names. Does not decide checksum collision probability or legacy footers without a checksum."
}

func runC27(c *Ctx) {
	runC27K1(c)
	validate := CallTo("blk.ValidateChecksum")
	// C27.O1
	if fn := c.Fn("C27.O1", "blk.(*Reader).doRead"); fn != nil {
		readAt := Or(ImplCall(c.Iface("C27.O1", "objs.ReadHandle"), "objstorage.ReadHandle", "ReadAt"), ImplCall(c.Iface("C27.O1", "objs.Readable"), "objstorage.Readable", "ReadAt"))
		res := c.Chain("C27.O1", fn, nil,
			Step{Name: "ReadAt", M: readAt, Gated: true},
			Step{Name: "ValidateChecksum", M: validate, Gated: true},
		)
		uses := []struct {
			name string
			m    M
		}{
			{"compression indicator read", Pred("index of block data", func(in ssa.Instruction) bool {
				ia, ok := in.(*ssa.IndexAddr)
				if !ok {
					return false
				}
				return isCallNamed(ia.X, "BlockData", "")
			})},
			{"GetDecompressor", CallTo("blk.GetDecompressor")},
			{"DecompressInto", Pred("DecompressInto", func(in ssa.Instruction) bool {
				cc := getCallCommon(in)
				return cc != nil && infoOfCommon(cc).Short == "DecompressInto"
			})},
			{"initBlockMetadataFn", DynCall("initBlockMetadataFn")},
		}
		for _, u := range uses {
			n := c.Require("C27.O1", res, u.m, "ValidateChecksum ⊢ "+u.name, []string{"ok:ValidateChecksum", "ok:ReadAt"})
			if n == 0 {
				c.Unresolved("C27.O1", u.name+" not found in doRead")
			}
		}
		fl := NewFlow(c.P).Ok("ok:ReadAt", readAt).Ok("ok:ValidateChecksum", validate).Ok("ok:init", DynCall("initBlockMetadataFn"))
		res2 := fl.Analyze(fn, emptyState())
		c.RequireAtSuccess("C27.O1", res2, "ReadAt+ValidateChecksum+init", []string{"ok:ReadAt", "ok:ValidateChecksum", "ok:init"})
	}
	// C27.V1: whoever validates a checksum succeeds only if it passed
	nV := 0
	for _, fn := range c.P.AllFuncs {
		if fn.Origin() != nil || len(instrs(fn, validate)) == 0 {
			continue
		}
		if !returnsError(fn.Signature) {
			continue
		}
		nV++
		fl := NewFlow(c.P).Ok("ok:ValidateChecksum", validate)
		res := fl.Analyze(fn, emptyState())
		c.noteFlow(fl)
		c.RequireAtSuccess("C27.V1", res, "ValidateChecksum", []string{"ok:ValidateChecksum"})
	}
	if nV < 2 {
		c.Unresolved("C27.V1", "fewer than 2 callers of block.ValidateChecksum found")
	}
	// C27.O3: cache fill only with a successfully read value
	if fn := c.Fn("C27.O3", "blk.(*Reader).Read"); fn != nil {
		res := c.Chain("C27.O3", fn, nil,
			Step{Name: "doRead", M: CallTo("blk.(*Reader).doRead"), Gated: true},
			Step{Name: "crh.SetReadValue", M: CallTo("cache.(ReadHandle).SetReadValue", "cache.(*ReadHandle).SetReadValue")},
		)
		// a failed read is recorded as an error, never as a value
		fl := NewFlow(c.P).Edge("read-failed", func(v ssa.Value) (bool, bool) {
			ok, neg := NilErrGuard(CallPred("doRead", ""))(v)
			return ok, !neg
		})
		res2 := fl.Analyze(fn, emptyState())
		n := c.Require("C27.O3", res2, CallTo("cache.(ReadHandle).SetReadError", "cache.(*ReadHandle).SetReadError"), "SetReadError only on doRead's error edge", []string{"read-failed"})
		if n == 0 {
			c.Ob("C27.O3", fn, "step crh.SetReadError present", c.P.Pos(fn.Pos()), false, "Reader.Read no longer reports a failed read to the cache's read handle (waiters would block or see a stale entry)")
		}
		_ = res
	}
	// C27.O2: footer
	if fn := c.Fn("C27.O2", "sst.parseFooter"); fn != nil {
		v6, ok := c.ConstInt("sst", "TableFormatPebblev6")
		if !ok {
			c.Unresolved("C27.O2", "TableFormatPebblev6 not found")
		}
		fl := NewFlow(c.P).
			Edge("footer-crc-ok", func(v ssa.Value) (bool, bool) {
				bo, ok := v.(*ssa.BinOp)
				if !ok || (bo.Op != token.EQL && bo.Op != token.NEQ) {
					return false, false
				}
				if (isCallNamed(bo.X, "Value", "/crc") && isCallNamed(bo.Y, "Uint32", "binary")) || (isCallNamed(bo.Y, "Value", "/crc") && isCallNamed(bo.X, "Uint32", "binary")) {
					return true, bo.Op == token.NEQ
				}
				return false, false
			}).
			Edge("format-without-footer-checksum", func(v ssa.Value) (bool, bool) {
				bo, ok := v.(*ssa.BinOp)
				if !ok {
					return false, false
				}
				k, isK := constInt(bo.Y)
				if !isK || k != v6 || !(pathHasSuffix(pathOf(bo.X), "format") || len(derivesFrom(bo.X, CallPred("parseTableFormat", ""), 2)) > 0) {
					return false, false
				}
				switch bo.Op {
				case token.LSS:
					return true, false
				case token.GEQ:
					return true, true
				}
				return false, false
			}).
			After("leveldb-format", Pred("footer.format = TableFormatLevelDB", func(in ssa.Instruction) bool {
				st, ok := in.(*ssa.Store)
				if !ok || !pathHasSuffix(pathOf(st.Addr), "footer.format") {
					return false
				}
				k, isK := constInt(st.Val)
				lv, _ := c.ConstInt("sst", "TableFormatLevelDB")
				return isK && k == lv
			})).
			Derive("footer-trusted", []string{"footer-crc-ok"}, []string{"format-without-footer-checksum"}, []string{"leveldb-format"})
		res := fl.Analyze(fn, emptyState())
		c.noteFlow(fl)
		n := c.Require("C27.O2", res, CallTo("blk.DecodeHandle"), "footer checksum (where the format has one) ⊢ block handle decoding", []string{"footer-trusted"})
		if n < 2 {
			c.Unresolved("C27.O2", "DecodeHandle calls not found in parseFooter")
		}
	}
	// C27.W1: raw reads are owned
	readable := c.Iface("C27.W1", "objs.Readable")
	rh := c.Iface("C27.W1", "objs.ReadHandle")
	c.Who("C27.W1", Pred("raw ReadAt inside sstable packages", func(in ssa.Instruction) bool {
		fn := in.Parent()
		if fn == nil {
			return false
		}
		top := TopLevel(fn)
		if top.Pkg == nil || !containsStr(top.Pkg.Pkg.Path(), modPath+"/sstable") {
			return false
		}
		return ImplCall(readable, "objstorage.Readable", "ReadAt").F(in) || ImplCall(rh, "objstorage.ReadHandle", "ReadAt").F(in)
	}), "raw object reads only in the checksum-validating owners",
		"blk.(*Reader).doRead", "blk.ReadRaw", "sst.(*Layout).Describe", "sst.formatColblkDataBlock*", "sst.(*RawColumnWriter).copyDataBlocks", "sst.(*Layout)*", "sst.(*Reader).Layout*", "sst.(*memReader).ReadAt", "sst.*Layout*")
}

// runC27K1: coherence of the one-block caches of the value fetchers. Both remember WHICH block
// their buffer holds (a tag) so that the next fetch from the same block skips the read and its
// checksum verification. The tag may name a block only once the (verified) read of that block
// has succeeded; a tag set earlier survives a failed read and makes the next fetch serve bytes
// of the previously loaded block, with a nil error.
func runC27K1(c *Ctx) {
	isConstBoolStore := func(f *types.Var, val bool) M {
		return And(StoreTo(f), Pred(fmt.Sprintf("= %v", val), func(in ssa.Instruction) bool {
			k, ok := in.(*ssa.Store).Val.(*ssa.Const)
			return ok && k.Value != nil && k.Value.String() == fmt.Sprint(val)
		}))
	}
	// sstable/valblk: valueBlockNum is the tag of valueBlock
	if fn := c.Fn("C27.K1", "valblk.(*valueBlockFetcher).getValueInternal"); fn != nil {
		tag := c.Field("C27.K1", "valblk.valueBlockFetcher.valueBlockNum")
		read := And(MethodOn("ReadValueBlock", ""), argFromCall(-1, "getBlockHandle"))
		fl := NewFlow(c.P).Ok("ok:value-block-read", read)
		res := fl.Analyze(fn, emptyState())
		c.noteFlow(fl)
		if n := c.Require("C27.K1", res, StoreTo(tag), "the cached block number is updated only after that block was read successfully", []string{"ok:value-block-read"}); n == 0 {
			c.Unresolved("C27.K1", "no store to valueBlockFetcher.valueBlockNum in getValueInternal")
		}
		if len(instrs(fn, read)) == 0 {
			c.Unresolved("C27.K1", "the value-block read (ReadValueBlock of getBlockHandle's result) was not found in getValueInternal")
		}
	}
	// sstable iterators: dataBH is the tag of the data-block iterator i.data, and the hit test is
	// `i.dataBH == handle && i.data.Valid()`. The tag is (deliberately) stored before the read, so
	// coherence means: at every return, either the tag was not touched, or the data iterator is
	// invalidated, or it was (re)initialised from the block read through the new tag.
	if fn := c.Fn("C27.K1", "sst.(*singleLevelIterator).loadDataBlock"); fn != nil {
		tag := StoreTo(c.Field("C27.K1", "sst.singleLevelIterator.dataBH"))
		inval := MethodOn("Invalidate", "recv.data")
		initH := MethodOn("InitHandle", "recv.data")
		fl := NewFlow(c.P).
			KillAfter("tag-unchanged", Or(tag, initH)).
			After("data-invalid", inval).KillAfter("data-invalid", initH).
			After("data-matches-tag", initH).KillAfter("data-matches-tag", tag).
			KillAfter("coherent", Or(tag, initH, inval)).
			Derive("coherent", []string{"tag-unchanged"}, []string{"data-invalid"}, []string{"data-matches-tag"})
		fl.MaxDepth = 0
		entry := emptyState()
		entry.add("tag-unchanged")
		entry.add("coherent")
		res := fl.Analyze(fn, entry)
		c.noteFlow(fl)
		c.Require("C27.K1", res, AnyReturn, "on return the data iterator is invalid, untouched, or initialised from the block its handle names", []string{"coherent"})
		if len(instrs(fn, tag)) == 0 || len(instrs(fn, initH)) == 0 || len(instrs(fn, inval)) == 0 {
			c.Unresolved("C27.K1", "dataBH store / data.InitHandle / data.Invalidate not found in loadDataBlock")
		}
	}
	// sstable/blob: currentValueBlock.{loaded, virtualID} are the tag of currentValueBlock.buf
	if fn := c.Fn("C27.K1", "blob.(*cachedReader).GetUnsafeValue"); fn != nil {
		loaded := c.Field("C27.K1", "blob.cachedReader.currentValueBlock.loaded")
		vid := c.Field("C27.K1", "blob.cachedReader.currentValueBlock.virtualID")
		read := MethodOn("ReadValueBlock", "recv.r")
		fl := NewFlow(c.P).Ok("ok:value-block-read", read).
			After("tag-invalidated", isConstBoolStore(loaded, false)).
			KillAfter("tag-invalidated", isConstBoolStore(loaded, true))
		res := fl.Analyze(fn, emptyState())
		c.noteFlow(fl)
		// the tag is a tuple: (virtual id, value-id offset, physical index) change together
		{
			off := c.Field("C27.K1", "blob.cachedReader.currentValueBlock.valueIDOffset")
			phys := c.Field("C27.K1", "blob.cachedReader.currentValueBlock.physicalIndex")
			group := Or(StoreTo(vid), StoreTo(off), StoreTo(phys))
			fl2 := NewFlow(c.P).
				KillAfter("tag-untouched", group).
				After("set:virtualID", StoreTo(vid)).After("set:valueIDOffset", StoreTo(off)).After("set:physicalIndex", StoreTo(phys)).
				KillAfter("tag-whole", group).
				Derive("tag-whole", []string{"tag-untouched"}, []string{"set:virtualID", "set:valueIDOffset", "set:physicalIndex"})
			fl2.MaxDepth = 0
			e2 := emptyState()
			e2.add("tag-untouched")
			e2.add("tag-whole")
			res2 := fl2.Analyze(fn, e2)
			c.noteFlow(fl2)
			c.Require("C27.K1", res2, AnyReturn, "the block id, its value-id offset and the physical index are updated together or not at all", []string{"tag-whole"})
		}
		n := c.Require("C27.K1", res, StoreTo(vid), "the cached block id is updated only after that block was read successfully", []string{"ok:value-block-read"})
		n += c.Require("C27.K1", res, isConstBoolStore(loaded, true), "the block is marked loaded only after it was read successfully", []string{"ok:value-block-read"})
		n += c.Require("C27.K1", res, read, "the previous block is marked not-loaded before its buffer is replaced", []string{"tag-invalidated"})
		if n < 3 {
			c.Unresolved("C27.K1", "tag stores / ReadValueBlock not found in cachedReader.GetUnsafeValue")
		}
	}
}
