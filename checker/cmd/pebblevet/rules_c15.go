package main

import (
	"fmt"

	"golang.org/x/tools/go/ssa"
)

func init() {
	register("C15", []string{".", "./sstable", "./internal/overlap"}, runC15)
	propTechnique["C15"] = "SSA must-facts dataflow over the sstable writers' add and close paths (every committed key widens the recorded sequence range; the recorded bounds are set before the block they describe is written), loop-examines-all, value provenance"
	propExplain["C15"] = "Decides one clause of C15 — 'every file's recorded bounds and sequence range contain its contents' — on the producing side, where it is visible in the shape of the sstable writers; the ordering of versions across levels and the non-overlap of files within a level are functions of runtime keys and are not decided. (M1) in both raw writers every path that appends a point key, a range deletion or a range key to a block and returns without error has passed WriterMetadata.updateSeqNum with that key's own sequence number (the columnar span encoder: for every key of the span); (M2) the smallest point / range-deletion key is recorded on every such path unless one was recorded before; the largest point key is recorded whenever the columnar writer enqueues a data block, from that block's last key; in both Close paths the range-deletion and range-key blocks are written only after their largest (columnar: and smallest) bounds were recorded. A table whose recorded sequence range or bounds are narrower than its contents is placed by flush, compaction, ingestion and the level checker as if those keys did not exist. (N1, shared with C43) the functions that compute the bounds of the virtual tables an excise leaves behind treat a nil seek as 'no keys on that side' only after consulting the iterator's Error() — otherwise a read error shrinks the recorded bounds below the contents; likewise the data-overlap probe (internal/overlap) that decides how deep an ingested table may be placed: a read error taken for 'no key in the region' puts the newest version of a key underneath an older one. Does not decide that the bounds are tight, nor anything about version edits or level assignment."
}

func runC15(c *Ctx) {
	// N1 (shared with C43, added after seed C15-a): the functions that compute the bounds of the
	// virtual tables an excise leaves behind treat a nil seek result as "no keys on that side"
	// only after the iterator's Error() was consulted.
	c43N1Only = func(top *ssa.Function) bool {
		n := top.Name()
		return n == "determineLeftTableBounds" || n == "determineRightTableBounds" || n == "determineExcisedTableBounds" || n == "exciseTable" ||
			(top.Pkg != nil && top.Pkg.Pkg.Path() == pkgAlias["overlap"]) // the data-overlap probe ingestTargetLevel relies on
	}
	before := len(c.Obs)
	runC43N1(c)
	c43N1Only = nil
	if len(c.Obs)-before < 3 {
		c.Unresolved("C43.N1", "the excise bound computations (determineLeft/RightTableBounds) were not found by the nil-means-exhausted rule")
	}
	updSeq := CallTo("sst.(*WriterMetadata).updateSeqNum")
	type site struct {
		fn      string
		add     M
		keyIdx  int // parameter index of the key being added (0 = receiver)
		small   M   // smallest-bound setter (nil: not checked here)
		already CondM
	}
	setter := func(n string) M { return CallTo("sst.(*WriterMetadata)." + n) }
	sites := []site{
		{"sst.(*RawColumnWriter).internalAdd", Or(MethodOn("Add", "recv.dataBlock"), MethodOn("AddWithSecondaryBlobHandle", "recv.dataBlock")), 1,
			setter("SetSmallestPointKey"), BoolGuard("recv.meta.HasPointKeys", true)},
		{"sst.(*RawRowWriter).addPoint", MethodOn("AddWithOptionalValuePrefix", "dataBlock"), 1,
			setter("SetSmallestPointKey"), BoolGuard("recv.meta.HasPointKeys", true)},
		{"sst.(*RawRowWriter).addTombstone", MethodOn("Add", "recv.rangeDelBlock"), 1,
			setter("SetSmallestRangeDelKey"), NonZeroGuard("recv.props.NumRangeDeletions")},
		{"sst.(*RawRowWriter).addRangeKey", MethodOn("Add", "recv.rangeKeyBlock"), 1, M{}, nil},
	}
	for _, s := range sites {
		fn := c.Fn("C15.M1", s.fn)
		if fn == nil {
			continue
		}
		s.add = ViaHelper(s.add)
		if len(instrs(fn, s.add)) == 0 {
			c.Unresolved("C15.M1", "block append not found in "+s.fn)
			continue
		}
		keyParam := fn.Params[s.keyIdx]
		ownSeq := And(updSeq, Pred("of this key's SeqNum()", func(in ssa.Instruction) bool {
			cc := getCallCommon(in)
			return len(derivesFrom(cc.Args[len(cc.Args)-1], func(v ssa.Value) bool { return v == ssa.Value(keyParam) }, 6)) > 0
		}))
		fl := NewFlow(c.P).
			KillAfter("nothing-added", s.add).
			KillAfter("seq-ok", s.add).
			After("seqnum-recorded", ownSeq).
			Derive("seq-ok", []string{"nothing-added"}, []string{"seqnum-recorded"})
		if s.small.F != nil {
			fl.KillAfter("small-ok", s.add).
				After("smallest-recorded", s.small).
				Edge("smallest-recorded", s.already).
				Derive("small-ok", []string{"nothing-added"}, []string{"smallest-recorded"})
		}
		fl.MaxDepth = 1
		entry := emptyState()
		entry.add("nothing-added")
		entry.add("seq-ok")
		entry.add("small-ok")
		res := fl.Analyze(fn, entry)
		c.noteFlow(fl)
		c.RequireAtSuccess("C15.M1", res, "a key appended to a block widened the table's recorded sequence range with its own seqnum", []string{"seq-ok"})
		if len(instrs(fn, ownSeq)) == 0 {
			c.Ob("C15.M1", fn, "updateSeqNum receives the added key's SeqNum()", c.P.Pos(fn.Pos()), false, "no updateSeqNum call in "+s.fn+" takes the sequence number of the key being added")
		}
		if s.small.F != nil {
			c.RequireAtSuccess("C15.M2", res, "the smallest bound of this key class is recorded once a key of the class was appended", []string{"small-ok"})
		}
	}
	// the columnar span encoder: every key of the span
	if fn := c.Fn("C15.M1", "sst.(*RawColumnWriter).EncodeSpan"); fn != nil {
		addSpan := Pred("AddSpan", func(in ssa.Instruction) bool {
			cc := getCallCommon(in)
			return cc != nil && infoOfCommon(cc).Short == "AddSpan"
		})
		if len(instrs(fn, addSpan)) == 0 {
			c.Unresolved("C15.M1", "AddSpan not found in EncodeSpan")
		}
		if n := c.LoopExaminesAll("C15.M1", fn, updSeq, "every key of an encoded span widens the recorded sequence range"); n == 0 {
			c.Ob("C15.M1", fn, "EncodeSpan records the sequence numbers of the span's keys", c.P.Pos(fn.Pos()), false, "no loop over the span's keys calling updateSeqNum in EncodeSpan")
		}
	}
	// M2: largest point key of the columnar writer, per enqueued data block
	if fn := c.Fn("C15.M2", "sst.(*RawColumnWriter).enqueueDataBlock"); fn != nil {
		setL := setter("SetLargestPointKey")
		fl := NewFlow(c.P).After("largest-recorded", setL)
		fl.MaxDepth = 0
		res := fl.Analyze(fn, emptyState())
		c.noteFlow(fl)
		c.RequireAtSuccess("C15.M2", res, "the largest point key is recorded for every data block handed to the write queue", []string{"largest-recorded"})
		lastKey := fn.Params[2]
		n := 0
		for _, in := range instrs(fn, setL) {
			cc := getCallCommon(in)
			n++
			ok := len(derivesFrom(cc.Args[len(cc.Args)-1], func(v ssa.Value) bool { return v == ssa.Value(lastKey) }, 8)) > 0
			c.Ob("C15.M2", fn, "the recorded largest point key is the block's last key", c.P.Pos(in.Pos()), ok,
				map[bool]string{true: "", false: "SetLargestPointKey is not given a key built from this block's last key"}[ok])
		}
		if n == 0 {
			c.Unresolved("C15.M2", "SetLargestPointKey not called in enqueueDataBlock")
		}
	}
	// M2: span blocks are written only after their bounds were recorded
	for _, cl := range []struct {
		fn   string
		need map[string][]string
	}{
		{"sst.(*RawColumnWriter).Close", map[string][]string{
			"WriteRangeDeletionBlock": {"SetSmallestRangeDelKey", "SetLargestRangeDelKey"},
			"WriteRangeKeyBlock":      {"SetSmallestRangeKey", "SetLargestRangeKey"}}},
		{"sst.(*RawRowWriter).Close", map[string][]string{
			"WriteRangeDeletionBlock": {"SetLargestRangeDelKey"},
			"WriteRangeKeyBlock":      {"SetLargestRangeKey"}}},
	} {
		fn := c.Fn("C15.M2", cl.fn)
		if fn == nil {
			continue
		}
		fl := NewFlow(c.P)
		for _, setters := range cl.need {
			for _, st := range setters {
				fl.After("did:"+st, setter(st))
			}
		}
		fl.MaxDepth = 1
		res := fl.Analyze(fn, emptyState())
		c.noteFlow(fl)
		for wr, setters := range cl.need {
			var facts []string
			for _, st := range setters {
				facts = append(facts, "did:"+st)
			}
			wr := wr
			m := Pred("call "+wr, func(in ssa.Instruction) bool {
				cc := getCallCommon(in)
				return cc != nil && infoOfCommon(cc).Short == wr
			})
			if n := c.Require("C15.M2", res, m, "the "+wr+" call is preceded by the recording of that block's bounds", facts); n == 0 {
				c.Unresolved("C15.M2", fmt.Sprintf("%s not found in %s", wr, cl.fn))
			}
		}
	}
}
