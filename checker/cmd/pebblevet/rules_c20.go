package main

import (
	"go/token"
	"go/types"
	"golang.org/x/tools/go/ssa"
)

func init() {
	register("C20", []string{"./record"}, runC20)
	propExplain["C20"] = "Decides the ordering/gating clause of C20 in record.LogWriter: the snapshot of sync waiters is taken before the written-offset is read (waiters never cover bytes that were not picked up); in flushPending every write and the fsync execute only where the accumulated error is nil, waiters are popped only after the fsync decision, with the accumulated (not a constant) error; a waiter's error slot is stored before its WaitGroup is released; Close syncs before closing; only the flush loop pops waiters. (L1) the flusher's accumulated error, its queue of full blocks and its close flag — from which a waiter's acknowledgement is computed — are accessed only with flusher.Mutex held (lockset over package record; the constructor and the read after <-flusher.closed are the justified contexts). Does not decide timer interleavings."
}

// namedErrCell returns the local cell of the (named) error result of fn.
func namedErrCell(fn *ssa.Function) ssa.Value {
	for _, b := range fn.Blocks {
		if len(b.Instrs) == 0 {
			continue
		}
		if ret, ok := b.Instrs[len(b.Instrs)-1].(*ssa.Return); ok && len(ret.Results) > 0 {
			if c := cellOfLoad(ret.Results[len(ret.Results)-1]); c != nil {
				return c
			}
		}
	}
	return nil
}

func runC20(c *Ctx) { runC20Core(c) }

func runC20Core(c *Ctx) {
	runC20L1(c)
	// C20.O1: flushLoop: snapshotForPop ≺ the written.Load that bounds the data slice
	if fn := c.Fn("C20.O1", "rec.(*LogWriter).flushLoop"); fn != nil {
		fl := NewFlow(c.P).After("did:snapshotForPop", MethodOn("snapshotForPop", "pendingSyncs"))
		res := fl.Analyze(fn, emptyState())
		c.noteFlow(fl)
		found := 0
		for _, b := range fn.Blocks {
			for _, in := range b.Instrs {
				sl, ok := in.(*ssa.Slice)
				if !ok || !pathHasSuffix(pathOf(sl.X), "block.buf") || sl.High == nil {
					continue
				}
				hi := stripConv(sl.High)
				call, ok := hi.(*ssa.Call)
				if !ok || !MethodOn("Load", "block.written").F(call) {
					c.Ob("C20.O1", fn, "data slice bounded by block.written.Load()", c.P.Pos(in.Pos()), false,
						"the high bound of the flushed data slice is no longer the result of w.block.written.Load()")
					found++
					continue
				}
				found++
				st := res.stateBefore(call)
				ok2 := st.has("did:snapshotForPop")
				detail := ""
				if !ok2 {
					detail = "block.written is read before pendingSyncs.snapshotForPop(): the snapshot may include waiters whose bytes are not part of this flush"
				}
				c.Ob("C20.O1", fn, "snapshotForPop ≺ written.Load bounding data", c.P.Pos(call.Pos()), ok2, detail)
			}
		}
		if found == 0 {
			c.Unresolved("C20.O1", "slice of w.block.buf not found in flushLoop")
		}
		// error branch passes the flusher error to pop
		n := 0
		for _, in := range instrs(fn, MethodOn("pop", "pendingSyncs")) {
			n++
			args := in.(*ssa.Call).Common().Args
			last := args[len(args)-1]
			ok := !isNilConst(last)
			c.Ob("C20.O1", fn, "flushLoop pops waiters with the recorded flusher error", c.P.Pos(in.Pos()), ok, map[bool]string{true: "", false: "pendingSyncs.pop is called with a constant nil error"}[ok])
		}
		// syncedOffset advanced only when synced (C19.W1 shares)
	}
	// C20.O2: flushPending
	if fn := c.Fn("C20.O2", "rec.(*LogWriter).flushPending"); fn != nil {
		cell := namedErrCell(fn)
		if cell == nil {
			c.Unresolved("C20.O2", "named error result cell of flushPending not found")
		} else {
			errNil := "nil:cell:" + cell.Name()
			fl := NewFlow(c.P).
				After("sync-decided", CallTo("rec.(*LogWriter).syncWithLatency")).
				After("sync-decided", Pred("synced = false", func(in ssa.Instruction) bool {
					st, ok := in.(*ssa.Store)
					if !ok || !isCell(st.Addr) {
						return false
					}
					k, isC := st.Val.(*ssa.Const)
					return isC && pathOf(st.Addr) == fn.Signature.Results().At(0).Name() && k.Value != nil && k.Value.String() == "false"
				}))
			entry := emptyState()
			entry.add(errNil) // a named result starts out nil
			res := fl.Analyze(fn, entry)
			c.noteFlow(fl)
			n := c.Require("C20.O2", res, CallTo("rec.(*LogWriter).flushBlock"), "flushBlock only while the accumulated error is nil", []string{errNil})
			n2 := c.Require("C20.O2", res, MethodOn("Write", "recv.w"), "tail write only while the accumulated error is nil", []string{errNil})
			n3 := c.Require("C20.O2", res, CallTo("rec.(*LogWriter).syncWithLatency"), "fsync only while the accumulated error is nil", []string{errNil})
			n4 := c.Require("C20.O2", res, MethodOn("pop", "pendingSyncs"), "waiters popped only after the fsync decision", []string{"sync-decided"})
			if n == 0 || n2 == 0 || n4 == 0 {
				c.Unresolved("C20.O2", "flushBlock / w.w.Write / pendingSyncs.pop not found in flushPending")
			}
			if n3 == 0 {
				c.Ob("C20.O2", fn, "step syncWithLatency present", c.P.Pos(fn.Pos()), false, "flushPending no longer calls syncWithLatency")
			}
			for _, in := range instrs(fn, MethodOn("pop", "pendingSyncs")) {
				args := in.(*ssa.Call).Common().Args
				last := args[len(args)-1]
				ok := cellOfLoad(last) == cell
				c.Ob("C20.O2", fn, "pop receives the accumulated write/sync error", c.P.Pos(in.Pos()), ok,
					map[bool]string{true: "", false: "pendingSyncs.pop's error argument is not the accumulated error of the writes and the fsync (" + pathOf(last) + ")"}[ok])
			}
		}
	}
	// C20.O3: a waiter's error is stored before it is released
	if fn := c.Fn("C20.O3", "rec.(*syncQueue).pop"); fn != nil {
		c.Chain("C20.O3", fn, nil,
			Step{Name: "store *slot.err", M: StoreThrough(c.Field("C20.O3", "rec.syncSlot.err"))},
			Step{Name: "wg.Done", M: CallTo("sync.(*WaitGroup).Done")},
		)
		for _, in := range instrs(fn, StoreThrough(c.Field("C20.O3", "rec.syncSlot.err"))) {
			v := in.(*ssa.Store).Val
			ok := pathOf(v) == ParamName(fn, 3)
			c.Ob("C20.O3", fn, "slot error is pop's err parameter", c.P.Pos(in.Pos()), ok, map[bool]string{true: "", false: "value stored into the waiter's error slot is " + pathOf(v)}[ok])
		}
	}
	if fn := c.Fn("C20.O3", "rec.(*pendingSyncsWithHighestSyncIndex).pop"); fn != nil {
		n := 0
		for _, in := range instrs(fn, DynCall("externalSyncQueueCallback")) {
			n++
			args := in.(*ssa.Call).Common().Args
			ok := len(args) >= 2 && pathOf(args[len(args)-1]) == ParamName(fn, 2)
			c.Ob("C20.O3", fn, "external callback receives pop's err", c.P.Pos(in.Pos()), ok, "")
		}
		if n == 0 {
			c.Unresolved("C20.O3", "externalSyncQueueCallback call not found")
		}
	}
	// C20.O4 / C12.O3: closeInternal: flush loop finished ≺ sync (unless error / no syncer) ≺ Close
	c20CloseInternal(c, "C20.O4")
	// C20.W1: only the flush loop pops; only syncQueue.pop releases waiters
	c.Who("C20.W1", FuncRef("rec.(pendingSyncs).pop", "rec.(*pendingSyncsWithSyncQueue).pop", "rec.(*pendingSyncsWithHighestSyncIndex).pop"),
		"pendingSyncs.pop only from the flush loop", "rec.(*LogWriter).flushLoop", "rec.(*LogWriter).flushPending")
	c.Who("C20.W1", FuncRef("rec.(*syncQueue).pop"), "syncQueue.pop only via pendingSyncsWithSyncQueue.pop", "rec.(*pendingSyncsWithSyncQueue).pop")
}

func c20CloseInternal(c *Ctx, rule string) {
	fn := c.Fn(rule, "rec.(*LogWriter).closeInternal")
	if fn == nil {
		return
	}
	fl := NewFlow(c.P).
		Edge("sync|skip", ZeroGuard("recv.s")).
		Edge("sync|skip", NonZeroGuard("flusher.err"))
	c.Chain(rule, fn, fl,
		Step{Name: "<-f.closed", M: RecvFrom("closed")},
		Step{Name: "syncWithLatency", M: CallTo("rec.(*LogWriter).syncWithLatency"), Also: "sync|skip"},
		Step{Name: "w.c.Close", M: MethodOn("Close", "recv.c"), Need: []string{"sync|skip", "did:<-f.closed"}},
	)
	for _, in := range instrs(fn, DynCall("externalSyncQueueCallback")) {
		args := in.(*ssa.Call).Common().Args
		ok := len(args) >= 2 && !isNilConst(args[len(args)-1])
		c.Ob(rule, fn, "external callback receives the close-time sync error", c.P.Pos(in.Pos()), ok, "")
	}
}

var c20L1Held = map[string]string{
	"rec.NewLogWriter": "constructor: the LogWriter is not shared before it returns (the flush loop is started by its last statement)",
}

// runC20L1: the flusher's accumulated error, its queue of full blocks and its close flag are
// shared between the writer goroutine(s) and the flush loop; they are accessed only with
// flusher.Mutex held (the acknowledgement a sync waiter receives is computed from them).
func runC20L1(c *Ctx) {
	fl := c.Field("C20.L1", "rec.LogWriter.flusher")
	st, _ := fl.Type().Underlying().(*types.Struct)
	if st == nil {
		c.Unresolved("C20.L1", "LogWriter.flusher is not a struct")
		return
	}
	var prot []*types.Var
	for i := 0; i < st.NumFields(); i++ {
		switch st.Field(i).Name() {
		case "err", "pending", "close":
			prot = append(prot, st.Field(i))
		}
	}
	if len(prot) != 3 {
		c.Unresolved("C20.L1", "flusher.err / pending / close not found")
		return
	}
	funcs := pkgFuncs(c, pkgAlias["rec"])
	site := fieldSites("LogWriter.flusher", prot...)
	// `<-flusher.closed` also grants exclusive access: the channel is closed by the flush loop's
	// deferred exit, after which nothing else writes these fields (Close is not concurrent with
	// writes); closeInternal reads flusher.err right after it.
	flushLoopGone := M{Desc: "<-flusher.closed", F: func(in ssa.Instruction) bool {
		u, ok := in.(*ssa.UnOp)
		return ok && u.Op == token.ARROW && fieldNamed(u.X, "closed")
	}}
	ls := &LockSet{c: c, Rule: "C20.L1", IsLock: Or(mutexIn(fl, "Lock"), flushLoopGone), IsUnlock: mutexIn(fl, "Unlock"), Funcs: funcs, HeldAtEntry: prefixKeys(c20L1Held), Site: site}
	ls.Run()
	n := countSites(funcs, site)
	c.Note("C20.L1: %d accesses to flusher.err/pending/close analysed", n)
	c.Ob("C20.L1", nil, "flusher-mutex-protected field accesses analysed", "", n >= 8, "")
}
