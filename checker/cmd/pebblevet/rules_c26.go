package main

import (
	"fmt"
	"go/constant"
	"go/token"
	"go/types"
	"sort"
	"strings"

	"golang.org/x/tools/go/ssa"
)

func init() {
	pkgAlias["bloom"] = modPath + "/sstable/tablefilters/bloom"
	pkgAlias["bfuse"] = modPath + "/sstable/tablefilters/binaryfuse"
	register("C26", []string{"./sstable", "./sstable/tablefilters/bloom", "./sstable/tablefilters/binaryfuse"}, runC26)
	propTechnique["C26"] = "sibling agreement on canonicalised SSA expressions (bloom set/probe, writer/decoder hash), must-facts dataflow in the sstable writers (filter fed on every committed key) and in seekPrefixGE (TrySeekUsingNext cleared after a filter miss), value provenance of the consulted prefix"
	propExplain["C26"] = "Decides structural necessary conditions of C26 (whether a given bit pattern answers 'maybe' is value-level and is not decided): (H1) in each filter family the writer's AddKey and the decoder's MayContain hash the key with the same function; (B1) the bloom filter's set and probe compute the same cache line, byte index and bit mask from a hash — a bit set in one place and tested in another is a false negative for some hash; (F1) in both sstable writers every path that appends a point key to a data block and returns without error has fed that key's prefix (a leading slice of the same user key) to the filter writer, unless no filter is configured; (R1) a prefix seek consults the filter with the prefix it was given (minus the synthetic prefix), not with another key; (T1) in the single- and two-level seekPrefixGE the caller's TrySeekUsingNext flag reaches the positioning code only on paths where the filter is not in use, the previous prefix seek passed the filter, or the flag was cleared — after a filter miss the iterator was not positioned by that seek, and stepping from the stale position skips keys that exist."
}

// canonExpr prints an SSA value as a canonical expression over the parameters of its function
// (addressed by position, never by name): commutative operands sorted, x>>k ≡ x/2^k and
// x&(2^k-1) ≡ x%2^k for constants, loop-carried values as φ{…} with the back edge as φself.
func canonExpr(v ssa.Value, inProg map[ssa.Value]bool, d int) string {
	if d > 12 {
		return "…"
	}
	if inProg[v] {
		return "φself"
	}
	pow2 := func(k ssa.Value) (int64, bool) {
		c, ok := stripConv(k).(*ssa.Const)
		if !ok || c.Value == nil || c.Value.Kind() != constant.Int {
			return 0, false
		}
		n, ok := constant.Int64Val(c.Value)
		return n, ok
	}
	switch x := v.(type) {
	case *ssa.Const:
		if x.Value == nil {
			return "nil"
		}
		return x.Value.ExactString()
	case *ssa.Parameter:
		for i, p := range x.Parent().Params {
			if p == x {
				return fmt.Sprintf("p%d", i)
			}
		}
		return "p?"
	case *ssa.Convert:
		return "conv:" + x.Type().Underlying().String() + "(" + canonExpr(x.X, inProg, d+1) + ")"
	case *ssa.ChangeType:
		return canonExpr(x.X, inProg, d+1)
	case *ssa.BinOp:
		l, r := canonExpr(x.X, inProg, d+1), canonExpr(x.Y, inProg, d+1)
		switch x.Op {
		case token.SHR:
			if n, ok := pow2(x.Y); ok && n >= 0 && n < 63 {
				return fmt.Sprintf("(/ %s %d)", l, int64(1)<<uint(n))
			}
		case token.SHL:
			if n, ok := pow2(x.Y); ok && n >= 0 && n < 63 {
				return fmt.Sprintf("(* %s %d)", l, int64(1)<<uint(n))
			}
		case token.AND:
			if n, ok := pow2(x.Y); ok && n > 0 && (n+1)&n == 0 {
				return fmt.Sprintf("(%% %s %d)", l, n+1)
			}
			if n, ok := pow2(x.X); ok && n > 0 && (n+1)&n == 0 {
				return fmt.Sprintf("(%% %s %d)", r, n+1)
			}
		}
		switch x.Op {
		case token.ADD, token.MUL, token.AND, token.OR, token.XOR, token.EQL, token.NEQ:
			if r < l {
				l, r = r, l
			}
		}
		return "(" + x.Op.String() + " " + l + " " + r + ")"
	case *ssa.UnOp:
		if x.Op == token.MUL {
			return "load(" + canonExpr(x.X, inProg, d+1) + ")"
		}
		return "(" + x.Op.String() + " " + canonExpr(x.X, inProg, d+1) + ")"
	case *ssa.Phi:
		inProg[x] = true
		var es []string
		for _, e := range x.Edges {
			es = append(es, canonExpr(e, inProg, d+1))
		}
		delete(inProg, x)
		sort.Strings(es)
		return "φ{" + strings.Join(es, ",") + "}"
	case *ssa.Call:
		ci := infoOfCommon(x.Common())
		var as []string
		for _, a := range x.Common().Args {
			as = append(as, canonExpr(a, inProg, d+1))
		}
		return ci.QName + "(" + strings.Join(as, ",") + ")"
	case *ssa.IndexAddr:
		return "idx(" + canonExpr(x.X, inProg, d+1) + "," + canonExpr(x.Index, inProg, d+1) + ")"
	case *ssa.FieldAddr:
		return fmt.Sprintf("fld(%s.%d)", canonExpr(x.X, inProg, d+1), x.Field)
	case *ssa.Field:
		return fmt.Sprintf("fld(%s.%d)", canonExpr(x.X, inProg, d+1), x.Field)
	case *ssa.Alloc:
		// a spilled value receiver / parameter: name it by what is first stored into it
		for _, ref := range *x.Referrers() {
			if st, ok := ref.(*ssa.Store); ok && st.Addr == ssa.Value(x) {
				if _, isP := st.Val.(*ssa.Parameter); isP {
					return "spill(" + canonExpr(st.Val, inProg, d+1) + ")"
				}
			}
		}
		return "alloc"
	}
	return fmt.Sprintf("‹%T›", v)
}

// bitTouch describes one access of a filter bit: where (canonical address) and which bit (mask).
type bitTouch struct {
	addr, mask string
	in         ssa.Instruction
}

// bitTouches finds `addr |= mask` stores (write=true) or `*addr & mask` tests (write=false)
// on byte-sized elements in fn.
func bitTouches(fn *ssa.Function, write bool) []bitTouch {
	var out []bitTouch
	isByteLoad := func(v ssa.Value) (*ssa.UnOp, bool) {
		u, ok := v.(*ssa.UnOp)
		if !ok || u.Op != token.MUL {
			return nil, false
		}
		if _, isIdx := u.X.(*ssa.IndexAddr); !isIdx {
			return nil, false
		}
		b, ok := u.Type().Underlying().(*types.Basic)
		return u, ok && b.Kind() == types.Uint8
	}
	for _, b := range fn.Blocks {
		for _, in := range b.Instrs {
			if write {
				st, ok := in.(*ssa.Store)
				if !ok {
					continue
				}
				bo, ok := st.Val.(*ssa.BinOp)
				if !ok || bo.Op != token.OR {
					continue
				}
				for _, pair := range [][2]ssa.Value{{bo.X, bo.Y}, {bo.Y, bo.X}} {
					if ld, ok := isByteLoad(pair[0]); ok && canonExpr(ld.X, map[ssa.Value]bool{}, 0) == canonExpr(st.Addr, map[ssa.Value]bool{}, 0) {
						out = append(out, bitTouch{canonExpr(st.Addr, map[ssa.Value]bool{}, 0), canonExpr(pair[1], map[ssa.Value]bool{}, 0), in})
						break
					}
				}
			} else {
				bo, ok := in.(*ssa.BinOp)
				if !ok || bo.Op != token.AND {
					continue
				}
				for _, pair := range [][2]ssa.Value{{bo.X, bo.Y}, {bo.Y, bo.X}} {
					if ld, ok := isByteLoad(pair[0]); ok {
						out = append(out, bitTouch{canonExpr(ld.X, map[ssa.Value]bool{}, 0), canonExpr(pair[1], map[ssa.Value]bool{}, 0), in})
						break
					}
				}
			}
		}
	}
	return out
}

func runC26(c *Ctx) {
	// ---- C26.H1: writer and decoder of one family hash the key with the same function ----
	for _, fam := range []string{"bloom", "bfuse"} {
		w := c.Fn("C26.H1", fam+".(*tableFilterWriter).AddKey")
		r := c.Fn("C26.H1", fam+".(decoderImpl).MayContain")
		if w == nil || r == nil {
			continue
		}
		hashOf := func(fn *ssa.Function) map[string]bool {
			key := fn.Params[len(fn.Params)-1]
			set := map[string]bool{}
			for _, b := range fn.Blocks {
				for _, in := range b.Instrs {
					call, ok := in.(*ssa.Call)
					if !ok || len(call.Common().Args) == 0 {
						continue
					}
					bt, isInt := call.Type().Underlying().(*types.Basic)
					if !isInt || bt.Info()&types.IsInteger == 0 {
						continue
					}
					for _, a := range call.Common().Args {
						if len(derivesFrom(a, func(v ssa.Value) bool { return v == ssa.Value(key) }, 3)) > 0 {
							set[infoOfCommon(call.Common()).QName] = true
						}
					}
				}
			}
			return set
		}
		hw, hr := hashOf(w), hashOf(r)
		names := func(m map[string]bool) string {
			var s []string
			for k := range m {
				s = append(s, k)
			}
			sort.Strings(s)
			return strings.Join(s, ",")
		}
		if len(hw) == 0 || len(hr) == 0 {
			c.Unresolved("C26.H1", fmt.Sprintf("no integer-valued hash of the key found in %s (writer: %q, decoder: %q)", fam, names(hw), names(hr)))
			continue
		}
		ok := names(hw) == names(hr)
		c.Ob("C26.H1", r, "decoder hashes the key like the writer of its family ("+names(hw)+")", c.P.Pos(r.Pos()), ok,
			map[bool]string{true: "", false: fmt.Sprintf("writer hashes with {%s}, decoder with {%s}: keys added are looked up under a different hash", names(hw), names(hr))}[ok])
	}

	// ---- C26.B1: bloom set / probe touch the same bit for the same hash ----
	{
		set := c.Fn("C26.B1", "bloom.(filterBits).set")
		probe := c.Fn("C26.B1", "bloom.(filterBits).probe")
		if set != nil && probe != nil {
			ws, rs := bitTouches(set, true), bitTouches(probe, false)
			if len(ws) != 1 || len(rs) != 1 {
				c.Unresolved("C26.B1", fmt.Sprintf("expected one `line[i] |= m` in set and one `line[i] & m` in probe, found %d and %d", len(ws), len(rs)))
			} else {
				// parameters: set(recv, nProbes, h), probe(recv, nProbes, h) — same positions
				okA := ws[0].addr == rs[0].addr
				okM := ws[0].mask == rs[0].mask
				c.Ob("C26.B1", probe, "probe reads the byte that set writes", c.P.Pos(rs[0].in.Pos()), okA,
					map[bool]string{true: "", false: "set writes " + ws[0].addr + " but probe reads " + rs[0].addr}[okA])
				c.Ob("C26.B1", probe, "probe tests the bit that set sets", c.P.Pos(rs[0].in.Pos()), okM,
					map[bool]string{true: "", false: "set ORs in " + ws[0].mask + " but probe tests " + rs[0].mask}[okM])
			}
		}
	}

	tfw := c.Iface("C26.F1", "base.TableFilterWriter")
	addKey := ImplCall(tfw, "base.TableFilterWriter", "AddKey")

	// ---- C26.F1: every committed point key feeds the filter ----
	type feedSite struct {
		fn    string
		add   M
		depth int
	}
	for _, fs := range []feedSite{
		{"sst.(*RawColumnWriter).internalAdd", Or(MethodOn("Add", "recv.dataBlock"), MethodOn("AddWithSecondaryBlobHandle", "recv.dataBlock")), 1},
		{"sst.(*RawRowWriter).addPoint", MethodOn("AddWithOptionalValuePrefix", "dataBlock"), 1},
	} {
		fn := c.Fn("C26.F1", fs.fn)
		if fn == nil || tfw == nil {
			continue
		}
		fs.add = ViaHelper(fs.add)
		fl := NewFlow(c.P).
			KillAfter("nothing-added", fs.add).
			KillAfter("key-filterable", fs.add).
			After("filter-fed", addKey).
			Edge("filter-fed", ZeroGuard("recv.filterWriter")).
			Derive("key-filterable", []string{"nothing-added"}, []string{"filter-fed"})
		fl.MaxDepth = fs.depth
		entry := emptyState()
		entry.add("nothing-added")
		entry.add("key-filterable")
		res := fl.Analyze(fn, entry)
		c.noteFlow(fl)
		if len(instrs(fn, fs.add)) == 0 {
			c.Unresolved("C26.F1", "data-block append not found in "+fs.fn)
			continue
		}
		c.RequireAtSuccess("C26.F1", res, "a point key appended to a data block was added to the table filter (or no filter is configured)", []string{"key-filterable"})
		// what is fed is a leading slice of the user key being added
		n := 0
		keyParam := fn.Params[1]
		checkArg := func(owner *ssa.Function, in ssa.Instruction, keyIs func(ssa.Value) bool) {
			cc := getCallCommon(in)
			arg := cc.Args[len(cc.Args)-1]
			sl, isSlice := stripConv(arg).(*ssa.Slice)
			ok := isSlice && (sl.Low == nil || isZeroConst(sl.Low)) && len(derivesFrom(sl.X, keyIs, 5)) > 0
			n++
			c.Ob("C26.F1", owner, "the filter is fed a leading slice of the key being added", c.P.Pos(in.Pos()), ok,
				map[bool]string{true: "", false: "the argument of AddKey is not key[:n] of the key this call adds"}[ok])
		}
		for _, in := range instrs(fn, addKey) {
			checkArg(fn, in, func(v ssa.Value) bool { return v == ssa.Value(keyParam) })
		}
		if n == 0 {
			// through a helper of the writer that takes the user key
			for _, b := range fn.Blocks {
				for _, in := range b.Instrs {
					call, ok := in.(*ssa.Call)
					if !ok {
						continue
					}
					cal := call.Common().StaticCallee()
					if cal == nil || !inModule(cal) || len(cal.Blocks) == 0 || len(instrs(cal, addKey)) == 0 {
						continue
					}
					// the helper's key parameter must be fed from this function's key
					fed := false
					for i, a := range call.Common().Args {
						if i == 0 {
							continue
						}
						if len(derivesFrom(a, func(v ssa.Value) bool { return v == ssa.Value(keyParam) }, 4)) > 0 {
							p := cal.Params[i]
							for _, in2 := range instrs(cal, addKey) {
								checkArg(cal, in2, func(v ssa.Value) bool { return v == ssa.Value(p) })
							}
							fed = true
						}
					}
					if !fed {
						c.Ob("C26.F1", fn, "the filter helper receives the key being added", c.P.Pos(call.Pos()), false, "the helper that feeds the filter is not passed the key this call adds")
						n++
					}
				}
			}
		}
		if n == 0 {
			c.Unresolved("C26.F1", "no AddKey call found in or directly below "+fs.fn)
		}
	}

	// ---- C26.R1 / C26.T1: the prefix seek ----
	flagsT := c.P.TypeByPath("base.SeekGEFlags")
	if flagsT == nil {
		c.Unresolved("C26.T1", "type base.SeekGEFlags not found")
	}
	for _, name := range []string{"sst.(*singleLevelIterator).seekPrefixGE", "sst.(*twoLevelIterator).seekPrefixGE"} {
		fn := c.Fn("C26.R1", name)
		if fn == nil || flagsT == nil {
			continue
		}
		// R1: the filter is consulted with the prefix parameter
		consult := Pred("call bloomFilterMayContain", func(in ssa.Instruction) bool {
			cc := getCallCommon(in)
			return cc != nil && infoOfCommon(cc).Short == "bloomFilterMayContain"
		})
		nc := 0
		for _, in := range instrs(fn, consult) {
			cc := getCallCommon(in)
			arg := cc.Args[len(cc.Args)-1]
			ok := stripConv(arg) == ssa.Value(fn.Params[1])
			nc++
			c.Ob("C26.R1", fn, "the filter is consulted with the seek's prefix", c.P.Pos(in.Pos()), ok,
				map[bool]string{true: "", false: "bloomFilterMayContain is not passed this seek's prefix parameter"}[ok])
		}
		if nc == 0 {
			c.Unresolved("C26.R1", "no filter consultation found in "+name)
		}
		// T1
		useF := c.Field("C26.T1", strings.TrimSuffix(strings.Replace(strings.Replace(name, "(*", "", 1), ")", "", 1), ".seekPrefixGE")+".useFilterBlock")
		lastM := c.Field("C26.T1", strings.TrimSuffix(strings.Replace(strings.Replace(name, "(*", "", 1), ")", "", 1), ".seekPrefixGE")+".lastBloomFilterMatched")
		if useF == nil || lastM == nil {
			continue
		}
		fieldBool := func(f *types.Var, whenTrue bool) CondM {
			return func(v ssa.Value) (bool, bool) {
				if !isLoadOfField(v, f) {
					return false, false
				}
				return true, !whenTrue
			}
		}
		disable := Pred("flags.DisableTrySeekUsingNext() (result used)", func(in ssa.Instruction) bool {
			call, ok := in.(*ssa.Call)
			if !ok || infoOfCommon(call.Common()).Short != "DisableTrySeekUsingNext" {
				return false
			}
			return call.Referrers() != nil && len(*call.Referrers()) > 0
		})
		onward := Pred("call taking the seek flags", func(in ssa.Instruction) bool {
			call, ok := in.(*ssa.Call)
			if !ok {
				return false
			}
			cc := call.Common()
			start := 0
			if cal := cc.StaticCallee(); cal != nil && cal.Signature.Recv() != nil {
				if types.Identical(cal.Signature.Recv().Type(), flagsT) {
					return false // a method of the flags value itself
				}
				start = 1
			}
			for i := start; i < len(cc.Args); i++ {
				if types.Identical(cc.Args[i].Type(), flagsT) {
					return true
				}
			}
			return false
		})
		fl := NewFlow(c.P).
			Edge("position-from-last-seek", fieldBool(useF, false)).
			Edge("position-from-last-seek", fieldBool(lastM, true)).
			After("position-from-last-seek", disable)
		// the other way the flag is acted on: an early "already exhausted" return taken because
		// TrySeekUsingNext is set
		fl.Edge("acting-on-try-seek-using-next", func(v ssa.Value) (bool, bool) {
			call, ok := v.(*ssa.Call)
			return ok && infoOfCommon(call.Common()).Short == "TrySeekUsingNext", false
		}).KillAfter("acting-on-try-seek-using-next", disable)
		fl.MaxDepth = 0
		res := fl.Analyze(fn, emptyState())
		c.noteFlow(fl)
		res.At(AnyReturn, func(in ssa.Instruction, s State) {
			if !s.Reachable() || !s.has("acting-on-try-seek-using-next") {
				return
			}
			ok := s.has("position-from-last-seek")
			c.Ob("C26.T1", fn, "an early return taken because TrySeekUsingNext is set relies on a position the last prefix seek established", c.P.Pos(in.Pos()), ok,
				map[bool]string{true: "", false: "this return is reached on the TrySeekUsingNext()==true edge also after a filter miss, when the iterator was not positioned by the last seek (state " + s.String() + ")"}[ok])
		})
		if n := c.Require("C26.T1", res, onward, "the seek flags are passed on only if the filter is unused, the last prefix seek passed it, or TrySeekUsingNext was cleared", []string{"position-from-last-seek"}); n == 0 {
			c.Unresolved("C26.T1", "no call passing the seek flags onward found in "+name)
		}
	}
	// R1 (second half): what reaches the decoder derives from the prefix parameter
	if fn := c.Fn("C26.R1", "sst.(*singleLevelIterator).bloomFilterMayContain"); fn != nil {
		may := Pred("call tableFilter.mayContain", func(in ssa.Instruction) bool {
			cc := getCallCommon(in)
			return cc != nil && infoOfCommon(cc).Short == "mayContain"
		})
		n := 0
		for _, in := range instrs(fn, may) {
			cc := getCallCommon(in)
			arg := cc.Args[len(cc.Args)-1]
			ok := len(derivesFrom(arg, func(v ssa.Value) bool { return v == ssa.Value(fn.Params[1]) }, 5)) > 0
			n++
			c.Ob("C26.R1", fn, "the decoder is asked about the prefix that was sought", c.P.Pos(in.Pos()), ok,
				map[bool]string{true: "", false: "the key handed to mayContain does not derive from the prefix parameter"}[ok])
		}
		if n == 0 {
			c.Unresolved("C26.R1", "no tableFilter.mayContain call in bloomFilterMayContain")
		}
	}
}
