package main

import (
	"go/token"

	"golang.org/x/tools/go/ssa"
)

func init() {
	register("C13", []string{"."}, runC13)
	propExplain["C13"] = "Decides the guard clause of C13: in every function of package pebble that reads the memtable list of an Iterator's read state, the list (or anything derived from it) reaches a call only at program points dominated by the false edge of a test of IterOptions.OnlyReadGuaranteedDurable; the flag cannot be combined with a batch or snapshot view (panic guard precedes view acquisition); and SetOptions reuses neither the point nor the range-key iterator stack unless the flag is unchanged. Does not decide that the flushed state is crash-proof (C10/C12)."
}

func runC13(c *Ctx) {
	memF := c.Field("C13.G1", "p.readState.memtables")
	itRS := c.Field("C13.G1", "p.Iterator.readState")
	notDurableOnly := BoolGuard("opts.OnlyReadGuaranteedDurable", false)
	nFuncs := 0
	for _, fn := range c.P.AllFuncs {
		if fn.Pkg == nil || fn.Pkg.Pkg.Path() != modPath || fn.Origin() != nil {
			continue
		}
		var sources []ssa.Value
		for _, b := range fn.Blocks {
			for _, in := range b.Instrs {
				u, ok := in.(*ssa.UnOp)
				if !ok || u.Op != token.MUL {
					continue
				}
				fa, ok := u.X.(*ssa.FieldAddr)
				if !ok || fieldVar(fa.X.Type(), fa.Field) != memF {
					continue
				}
				// base must be the Iterator's read state
				if !isLoadOfField(fa.X, itRS) {
					continue
				}
				sources = append(sources, u)
			}
		}
		if len(sources) == 0 {
			continue
		}
		nFuncs++
		fl := NewFlow(c.P).Edge("not-durable-only", notDurableOnly)
		res := fl.Analyze(fn, emptyState())
		c.noteFlow(fl)
		reports, sinks := guardedTaint(res, sources, "not-durable-only")
		c.CallSites += sinks
		if len(reports) == 0 {
			c.Ob("C13.G1", fn, "memtables of the read state reach calls only under !OnlyReadGuaranteedDurable", c.P.Pos(sources[0].Pos()), true, "")
		}
		for _, r := range reports {
			c.Ob("C13.G1", fn, "memtables of the read state reach calls only under !OnlyReadGuaranteedDurable", c.P.Pos(r.Sink.Pos()), false, describeTaint(c.P, r))
		}
	}
	if nFuncs < 2 {
		c.Unresolved("C13.G1", "fewer than 2 functions read Iterator.readState.memtables (anchors drifted?)")
	}
	// C13.O1: newIter: the flag is rejected for batch/snapshot views before a view is acquired
	if fn := c.Fn("C13.O1", "p.(*DB).newIter"); fn != nil {
		fl := NewFlow(c.P).
			Edge("flag-off", BoolGuard("OnlyReadGuaranteedDurable", false)).
			Edge("flag-off", ZeroGuard(ParamName(fn, 4))).
			Edge("no-batch", ZeroGuard(ParamName(fn, 2))).
			Edge("latest", ZeroGuard("snapshot.seqNum")).
			Derive("flag-compatible", []string{"flag-off"}, []string{"no-batch", "latest"})
		res := fl.Analyze(fn, emptyState())
		c.noteFlow(fl)
		n := c.Require("C13.O1", res, Or(CallTo("p.(*DB).loadReadState"), CallTo("p.(*readState).ref"), CallTo("man.(*Version).Ref")),
			"OnlyReadGuaranteedDurable is rejected for batch/snapshot views before any view is pinned", []string{"flag-compatible"})
		if n == 0 {
			c.Unresolved("C13.O1", "no view acquisition found in newIter")
		}
	}
	// C13.T1: SetOptions: both reuse decisions depend on the flag being unchanged
	if fn := c.Fn("C13.T1", "p.(*Iterator).SetOptions"); fn != nil {
		fl := NewFlow(c.P).Edge("flag-unchanged", func(v ssa.Value) (bool, bool) {
			bo, ok := v.(*ssa.BinOp)
			if !ok || (bo.Op != token.EQL && bo.Op != token.NEQ) {
				return false, false
			}
			px, py := pathOf(bo.X), pathOf(bo.Y)
			if pathHasSuffix(px, "OnlyReadGuaranteedDurable") && pathHasSuffix(py, "OnlyReadGuaranteedDurable") && px != py {
				return true, bo.Op == token.NEQ
			}
			return false, false
		})
		res := fl.Analyze(fn, emptyState())
		c.noteFlow(fl)
		// reusePointIter / reuseRangeKey are defined by && chains: in SSA a phi
		// whose only non-false incoming value arrives from the block of the last
		// conjunct. That edge must have established the flag equality.
		reuseNames := []string{}
		for _, in := range instrs(fn, CallTo("p.(*Iterator).maybeRefreshBatchView")) {
			for _, a := range in.(*ssa.Call).Common().Args[1:] {
				if al, ok := a.(*ssa.Alloc); ok {
					reuseNames = append(reuseNames, al.Comment)
				}
			}
		}
		if len(reuseNames) != 2 {
			c.Unresolved("C13.T1", "the two reuse flags passed to maybeRefreshBatchView were not found in SetOptions")
		}
		for _, name := range reuseNames {
			var defs []ssa.Value
			var poss []token.Pos
			for _, b := range fn.Blocks {
				for _, in := range b.Instrs {
					switch x := in.(type) {
					case *ssa.Store:
						if a, ok := x.Addr.(*ssa.Alloc); ok && a.Comment == name {
							if k, isK := x.Val.(*ssa.Const); isK && k.Value != nil && k.Value.String() == "false" {
								continue
							}
							defs = append(defs, x.Val)
							poss = append(poss, x.Pos())
						}
					case *ssa.Phi:
						if x.Comment == name {
							defs = append(defs, x)
							poss = append(poss, x.Pos())
						}
					}
				}
			}
			if len(defs) == 0 {
				c.Unresolved("C13.T1", "definition of "+name+" not found in SetOptions")
				continue
			}
			for di, d := range defs {
				ok := true
				detail := ""
				if phi, isPhi := d.(*ssa.Phi); isPhi {
					for i, e := range phi.Edges {
						if k, isK := e.(*ssa.Const); isK && k.Value != nil && k.Value.String() == "false" {
							continue
						}
						es := res.edgeState(phi.Block().Preds[i], phi.Block())
						if !es.top && !es.has("flag-unchanged") {
							ok = false
							detail = name + " can be true on a path that never compared o.OnlyReadGuaranteedDurable with the iterator's current setting"
						}
					}
				} else if in, isIn := d.(ssa.Instruction); isIn {
					if !res.stateBefore(in).has("flag-unchanged") {
						ok = false
						detail = name + " is computed without comparing OnlyReadGuaranteedDurable"
					}
				}
				c.Ob("C13.T1", fn, name+" requires the flag to be unchanged", c.P.Pos(poss[di]), ok, detail)
			}
		}
	}
}
