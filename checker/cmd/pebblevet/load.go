package main

import (
	"fmt"
	"go/ast"
	"go/token"
	"go/types"
	"os"
	"sort"
	"strings"
	"time"

	"golang.org/x/tools/go/packages"
	"golang.org/x/tools/go/ssa"
	"golang.org/x/tools/go/ssa/ssautil"
)

const modPath = "github.com/cockroachdb/pebble"

// pkgAlias maps the short prefixes used in rule tables to import paths.
var pkgAlias = map[string]string{
	"p":                modPath,
	"base":             modPath + "/internal/base",
	"rec":              modPath + "/record",
	"wal":              modPath + "/wal",
	"man":              modPath + "/internal/manifest",
	"afs":              modPath + "/vfs/atomicfs",
	"vfs":              modPath + "/vfs",
	"osp":              modPath + "/objstorage/objstorageprovider",
	"osp/remoteobjcat": modPath + "/objstorage/objstorageprovider/remoteobjcat",
	"objs":             modPath + "/objstorage",
	"skl":              modPath + "/internal/arenaskl",
	"cache":            modPath + "/internal/cache",
	"cmp":              modPath + "/internal/compression",
	"blk":              modPath + "/sstable/block",
	"sst":              modPath + "/sstable",
	"blob":             modPath + "/sstable/blob",
	"valblk":           modPath + "/sstable/valblk",
	"compact":          modPath + "/internal/compact",
	"brepr":            modPath + "/batchrepr",
	"rangekey":         modPath + "/internal/rangekey",
	"rkstack":          modPath + "/internal/rangekeystack",
	"keyspan":          modPath + "/internal/keyspan",
	"tombspan":         modPath + "/internal/tombspan",
	"valsep":           modPath + "/valsep",
	"remote":           modPath + "/objstorage/remote",
	"overlap":          modPath + "/internal/overlap",
	"manual":           modPath + "/internal/manual",
}

// Program is the resolved, type-checked and SSA-built view of /repo's working
// tree that every rule runs against.
type Program struct {
	Fset     *token.FileSet
	Pkgs     []*packages.Package          // root packages (with syntax)
	ByPath   map[string]*packages.Package // root packages by import path
	SSA      *ssa.Program
	SSAPkgs  map[string]*ssa.Package
	cidx     *callIdx
	AllFuncs []*ssa.Function // every function with a body in the root packages (incl. closures, instantiations)
	byName   map[string]*ssa.Function
	LoadS    float64
	Tags     string
	declOf   map[*types.Func]*ast.FuncDecl
	fileOf   map[*ast.FuncDecl]*packages.Package
}

func expandAlias(name string) string {
	// "p.(*DB).foo" -> "github.com/cockroachdb/pebble.(*DB).foo"
	if strings.HasPrefix(name, "github.com/") {
		return name
	}
	i := strings.Index(name, ".")
	if i < 0 {
		return name
	}
	if full, ok := pkgAlias[name[:i]]; ok {
		return full + name[i:]
	}
	return name
}

// Load type-checks the given package patterns of repoDir from source (deps from
// export data) and builds SSA for them.
func Load(repoDir string, patterns []string, tags string, overlay map[string][]byte) (*Program, error) {
	t0 := time.Now()
	cfg := &packages.Config{
		Mode:    packages.LoadSyntax | packages.NeedModule,
		Dir:     repoDir,
		Tests:   false,
		Overlay: overlay,
		Env:     append(os.Environ(), "GOWORK=off", "GOFLAGS=-mod=mod", "GOPROXY=off"),
	}
	if tags != "" {
		cfg.BuildFlags = []string{"-tags=" + tags}
	}
	pkgs, err := packages.Load(cfg, patterns...)
	if err != nil {
		return nil, fmt.Errorf("packages.Load: %w", err)
	}
	if len(pkgs) == 0 {
		return nil, fmt.Errorf("packages.Load: zero packages for %v", patterns)
	}
	var errs []string
	packages.Visit(pkgs, nil, func(p *packages.Package) {
		for _, e := range p.Errors {
			errs = append(errs, e.Error())
		}
	})
	if len(errs) > 0 {
		sort.Strings(errs)
		if len(errs) > 10 {
			errs = errs[:10]
		}
		return nil, fmt.Errorf("type/load errors (%d): %s", len(errs), strings.Join(errs, "; "))
	}
	prog := &Program{
		Pkgs:    pkgs,
		ByPath:  map[string]*packages.Package{},
		SSAPkgs: map[string]*ssa.Package{},
		byName:  map[string]*ssa.Function{},
		Tags:    tags,
		declOf:  map[*types.Func]*ast.FuncDecl{},
		fileOf:  map[*ast.FuncDecl]*packages.Package{},
	}
	var roots []*packages.Package
	for _, p := range pkgs {
		if len(p.GoFiles) == 0 {
			continue // test-only package
		}
		roots = append(roots, p)
	}
	pkgs = roots
	prog.Pkgs = roots
	for _, p := range pkgs {
		prog.ByPath[p.PkgPath] = p
		prog.Fset = p.Fset
		if p.Types == nil || p.TypesInfo == nil || len(p.Syntax) == 0 {
			return nil, fmt.Errorf("package %s loaded without syntax/types", p.PkgPath)
		}
		for _, f := range p.Syntax {
			for _, d := range f.Decls {
				if fd, ok := d.(*ast.FuncDecl); ok {
					if obj, ok := p.TypesInfo.Defs[fd.Name].(*types.Func); ok {
						prog.declOf[obj] = fd
						prog.fileOf[fd] = p
					}
				}
			}
		}
	}
	sprog, spkgs := ssautil.Packages(pkgs, ssa.InstantiateGenerics)
	for i, sp := range spkgs {
		if sp == nil {
			return nil, fmt.Errorf("no SSA package for %s", pkgs[i].PkgPath)
		}
		prog.SSAPkgs[pkgs[i].PkgPath] = sp
	}
	sprog.Build()
	prog.SSA = sprog
	all := ssautil.AllFunctions(sprog)
	for fn := range all {
		if fn.Blocks == nil {
			continue
		}
		if fn.Pkg == nil && fn.Origin() == nil && fn.Parent() == nil {
			// synthetic wrappers without a package
			continue
		}
		prog.AllFuncs = append(prog.AllFuncs, fn)
	}
	sort.Slice(prog.AllFuncs, func(i, j int) bool {
		a, b := prog.AllFuncs[i], prog.AllFuncs[j]
		if a.String() != b.String() {
			return a.String() < b.String()
		}
		return a.Pos() < b.Pos()
	})
	for _, fn := range prog.AllFuncs {
		if fn.Synthetic != "" && fn.Origin() == nil {
			continue
		}
		n := QName(fn)
		if old, dup := prog.byName[n]; !dup || (old.Origin() != nil && fn.Origin() == nil) {
			prog.byName[n] = fn
		}
	}
	prog.LoadS = time.Since(t0).Seconds()
	return prog, nil
}

// QName is the stable qualified name used in rule tables:
// "<pkgpath>.Func", "<pkgpath>.(*T).Method", "<pkgpath>.(T).Method", closures
// "<parent>$N". Generic instantiations are named after their origin.
func QName(fn *ssa.Function) string {
	if fn.Parent() != nil {
		nm := fn.Name()
		if i := strings.LastIndex(nm, "$"); i >= 0 {
			return QName(fn.Parent()) + nm[i:]
		}
		return QName(fn.Parent()) + "$" + nm
	}
	if o := fn.Origin(); o != nil {
		fn = o
	}
	pkg := ""
	if fn.Pkg != nil {
		pkg = fn.Pkg.Pkg.Path()
	} else if obj := fn.Object(); obj != nil && obj.Pkg() != nil {
		pkg = obj.Pkg().Path()
	}
	if fn.Signature != nil && fn.Signature.Recv() != nil {
		t := fn.Signature.Recv().Type()
		star := ""
		if pt, ok := t.(*types.Pointer); ok {
			star = "*"
			t = pt.Elem()
		}
		tn := t.String()
		if nt, ok := t.(*types.Named); ok {
			tn = nt.Obj().Name()
			if nt.Obj().Pkg() != nil {
				pkg = nt.Obj().Pkg().Path()
			}
		}
		return fmt.Sprintf("%s.(%s%s).%s", pkg, star, tn, fn.Name())
	}
	return pkg + "." + fn.Name()
}

// Fn resolves a qualified function name ("p.(*DB).getInternal", "p.Open").
func (p *Program) Fn(name string) *ssa.Function {
	return p.byName[expandAlias(name)]
}

// Pos renders a position relative to the repository root.
func (p *Program) Pos(pos token.Pos) string {
	if !pos.IsValid() {
		return "?"
	}
	ps := p.Fset.Position(pos)
	f := ps.Filename
	if i := strings.Index(f, "/repo/"); i >= 0 {
		f = f[i+len("/repo/"):]
	}
	return fmt.Sprintf("%s:%d", f, ps.Line)
}

// TopLevel returns the outermost enclosing declared function of fn.
func TopLevel(fn *ssa.Function) *ssa.Function {
	for fn.Parent() != nil {
		fn = fn.Parent()
	}
	if o := fn.Origin(); o != nil {
		return o
	}
	return fn
}

// Decl returns the AST declaration of a declared function, if available.
func (p *Program) Decl(fn *ssa.Function) (*ast.FuncDecl, *packages.Package) {
	fn = TopLevel(fn)
	obj, _ := fn.Object().(*types.Func)
	if obj == nil {
		return nil, nil
	}
	fd := p.declOf[obj]
	if fd == nil {
		return nil, nil
	}
	return fd, p.fileOf[fd]
}
