package main

import (
	"fmt"
	"go/token"
	"go/types"
	"strings"

	"golang.org/x/tools/go/ssa"
)

func init() {
	register("C03", []string{".", "./internal/tombspan", "./internal/compact"}, runC03)
	propExplain["C03"] = "Decides structural clauses of C03: a snapshot's sequence number is read and the snapshot is registered in one DB.mu critical section (also for eventually-file-only snapshots, whose wait loop only uses cond.Wait); every use of the snapshot list happens with DB.mu held (lockset with requires-held summaries); the snapshot list of the moment reaches the compaction iterator's configuration; a closed snapshot is removed from the list before compactions are reconsidered; wide tombstones are promoted to 'deletable' only with the list's current earliest snapshot and only if strictly older than it; Snapshot.Get/NewIter/ScanInternal read at the snapshot's own sequence number, and an eventually-file-only snapshot's NewIter/ScanInternal do so on every definition of their options (file-only or not). Does not decide that compaction output preserves the right versions (value part of C17)."
}

func pebbleFuncs(c *Ctx) []*ssa.Function {
	var out []*ssa.Function
	for _, fn := range c.P.AllFuncs {
		top := TopLevel(fn)
		if top.Pkg == nil || top.Pkg.Pkg.Path() != modPath || fn.Origin() != nil {
			continue
		}
		if fn.Synthetic != "" && fn.Parent() == nil {
			continue
		}
		out = append(out, fn)
	}
	return out
}

// dbMuHeldAtEntry: calling contexts documented to hold DB.mu.
var dbMuHeldAtEntry = map[string]string{
	"closure stored to complit.InProgressCompactionsFn":     "invoked by UpdateVersionLocked after it re-acquired DB.mu",
	"closure passed to p.(*versionSet).UpdateVersionLocked": "UpdateVersionLocked is called with DB.mu held and invokes its update function before releasing it (comment on UpdateVersionLocked)",
	"closure passed to p.(*commitPipeline).AllocateSeqNum":  "the prepare callback of AllocateSeqNum; the ingest/excise callers take DB.mu inside it",
	"closure stored in map formatMajorVersionMigrations":    "all format major version migrations are invoked by ratchetFormatMajorVersionLocked with DB.mu held (comment on the map)",
}

func runC03(c *Ctx) {
	lock, unlock, _ := dbMuMatchers(c, "C03.R1")
	snapCalls := CallTo("p.(*snapshotList).toSlice", "p.(*snapshotList).earliest", "p.(*snapshotList).count", "p.(*snapshotList).pushBack", "p.(*snapshotList).remove")
	// C03.R1: atomic registration
	for _, name := range []string{"p.(*DB).NewSnapshot", "p.(*DB).makeEventuallyFileOnlySnapshot"} {
		fn := c.Fn("C03.R1", name)
		if fn == nil {
			continue
		}
		register := Or(CallTo("p.(*snapshotList).pushBack"), CallTo("man.(*Version).Ref"))
		entry := emptyState()
		if len(instrs(fn, register)) == 0 {
			// the read-and-register sequence was moved into a "...Locked" helper: the helper must be
			// called with DB.mu held, and the rule is decided inside it
			var helper *ssa.Function
			for _, b := range fn.Blocks {
				for _, in := range b.Instrs {
					if call, ok := in.(*ssa.Call); ok {
						if cal := call.Common().StaticCallee(); cal != nil && inModule(cal) && len(cal.Blocks) > 0 && len(instrs(cal, register)) > 0 {
							helper = cal
						}
					}
				}
			}
			if helper != nil {
				h := helper
				fl0 := NewFlow(c.P).After("held:DB.mu", lock).KillAfter("held:DB.mu", unlock)
				fl0.MaxDepth = 0
				res0 := fl0.Analyze(fn, emptyState())
				c.noteFlow(fl0)
				c.Require("C03.R1", res0, Pred("call "+h.Name(), func(in ssa.Instruction) bool {
					cc := getCallCommon(in)
					return cc != nil && cc.StaticCallee() == h
				}), "the helper that reads the seqnum and registers the snapshot is called with DB.mu held", []string{"held:DB.mu"})
				fn = helper
				entry.add("held:DB.mu")
			}
		}
		seqLoad := snapshotSeqNumLoads(fn) // in fn itself, or (by callee summary: on every path of) a closure it calls
		fl := NewFlow(c.P).After("held:DB.mu", lock).KillAfter("held:DB.mu", unlock).
			After("seqnum-read-in-this-region", seqLoad).
			KillAfter("seqnum-read-in-this-region", Or(unlock, CallTo("sync.(*Cond).Wait"))) // Wait releases DB.mu while it blocks
		res := fl.Analyze(fn, entry)
		c.noteFlow(fl)
		n := c.Require("C03.R1", res, seqLoad, "snapshot seqnum read under DB.mu", []string{"held:DB.mu"})
		n2 := c.Require("C03.R1", res, Or(CallTo("p.(*snapshotList).pushBack"), CallTo("man.(*Version).Ref")), "snapshot registered in the same DB.mu region in which its seqnum was read", []string{"held:DB.mu", "seqnum-read-in-this-region"})
		if n == 0 || n2 == 0 {
			c.Unresolved("C03.R1", "visibleSeqNum.Load / pushBack not found in "+name)
		}
	}
	// C03.R2: lockset for the snapshot list
	ls := &LockSet{c: c, Rule: "C03.R2", IsLock: lock, IsUnlock: unlock, Funcs: pebbleFuncs(c), HeldAtEntry: c03Held,
		Site: func(in ssa.Instruction) (string, bool) {
			if snapCalls.F(in) {
				return "snapshot list " + infoOfCommon(in.(*ssa.Call).Common()).Short + "()", true
			}
			return "", false
		}}
	ls.Run()
	nSites := 0
	for _, fn := range ls.Funcs {
		nSites += len(instrs(fn, snapCalls))
	}
	if nSites < 8 {
		c.Unresolved("C03.R2", "fewer than 8 snapshot-list call sites found")
	}
	c.Ob("C03.R2", nil, "snapshot-list call sites analysed", "", true, "")
	// C03.G1: the compaction iterator receives the snapshot list
	if fn := c.Fn("C03.G1", "p.(*DB).compactAndWrite"); fn != nil {
		found := false
		for _, b := range fn.Blocks {
			for _, in := range b.Instrs {
				st, ok := in.(*ssa.Store)
				if !ok {
					continue
				}
				fa, ok := st.Addr.(*ssa.FieldAddr)
				if !ok {
					continue
				}
				f := fieldVar(fa.X.Type(), fa.Field)
				if f == nil || f.Name() != "Snapshots" || !strings.HasSuffix(f.Pkg().Path(), "internal/compact") {
					continue
				}
				found = true
				ok2 := pathOf(st.Val) == snapshotsParam(fn)
				c.Ob("C03.G1", fn, "compact.IterConfig.Snapshots is the caller's snapshot list", c.P.Pos(in.Pos()), ok2,
					map[bool]string{true: "", false: "IterConfig.Snapshots is set from " + pathOf(st.Val) + " instead of the snapshot-list parameter"}[ok2])
			}
		}
		c.Ob("C03.G1", fn, "compact.IterConfig.Snapshots is set", c.P.Pos(fn.Pos()), found, map[bool]string{true: "", false: "the compaction iterator is configured without the snapshot list: versions needed by open snapshots would be elided"}[found])
	}
	c.Who("C03.G1", FuncRef("p.(*DB).compactAndWrite"), "compactAndWrite called only by runDefaultTableCompaction", "p.(*DB).runDefaultTableCompaction")
	if fn := c.Fn("C03.G1", "p.(*DB).runDefaultTableCompaction"); fn != nil {
		for _, in := range instrs(fn, CallTo("p.(*DB).compactAndWrite")) {
			args := in.(*ssa.Call).Common().Args
			ok := false
			for _, a := range args {
				if len(derivesFrom(a, CallPred("toSlice", ""), 3)) > 0 {
					ok = true
				}
			}
			c.Ob("C03.G1", fn, "compactAndWrite receives d.mu.snapshots.toSlice()", c.P.Pos(in.Pos()), ok, "")
		}
	}
	// C03.O1
	if fn := c.Fn("C03.O1", "p.(*Snapshot).closeLocked"); fn != nil {
		c.Chain("C03.O1", fn, nil,
			Step{Name: "snapshots.remove", M: CallTo("p.(*snapshotList).remove")},
			Step{Name: "snapshots.earliest", M: CallTo("p.(*snapshotList).earliest")},
			Step{Name: "maybeScheduleCompaction", M: CallTo("p.(*DB).maybeScheduleCompaction")},
		)
	}
	// C03.O2: UpdateWithEarliestSnapshot takes the list's current earliest
	upd := CallTo("tombspan.(*Set).UpdateWithEarliestSnapshot")
	n := 0
	for _, fn := range pebbleFuncs(c) {
		for _, in := range instrs(fn, upd) {
			n++
			args := in.(*ssa.Call).Common().Args
			ok := len(derivesFrom(args[len(args)-1], CallPred("earliest", ""), 3)) > 0
			c.Ob("C03.O2", fn, "UpdateWithEarliestSnapshot receives snapshots.earliest()", c.P.Pos(in.Pos()), ok, "")
		}
	}
	if n < 2 {
		c.Unresolved("C03.O2", "UpdateWithEarliestSnapshot call sites not found")
	}
	// C03.G2: promotion only for tombstones strictly older than the earliest snapshot
	if fn := c.Fn("C03.G2", "tombspan.(*Set).UpdateWithEarliestSnapshot"); fn != nil {
		fl := NewFlow(c.P).Edge("strictly-older", CmpGuard(token.LSS, "HighestSeqNum()", ParamName(fn, 1))).IterationLocal("strictly-older")
		res := fl.Analyze(fn, emptyState())
		n := c.Require("C03.G2", res, Pred("n++ (promote)", func(in ssa.Instruction) bool {
			bo, ok := in.(*ssa.BinOp)
			if !ok || bo.Op != token.ADD {
				return false
			}
			k, isK := constInt(bo.Y)
			phi, isPhi := bo.X.(*ssa.Phi)
			if !isK || k != 1 || !isPhi {
				return false
			}
			// the counter that indexes ts.pending
			if phi.Referrers() != nil {
				for _, r := range *phi.Referrers() {
					if ia, ok := r.(*ssa.IndexAddr); ok && ia.Index == ssa.Value(phi) && pathHasSuffix(pathOf(ia.X), "pending") {
						return true
					}
				}
			}
			return false
		}), "a pending wide tombstone is promoted only if its highest seqnum is strictly below the earliest snapshot", []string{"strictly-older"})
		if n == 0 {
			c.Unresolved("C03.G2", "promotion counter not found in UpdateWithEarliestSnapshot")
		}
	}
	// C03.V1
	efosReadsAtOwnSeqNum(c, "C03.V1")
	seqF := c.Field("C03.V1", "p.Snapshot.seqNum")
	for _, spec := range []struct{ fn, callee string }{
		{"p.(*Snapshot).NewIterWithContext", "p.(*DB).newIter"},
		{"p.(*Snapshot).ScanInternal", "p.(*DB).newInternalIter"},
	} {
		fn := c.Fn("C03.V1", spec.fn)
		if fn == nil {
			continue
		}
		for _, in := range instrs(fn, CallTo(spec.callee)) {
			ok := false
			for _, a := range in.(*ssa.Call).Common().Args {
				if len(derivesFrom(a, func(v ssa.Value) bool { return isLoadOfField(v, seqF) }, 5)) > 0 {
					ok = true
				}
			}
			c.Ob("C03.V1", fn, "reads at the snapshot's own sequence number", c.P.Pos(in.Pos()), ok, "")
		}
	}
	if fn := c.Fn("C03.V1", "p.(*Snapshot).Get"); fn != nil {
		for _, in := range instrs(fn, CallTo("p.(*DB).getInternal")) {
			args := in.(*ssa.Call).Common().Args
			ok := pathOf(args[len(args)-1]) == "recv"
			c.Ob("C03.V1", fn, "Get passes the snapshot itself", c.P.Pos(in.Pos()), ok, "")
		}
	}
	if fn := c.Fn("C03.V1", "p.(*DB).getInternal"); fn != nil {
		fl := NewFlow(c.P).Edge("no-snapshot", ZeroGuard(ParamName(fn, 3)))
		res := fl.Analyze(fn, emptyState())
		c.Require("C03.V1", res, MethodOn("Load", "visibleSeqNum"), "latest seqnum used only when no snapshot was given", []string{"no-snapshot"})
	}
}

var c03Held = dbMuHeldAtEntry

// snapshotsParam: the name of the parameter of type compact.Snapshots.
func snapshotsParam(fn *ssa.Function) string {
	for _, p := range fn.Params {
		if strings.HasSuffix(p.Type().String(), "compact.Snapshots") {
			return p.Name()
		}
	}
	return "‹no Snapshots parameter›"
}

// snapshotSeqNumLoads: the visibleSeqNum.Load() calls whose result becomes the snapshot's sequence
// number in fn — the value stored into a field named seqNum of a struct literal built in fn,
// followed through local variables (also captured ones assigned inside fn's closures). Other loads
// of the visible sequence number (e.g. the wait condition of the excise loop) do not count.
func snapshotSeqNumLoads(fn *ssa.Function) M {
	isLoad := MethodOn("Load", "visibleSeqNum")
	set := map[ssa.Instruction]bool{}
	var follow func(v ssa.Value, d int)
	seen := map[ssa.Value]bool{}
	follow = func(v ssa.Value, d int) {
		v = stripConv(v)
		if v == nil || seen[v] || d > 8 {
			return
		}
		seen[v] = true
		switch x := v.(type) {
		case *ssa.Call:
			if isLoad.F(x) {
				set[x] = true
			}
		case *ssa.Phi:
			for _, e := range x.Edges {
				follow(e, d+1)
			}
		case *ssa.UnOp:
			if x.Op != token.MUL {
				return
			}
			cell := x.X
			if fv, ok := cell.(*ssa.FreeVar); ok {
				if b := freeVarBinding(fv); b != nil {
					cell = b
				}
			}
			al, ok := cell.(*ssa.Alloc)
			if !ok {
				return
			}
			// every store into the cell, in fn and in its closures
			var fns []*ssa.Function
			var collect func(f *ssa.Function)
			collect = func(f *ssa.Function) {
				fns = append(fns, f)
				for _, a := range f.AnonFuncs {
					collect(a)
				}
			}
			collect(al.Parent())
			for _, f := range fns {
				for _, b := range f.Blocks {
					for _, in := range b.Instrs {
						st, ok := in.(*ssa.Store)
						if !ok {
							continue
						}
						addr := st.Addr
						if fv, ok := addr.(*ssa.FreeVar); ok {
							if bnd := freeVarBinding(fv); bnd != nil {
								addr = bnd
							}
						}
						if addr == ssa.Value(al) {
							follow(st.Val, d+1)
						}
					}
				}
			}
		}
	}
	for _, b := range fn.Blocks {
		for _, in := range b.Instrs {
			st, ok := in.(*ssa.Store)
			if !ok {
				continue
			}
			if f := fieldOfValue(st.Addr); f != nil && f.Name() == "seqNum" {
				follow(st.Val, 0)
			}
		}
	}
	return Pred("the visibleSeqNum.Load() that becomes the snapshot's seqnum", func(in ssa.Instruction) bool { return set[in] })
}

// efosReadsAtOwnSeqNum (added after seed C45-c): every read entry point of an eventually-file-only
// snapshot hands DB.newIter / DB.newInternalIter a snapshotIterOpts whose seqNum was set from the
// snapshot's own seqNum — on EVERY definition that can reach the call (both the "already
// file-only" and the "still a regular snapshot" arm), not on some. A zero seqNum means "read at
// the DB's current visible sequence number": the pinned version's tables also hold keys written
// after the snapshot.
func efosReadsAtOwnSeqNum(c *Ctx, rule string) {
	seqF := c.Field(rule, "p.EventuallyFileOnlySnapshot.seqNum")
	optSeq := c.Field(rule, "p.snapshotIterOpts.seqNum")
	if seqF == nil || optSeq == nil {
		return
	}
	optT := c.P.TypeByPath("p.snapshotIterOpts")
	fromOwn := func(v ssa.Value) bool {
		return len(derivesFrom(v, func(x ssa.Value) bool { return isLoadOfField(x, seqF) }, 4)) > 0
	}
	type verdict struct {
		ok  bool
		why string
	}
	memo := map[ssa.Value]*verdict{}
	var allDefs func(v ssa.Value, d int, seen map[ssa.Value]bool) (bool, string)
	var allDefs1 func(v ssa.Value, d int, seen map[ssa.Value]bool) (bool, string)
	allDefs = func(v ssa.Value, d int, seen map[ssa.Value]bool) (bool, string) {
		v = stripConv(v)
		if m, ok := memo[v]; ok {
			if m == nil {
				return true, "" // a cycle through a phi: decided by the other edges
			}
			return m.ok, m.why
		}
		memo[v] = nil
		ok, why := allDefs1(v, d, seen)
		memo[v] = &verdict{ok, why}
		return ok, why
	}
	allDefs1 = func(v ssa.Value, d int, seen map[ssa.Value]bool) (bool, string) {
		if d > 8 {
			return false, "definition chain too deep"
		}
		switch x := v.(type) {
		case *ssa.Phi:
			for _, e := range x.Edges {
				if ok, why := allDefs(e, d+1, seen); !ok {
					return false, why
				}
			}
			return true, ""
		case *ssa.UnOp:
			al, isAlloc := x.X.(*ssa.Alloc)
			if x.Op != token.MUL || !isAlloc {
				return false, "options do not come from a local struct"
			}
			elem := derefT(al.Type())
			direct := optT != nil && types.Identical(elem, optT)
			// The struct is built in place: (optionally) zeroed as a whole, then its fields stored.
			// "good" = a store that makes the options carry the snapshot's seqNum; a whole-struct
			// store of anything else (the zero value included) undoes it.
			good := func(in ssa.Instruction) bool {
				st, ok := in.(*ssa.Store)
				if !ok {
					return false
				}
				if st.Addr == ssa.Value(al) {
					if k, isK := st.Val.(*ssa.Const); isK && k != nil {
						return false
					}
					ok2, _ := allDefs(st.Val, d+1, seen)
					return ok2
				}
				fa, isFA := st.Addr.(*ssa.FieldAddr)
				if !isFA || fa.X != ssa.Value(al) {
					return false
				}
				if direct {
					return fieldVar(fa.X.Type(), fa.Field) == optSeq && fromOwn(st.Val)
				}
				if optT != nil && types.Identical(st.Val.Type(), optT) {
					ok2, _ := allDefs(st.Val, d+1, seen)
					return ok2
				}
				return false
			}
			undo := func(in ssa.Instruction) bool {
				st, ok := in.(*ssa.Store)
				return ok && st.Addr == ssa.Value(al) && !good(in)
			}
			fl := NewFlow(c.P).After("carries-own-seqnum", Pred("options get the snapshot's seqNum", good)).
				KillAfter("carries-own-seqnum", Pred("options overwritten", undo))
			fl.MaxDepth = 0
			res := fl.Analyze(x.Parent(), emptyState())
			if res.stateBefore(x).has("carries-own-seqnum") {
				return true, ""
			}
			return false, "a path reaches this call on which the options' seqNum was not set from the snapshot's seqNum (zero means: the DB's current visible sequence number)"
		}
		return false, fmt.Sprintf("options defined by %T, not by a struct literal in this function", v)
	}
	n := 0
	for _, spec := range []struct{ fn, callee string }{
		{"p.(*EventuallyFileOnlySnapshot).NewIterWithContext", "p.(*DB).newIter"},
		{"p.(*EventuallyFileOnlySnapshot).ScanInternal", "p.(*DB).newInternalIter"},
	} {
		fn := c.Fn(rule, spec.fn)
		if fn == nil {
			continue
		}
		for _, in := range instrs(fn, CallTo(spec.callee)) {
			for _, a := range in.(*ssa.Call).Common().Args {
				t := a.Type()
				isOpt := optT != nil && types.Identical(t, optT)
				if st, isStruct := t.Underlying().(*types.Struct); isStruct && !isOpt {
					for i := 0; i < st.NumFields(); i++ {
						if optT != nil && types.Identical(st.Field(i).Type(), optT) {
							isOpt = true
						}
					}
				}
				if !isOpt {
					continue
				}
				n++
				ok, why := allDefs(a, 0, map[ssa.Value]bool{})
				c.Ob(rule, fn, "reads at the snapshot's own sequence number on every path", c.P.Pos(in.Pos()), ok, why)
			}
		}
	}
	if n < 3 {
		c.Unresolved(rule, fmt.Sprintf("only %d snapshotIterOpts arguments found in the EFOS read entry points (expected 3)", n))
	}
}
