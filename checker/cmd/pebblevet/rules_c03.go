package main

import (
	"go/token"
	"strings"

	"golang.org/x/tools/go/ssa"
)

func init() {
	register("C03", []string{".", "./internal/tombspan", "./internal/compact"}, runC03)
	propExplain["C03"] = "Decides structural clauses of C03: a snapshot's sequence number is read and the snapshot is registered in one DB.mu critical section (also for eventually-file-only snapshots, whose wait loop only uses cond.Wait); every use of the snapshot list happens with DB.mu held (lockset with requires-held summaries); the snapshot list of the moment reaches the compaction iterator's configuration; a closed snapshot is removed from the list before compactions are reconsidered; wide tombstones are promoted to 'deletable' only with the list's current earliest snapshot and only if strictly older than it; Snapshot.Get/NewIter/ScanInternal read at the snapshot's own sequence number. Does not decide that compaction output preserves the right versions (value part of C17)."
}

func pebbleFuncs(c *Ctx) []*ssa.Function {
	var out []*ssa.Function
	for _, fn := range c.P.AllFuncs {
		top := TopLevel(fn)
		if top.Pkg == nil || top.Pkg.Pkg.Path() != modPath || fn.Origin() != nil {
			continue
		}
		if fn.Synthetic != "" && fn.Parent() == nil {
			continue
		}
		out = append(out, fn)
	}
	return out
}

// dbMuHeldAtEntry: calling contexts documented to hold DB.mu.
var dbMuHeldAtEntry = map[string]string{
	"closure stored to complit.InProgressCompactionsFn":     "invoked by UpdateVersionLocked after it re-acquired DB.mu",
	"closure passed to p.(*versionSet).UpdateVersionLocked": "UpdateVersionLocked is called with DB.mu held and invokes its update function before releasing it (comment on UpdateVersionLocked)",
	"closure passed to p.(*commitPipeline).AllocateSeqNum":  "the prepare callback of AllocateSeqNum; the ingest/excise callers take DB.mu inside it",
	"closure stored in map formatMajorVersionMigrations":    "all format major version migrations are invoked by ratchetFormatMajorVersionLocked with DB.mu held (comment on the map)",
}

func runC03(c *Ctx) {
	lock, unlock, _ := dbMuMatchers(c, "C03.R1")
	snapCalls := CallTo("p.(*snapshotList).toSlice", "p.(*snapshotList).earliest", "p.(*snapshotList).count", "p.(*snapshotList).pushBack", "p.(*snapshotList).remove")
	// C03.R1: atomic registration
	for _, name := range []string{"p.(*DB).NewSnapshot", "p.(*DB).makeEventuallyFileOnlySnapshot"} {
		fn := c.Fn("C03.R1", name)
		if fn == nil {
			continue
		}
		seqLoad := snapshotSeqNumLoads(fn) // in fn itself, or (by callee summary: on every path of) a closure it calls
		fl := NewFlow(c.P).After("held:DB.mu", lock).KillAfter("held:DB.mu", unlock).
			After("seqnum-read-in-this-region", seqLoad).
			KillAfter("seqnum-read-in-this-region", Or(unlock, CallTo("sync.(*Cond).Wait"))) // Wait releases DB.mu while it blocks
		res := fl.Analyze(fn, emptyState())
		c.noteFlow(fl)
		n := c.Require("C03.R1", res, seqLoad, "snapshot seqnum read under DB.mu", []string{"held:DB.mu"})
		n2 := c.Require("C03.R1", res, Or(CallTo("p.(*snapshotList).pushBack"), CallTo("man.(*Version).Ref")), "snapshot registered in the same DB.mu region in which its seqnum was read", []string{"held:DB.mu", "seqnum-read-in-this-region"})
		if n == 0 || n2 == 0 {
			c.Unresolved("C03.R1", "visibleSeqNum.Load / pushBack not found in "+name)
		}
	}
	// C03.R2: lockset for the snapshot list
	ls := &LockSet{c: c, Rule: "C03.R2", IsLock: lock, IsUnlock: unlock, Funcs: pebbleFuncs(c), HeldAtEntry: c03Held,
		Site: func(in ssa.Instruction) (string, bool) {
			if snapCalls.F(in) {
				return "snapshot list " + infoOfCommon(in.(*ssa.Call).Common()).Short + "()", true
			}
			return "", false
		}}
	ls.Run()
	nSites := 0
	for _, fn := range ls.Funcs {
		nSites += len(instrs(fn, snapCalls))
	}
	if nSites < 8 {
		c.Unresolved("C03.R2", "fewer than 8 snapshot-list call sites found")
	}
	c.Ob("C03.R2", nil, "snapshot-list call sites analysed", "", true, "")
	// C03.G1: the compaction iterator receives the snapshot list
	if fn := c.Fn("C03.G1", "p.(*DB).compactAndWrite"); fn != nil {
		found := false
		for _, b := range fn.Blocks {
			for _, in := range b.Instrs {
				st, ok := in.(*ssa.Store)
				if !ok {
					continue
				}
				fa, ok := st.Addr.(*ssa.FieldAddr)
				if !ok {
					continue
				}
				f := fieldVar(fa.X.Type(), fa.Field)
				if f == nil || f.Name() != "Snapshots" || !strings.HasSuffix(f.Pkg().Path(), "internal/compact") {
					continue
				}
				found = true
				ok2 := pathOf(st.Val) == snapshotsParam(fn)
				c.Ob("C03.G1", fn, "compact.IterConfig.Snapshots is the caller's snapshot list", c.P.Pos(in.Pos()), ok2,
					map[bool]string{true: "", false: "IterConfig.Snapshots is set from " + pathOf(st.Val) + " instead of the snapshot-list parameter"}[ok2])
			}
		}
		c.Ob("C03.G1", fn, "compact.IterConfig.Snapshots is set", c.P.Pos(fn.Pos()), found, map[bool]string{true: "", false: "the compaction iterator is configured without the snapshot list: versions needed by open snapshots would be elided"}[found])
	}
	c.Who("C03.G1", FuncRef("p.(*DB).compactAndWrite"), "compactAndWrite called only by runDefaultTableCompaction", "p.(*DB).runDefaultTableCompaction")
	if fn := c.Fn("C03.G1", "p.(*DB).runDefaultTableCompaction"); fn != nil {
		for _, in := range instrs(fn, CallTo("p.(*DB).compactAndWrite")) {
			args := in.(*ssa.Call).Common().Args
			ok := false
			for _, a := range args {
				if len(derivesFrom(a, CallPred("toSlice", ""), 3)) > 0 {
					ok = true
				}
			}
			c.Ob("C03.G1", fn, "compactAndWrite receives d.mu.snapshots.toSlice()", c.P.Pos(in.Pos()), ok, "")
		}
	}
	// C03.O1
	if fn := c.Fn("C03.O1", "p.(*Snapshot).closeLocked"); fn != nil {
		c.Chain("C03.O1", fn, nil,
			Step{Name: "snapshots.remove", M: CallTo("p.(*snapshotList).remove")},
			Step{Name: "snapshots.earliest", M: CallTo("p.(*snapshotList).earliest")},
			Step{Name: "maybeScheduleCompaction", M: CallTo("p.(*DB).maybeScheduleCompaction")},
		)
	}
	// C03.O2: UpdateWithEarliestSnapshot takes the list's current earliest
	upd := CallTo("tombspan.(*Set).UpdateWithEarliestSnapshot")
	n := 0
	for _, fn := range pebbleFuncs(c) {
		for _, in := range instrs(fn, upd) {
			n++
			args := in.(*ssa.Call).Common().Args
			ok := len(derivesFrom(args[len(args)-1], CallPred("earliest", ""), 3)) > 0
			c.Ob("C03.O2", fn, "UpdateWithEarliestSnapshot receives snapshots.earliest()", c.P.Pos(in.Pos()), ok, "")
		}
	}
	if n < 2 {
		c.Unresolved("C03.O2", "UpdateWithEarliestSnapshot call sites not found")
	}
	// C03.G2: promotion only for tombstones strictly older than the earliest snapshot
	if fn := c.Fn("C03.G2", "tombspan.(*Set).UpdateWithEarliestSnapshot"); fn != nil {
		fl := NewFlow(c.P).Edge("strictly-older", CmpGuard(token.LSS, "HighestSeqNum()", ParamName(fn, 1))).IterationLocal("strictly-older")
		res := fl.Analyze(fn, emptyState())
		n := c.Require("C03.G2", res, Pred("n++ (promote)", func(in ssa.Instruction) bool {
			bo, ok := in.(*ssa.BinOp)
			if !ok || bo.Op != token.ADD {
				return false
			}
			k, isK := constInt(bo.Y)
			phi, isPhi := bo.X.(*ssa.Phi)
			if !isK || k != 1 || !isPhi {
				return false
			}
			// the counter that indexes ts.pending
			if phi.Referrers() != nil {
				for _, r := range *phi.Referrers() {
					if ia, ok := r.(*ssa.IndexAddr); ok && ia.Index == ssa.Value(phi) && pathHasSuffix(pathOf(ia.X), "pending") {
						return true
					}
				}
			}
			return false
		}), "a pending wide tombstone is promoted only if its highest seqnum is strictly below the earliest snapshot", []string{"strictly-older"})
		if n == 0 {
			c.Unresolved("C03.G2", "promotion counter not found in UpdateWithEarliestSnapshot")
		}
	}
	// C03.V1
	seqF := c.Field("C03.V1", "p.Snapshot.seqNum")
	for _, spec := range []struct{ fn, callee string }{
		{"p.(*Snapshot).NewIterWithContext", "p.(*DB).newIter"},
		{"p.(*Snapshot).ScanInternal", "p.(*DB).newInternalIter"},
	} {
		fn := c.Fn("C03.V1", spec.fn)
		if fn == nil {
			continue
		}
		for _, in := range instrs(fn, CallTo(spec.callee)) {
			ok := false
			for _, a := range in.(*ssa.Call).Common().Args {
				if len(derivesFrom(a, func(v ssa.Value) bool { return isLoadOfField(v, seqF) }, 5)) > 0 {
					ok = true
				}
			}
			c.Ob("C03.V1", fn, "reads at the snapshot's own sequence number", c.P.Pos(in.Pos()), ok, "")
		}
	}
	if fn := c.Fn("C03.V1", "p.(*Snapshot).Get"); fn != nil {
		for _, in := range instrs(fn, CallTo("p.(*DB).getInternal")) {
			args := in.(*ssa.Call).Common().Args
			ok := pathOf(args[len(args)-1]) == "recv"
			c.Ob("C03.V1", fn, "Get passes the snapshot itself", c.P.Pos(in.Pos()), ok, "")
		}
	}
	if fn := c.Fn("C03.V1", "p.(*DB).getInternal"); fn != nil {
		fl := NewFlow(c.P).Edge("no-snapshot", ZeroGuard(ParamName(fn, 3)))
		res := fl.Analyze(fn, emptyState())
		c.Require("C03.V1", res, MethodOn("Load", "visibleSeqNum"), "latest seqnum used only when no snapshot was given", []string{"no-snapshot"})
	}
}

var c03Held = dbMuHeldAtEntry

// snapshotsParam: the name of the parameter of type compact.Snapshots.
func snapshotsParam(fn *ssa.Function) string {
	for _, p := range fn.Params {
		if strings.HasSuffix(p.Type().String(), "compact.Snapshots") {
			return p.Name()
		}
	}
	return "‹no Snapshots parameter›"
}

// snapshotSeqNumLoads: the visibleSeqNum.Load() calls whose result becomes the snapshot's sequence
// number in fn — the value stored into a field named seqNum of a struct literal built in fn,
// followed through local variables (also captured ones assigned inside fn's closures). Other loads
// of the visible sequence number (e.g. the wait condition of the excise loop) do not count.
func snapshotSeqNumLoads(fn *ssa.Function) M {
	isLoad := MethodOn("Load", "visibleSeqNum")
	set := map[ssa.Instruction]bool{}
	var follow func(v ssa.Value, d int)
	seen := map[ssa.Value]bool{}
	follow = func(v ssa.Value, d int) {
		v = stripConv(v)
		if v == nil || seen[v] || d > 8 {
			return
		}
		seen[v] = true
		switch x := v.(type) {
		case *ssa.Call:
			if isLoad.F(x) {
				set[x] = true
			}
		case *ssa.Phi:
			for _, e := range x.Edges {
				follow(e, d+1)
			}
		case *ssa.UnOp:
			if x.Op != token.MUL {
				return
			}
			cell := x.X
			if fv, ok := cell.(*ssa.FreeVar); ok {
				if b := freeVarBinding(fv); b != nil {
					cell = b
				}
			}
			al, ok := cell.(*ssa.Alloc)
			if !ok {
				return
			}
			// every store into the cell, in fn and in its closures
			var fns []*ssa.Function
			var collect func(f *ssa.Function)
			collect = func(f *ssa.Function) {
				fns = append(fns, f)
				for _, a := range f.AnonFuncs {
					collect(a)
				}
			}
			collect(al.Parent())
			for _, f := range fns {
				for _, b := range f.Blocks {
					for _, in := range b.Instrs {
						st, ok := in.(*ssa.Store)
						if !ok {
							continue
						}
						addr := st.Addr
						if fv, ok := addr.(*ssa.FreeVar); ok {
							if bnd := freeVarBinding(fv); bnd != nil {
								addr = bnd
							}
						}
						if addr == ssa.Value(al) {
							follow(st.Val, d+1)
						}
					}
				}
			}
		}
	}
	for _, b := range fn.Blocks {
		for _, in := range b.Instrs {
			st, ok := in.(*ssa.Store)
			if !ok {
				continue
			}
			if f := fieldOfValue(st.Addr); f != nil && f.Name() == "seqNum" {
				follow(st.Val, 0)
			}
		}
	}
	return Pred("the visibleSeqNum.Load() that becomes the snapshot's seqnum", func(in ssa.Instruction) bool { return set[in] })
}
