package main

import (
	"fmt"
	"go/types"
	"sort"
	"strings"

	"golang.org/x/tools/go/ssa"
)

func init() {
	register("C42", []string{".", "./internal/cache"}, runC42)
	propExplain["C42"] = "Decides lock-discipline clauses of C42 (races are dynamic; this is the static part): every access to a field that DB.mu protects (the fields of the DB.mu struct, minus the documented atomics / pipeline-protected fields) happens with DB.mu held, established by an intra-procedural lock state plus requires-held summaries over static and interface callees, with the calling context of every root (exported entry points, goroutine bodies, callbacks) either holding the lock or documented; the same analysis for the version set's second lock: the MANIFEST writer (versionSet.manifest) and latest.blobFiles, which UpdateVersionLocked mutates while DB.mu is released, are accessed only between logLock and logUnlock; and the documented lock order is respected: no function acquires commitPipeline.mu while it holds DB.mu. (F1) the in-progress flags that serialise work across drops of DB.mu (compact.flushing, versionSet.writing) are set only on the edge where they were tested clear, and only by their owner functions. (L4) DB.readState.val is read and replaced only with DB.readState's RWMutex held (or after the DB was marked closed). (B1/B2) lock balance: every function leaves every mutex as it found it — for DB.mu, commitPipeline.mu, the manifest log lock, DB.readState and every sync.Mutex/RWMutex field of a struct declared in a loaded engine package: no return with a lock still held, none with one unlock too many; deferred unlocks and re-locks and hand-over helpers are modelled. (L2b) DB.mu is never acquired while EventuallyFileOnlySnapshot.mu is held. Does not decide data races on unprotected fields, deadlock freedom in general, or panics. (V1) the version-edit builders that name existing tables or blob files (marking migration, ingestApply, blob-file rewrite) read the current version inside the UpdateVersionLocked closure; nothing derived from a read made before the manifest lock was taken is captured by it. (T1, shared with C34.P2) the block cache's read-turn token is never consumed without the turn being taken, the value being present, or the waiter waiting again (otherwise every other reader of that block blocks forever)."
	propTechnique["C42"] = "lockset analysis (SSA lock state + requires-held summaries over the call graph) for four locks, lock-order checks, lock-balance dataflow over every mutex field, flag-ownership guards"
}

// dbMuExempt: first-level fields of DB.mu that are NOT protected by DB.mu
// alone (reason from the field comments in db.go).
var dbMuExempt = map[string]string{
	"Mutex":      "the mutex itself",
	"formatVers": "vers is an atomic, read without the mutex; marker/ratcheting only under it (C40)",
	"versions":   "immutable pointer set at Open; the versionSet's own fields are guarded by DB.mu or the manifest lock",
	"log":        "manager/writer are also readable under commitPipeline.mu (comment on DB.mu.log)",
	"mem":        "mutable is also readable under commitPipeline.mu (comment on DB.mu.mem)",
	"compact":    "manualLen / burstConcurrency are atomics read without the mutex; cond is a sync.Cond",
	"nextJobID":  "accessed through newJobIDLocked only; benign",
}

// dbMuSecondLevelExempt: for the partially exempt first-level members, the sub-fields that may
// be touched without DB.mu.
var dbMuSecondLevelExempt = map[string]map[string]bool{
	"compact": {"manualLen": true, "burstConcurrency": true, "cond": true},
	"mem":     {"mutable": true},
}

var c42Held = map[string]string{
	"closure stored to complit.InProgressCompactionsFn":     "versionUpdate.InProgressCompactionsFn is invoked by UpdateVersionLocked after it re-acquired DB.mu (comment at the call: 'Now that DB.mu is held again')",
	"closure passed to p.(*versionSet).UpdateVersionLocked": "UpdateVersionLocked runs its update function with DB.mu held",
	"closure stored in map formatMajorVersionMigrations":    "migrations run under DB.mu (ratchetFormatMajorVersionLocked)",
	"p.Open": "before the DB is published no other goroutine can reach it; Open takes DB.mu for the recovery phase",
	"closure passed to p.(*commitPipeline).AllocateSeqNum": "callbacks lock DB.mu themselves where needed",
}

func runC42(c *Ctx) {
	runReadTurnToken(c, "C42.T1")
	versionReadUnderManifestLock(c, "C42.V1", "p.(*DB).markFilesForCompactionLocked", "p.(*DB).ingestApply", "p.(*blobFileRewriteCompaction).Execute")
	lock, unlock, muType := dbMuMatchers(c, "C42.L1")
	st, _ := muType.Underlying().(*types.Struct)
	if st == nil {
		c.Unresolved("C42.L1", "DB.mu is not a struct")
		return
	}
	protected := map[*types.Var]bool{}
	for i := 0; i < st.NumFields(); i++ {
		f := st.Field(i)
		if _, ex := dbMuExempt[f.Name()]; !ex {
			protected[f] = true
		}
	}
	ls := &LockSet{c: c, Rule: "C42.L1", IsLock: lock, IsUnlock: unlock, Funcs: pebbleFuncs(c), HeldAtEntry: c42Held,
		Site: func(in ssa.Instruction) (string, bool) {
			fa, ok := in.(*ssa.FieldAddr)
			if !ok {
				return "", false
			}
			f := fieldVar(fa.X.Type(), fa.Field)
			if f == nil {
				return "", false
			}
			if protected[f] {
				return "access to DB.mu." + f.Name(), true
			}
			// second level: DB.mu.compact.* and DB.mu.mem.* except the documented lock-free members
			if inner, ok := fa.X.(*ssa.FieldAddr); ok {
				if pf := fieldVar(inner.X.Type(), inner.Field); pf != nil {
					if pt, ok := inner.X.Type().Underlying().(*types.Pointer); ok && types.Identical(pt.Elem(), muType) {
						if ex, has := dbMuSecondLevelExempt[pf.Name()]; has && !ex[f.Name()] {
							return "access to DB.mu." + pf.Name() + "." + f.Name(), true
						}
					}
				}
			}
			return "", false
		}}
	ls.Run()
	n := 0
	for _, fn := range ls.Funcs {
		for _, b := range fn.Blocks {
			for _, in := range b.Instrs {
				if _, ok := ls.Site(in); ok {
					n++
				}
			}
		}
	}
	c.Note("C42.L1: %d accesses to DB.mu-protected fields analysed", n)
	c.Ob("C42.L1", nil, "DB.mu-protected field accesses analysed", "", n > 50, "")
	runC42L3(c)
	runC42L4(c)
	runC42B1(c)
	runC42B2(c)
	// F1: the two other "in progress" flags that serialise work across drops of DB.mu are taken
	// only where they were seen clear: one flush goroutine at a time, one MANIFEST writer at a time.
	if fn := c.Fn("C42.F1", "p.(*DB).maybeScheduleFlush"); fn != nil {
		if n := c.FlagOwnership("C42.F1", fn, c.Field("C42.F1", "p.DB.mu.compact.flushing"), "a flush is started only by the caller that saw no flush in progress"); n == 0 {
			c.Unresolved("C42.F1", "compact.flushing = true not found in maybeScheduleFlush")
		}
	}
	if fn := c.Fn("C42.F1", "p.(*versionSet).logLock"); fn != nil {
		if n := c.FlagOwnership("C42.F1", fn, c.Field("C42.F1", "p.versionSet.writing"), "the manifest log lock is taken only where it was seen free"); n == 0 {
			c.Unresolved("C42.F1", "writing = true not found in versionSet.logLock")
		}
	}
	c.Who("C42.F1", And(StoreTo(c.Field("C42.F1", "p.DB.mu.compact.flushing")), Pred("= true", func(in ssa.Instruction) bool {
		k, ok := in.(*ssa.Store).Val.(*ssa.Const)
		return ok && k.Value != nil && k.Value.String() == "true"
	})), "compact.flushing is set only by maybeScheduleFlush", "p.(*DB).maybeScheduleFlush")
	c.Who("C42.F1", StoreTo(c.Field("C42.F1", "p.versionSet.writing")), "versionSet.writing is written only by logLock/logUnlock", "p.(*versionSet).logLock", "p.(*versionSet).logUnlock")
	// L2: lock order DB.mu -> commitPipeline.mu is forbidden (commit.mu is acquired first)
	commitMuF := c.Field("C42.L2", "p.commitPipeline.mu")
	commitLock := M{Desc: "commitPipeline.mu.Lock", F: func(in ssa.Instruction) bool {
		cc := getCallCommon(in)
		if cc == nil {
			return false
		}
		ci := infoOfCommon(cc)
		return ci.Short == "Lock" && ci.Recv != nil && strings.HasPrefix(ci.QName, "sync.(*Mutex)") && fieldOfValue(ci.Recv) == commitMuF
	}}
	nOrder := 0
	for _, fn := range pebbleFuncs(c) {
		sites := instrs(fn, commitLock)
		if len(sites) == 0 {
			continue
		}
		fl := NewFlow(c.P).After("held:DB.mu", lock).KillAfter("held:DB.mu", unlock)
		fl.MaxDepth = 0
		// may-hold: use the inverse must-fact "DB.mu not held"
		fl2 := NewFlow(c.P).KillAfter("DB.mu-not-held", lock).After("DB.mu-not-held", unlock)
		fl2.MaxDepth = 0
		entry := emptyState()
		entry.add("DB.mu-not-held")
		res := fl2.Analyze(fn, entry)
		for _, in := range sites {
			nOrder++
			ok := res.stateBefore(in).has("DB.mu-not-held")
			c.Ob("C42.L2", fn, "commitPipeline.mu is never acquired while DB.mu is held", c.P.Pos(in.Pos()), ok,
				map[bool]string{true: "", false: "lock order inversion: commitPipeline.mu must be acquired before DB.mu (DB.Close, AsyncFlush, makeRoomForWrite rely on it)"}[ok])
		}
		_ = fl
	}
	if nOrder < 3 {
		c.Unresolved("C42.L2", "fewer than 3 commitPipeline.mu.Lock sites found")
	}
	// L2b: DB.mu is acquired before EventuallyFileOnlySnapshot.mu (the flush's transition and the
	// excise path hold DB.mu when they take es.mu); nothing acquires DB.mu — directly, or by
	// calling a function that locks it — while it holds es.mu.
	esMu := c.Field("C42.L2", "p.EventuallyFileOnlySnapshot.mu")
	esLock, esUnlock := mutexIn(esMu, "Lock"), mutexIn(esMu, "Unlock")
	locksDBMu := map[*ssa.Function]bool{}
	for _, fn := range pebbleFuncs(c) {
		if len(instrs(fn, lock)) > 0 {
			locksDBMu[fn] = true
		}
	}
	takesDBMu := Or(lock, Pred("call of a function that locks DB.mu", func(in ssa.Instruction) bool {
		call, ok := in.(*ssa.Call)
		if !ok {
			return false
		}
		cal := call.Common().StaticCallee()
		return cal != nil && locksDBMu[cal]
	}))
	nEs := 0
	for _, fn := range pebbleFuncs(c) {
		if len(instrs(fn, esLock)) == 0 {
			continue
		}
		fl := NewFlow(c.P).KillAfter("es.mu-not-held", esLock).After("es.mu-not-held", esUnlock)
		fl.MaxDepth = 0
		entry := emptyState()
		entry.add("es.mu-not-held")
		res := fl.Analyze(fn, entry)
		nEs++
		c.Require("C42.L2", res, takesDBMu, "DB.mu is never acquired while EventuallyFileOnlySnapshot.mu is held", []string{"es.mu-not-held"})
	}
	if nEs < 2 {
		c.Unresolved("C42.L2", "fewer than 2 functions locking EventuallyFileOnlySnapshot.mu found")
	}
}

// c42L3Held: functions that touch the MANIFEST writer / the blob-file set and run with the
// manifest log lock held by their caller, or before/after the DB is shared.
var c42L3Held = map[string]string{
	"p.Open": "before Open returns no other goroutine can reach the DB; the version set is built single-threaded (initNewDB / initRecoveredDB)",
}

// runC42L3: the second lock of the version set. UpdateVersionLocked releases DB.mu for the
// MANIFEST I/O; during that window only the manifest log lock (logLock/logUnlock) protects the
// MANIFEST record.Writer (versionSet.manifest) and latest.blobFiles, which the I/O phase mutates.
// Every access to those two fields happens with the log lock held.
func runC42L3(c *Ctx) {
	manifestF := c.Field("C42.L3", "p.versionSet.manifest")
	blobFilesF := c.Field("C42.L3", "p.latestVersionState.blobFiles")
	ls := &LockSet{c: c, Rule: "C42.L3",
		IsLock:      CallTo("p.(*versionSet).logLock"),
		IsUnlock:    CallTo("p.(*versionSet).logUnlock", "p.(*versionSet).logUnlockAndInvalidatePickedCompactionCache"),
		Funcs:       pebbleFuncs(c),
		HeldAtEntry: c42L3Held,
		Site: func(in ssa.Instruction) (string, bool) {
			fa, ok := in.(*ssa.FieldAddr)
			if !ok {
				return "", false
			}
			switch fieldVar(fa.X.Type(), fa.Field) {
			case manifestF:
				return "access to versionSet.manifest", true
			case blobFilesF:
				return "access to latest.blobFiles", true
			}
			return "", false
		}}
	ls.Run()
	n := 0
	for _, fn := range ls.Funcs {
		for _, b := range fn.Blocks {
			for _, in := range b.Instrs {
				if _, ok := ls.Site(in); ok {
					n++
				}
			}
		}
	}
	c.Note("C42.L3: %d accesses to manifest-lock-protected fields analysed", n)
	c.Ob("C42.L3", nil, "manifest-lock-protected field accesses analysed", "", n >= 10, "")
}

// runC42L4: DB.readState.val — the current read state every reader loads and references — is
// read and replaced only with DB.readState's RWMutex held (loadReadState takes the reference
// under the read lock; updateReadStateLocked swaps under the write lock). DB.Close releases the
// last read state without it: by then the DB is marked closed (d.closed.Store), after which no
// reader may start; that store is modelled as granting exclusive access.
func runC42L4(c *Ctx) {
	rs := c.Field("C42.L4", "p.DB.readState")
	st, _ := rs.Type().Underlying().(*types.Struct)
	if st == nil {
		c.Unresolved("C42.L4", "DB.readState is not a struct")
		return
	}
	var val *types.Var
	for i := 0; i < st.NumFields(); i++ {
		if st.Field(i).Name() == "val" {
			val = st.Field(i)
		}
	}
	if val == nil {
		c.Unresolved("C42.L4", "DB.readState.val not found")
		return
	}
	funcs := pebbleFuncs(c)
	site := fieldSites("DB.readState", val)
	closedStore := MethodOn("Store", "recv.closed")
	ls := &LockSet{c: c, Rule: "C42.L4",
		IsLock:      Or(mutexIn(rs, "Lock", "RLock"), closedStore),
		IsUnlock:    mutexIn(rs, "Unlock", "RUnlock"),
		Funcs:       funcs,
		HeldAtEntry: map[string]string{"p.Open": "before Open returns no other goroutine can reach the DB"},
		Site:        site}
	ls.Run()
	n := countSites(funcs, site)
	c.Note("C42.L4: %d accesses to DB.readState.val analysed", n)
	c.Ob("C42.L4", nil, "accesses to DB.readState.val analysed", "", n >= 3, "")
}

// c42Handover: functions that change a mutex's state across their return on purpose.
var c42Handover = map[string]string{
	"p.(*versionSet).logLock":                                     "the lock primitive itself",
	"p.(*versionSet).logUnlock":                                   "the unlock primitive itself",
	"p.(*versionSet).logUnlockAndInvalidatePickedCompactionCache": "unlock wrapper: releases the manifest log lock its caller took",
}

// runC42B1: lock balance for DB.mu, commitPipeline.mu, the manifest log lock and DB.readState.
func runC42B1(c *Ctx) {
	lock, unlock, _ := dbMuMatchers(c, "C42.B1")
	commitMu := c.Field("C42.B1", "p.commitPipeline.mu")
	rs := c.Field("C42.B1", "p.DB.readState")
	type mtx struct {
		name         string
		lock, unlock M
	}
	all := []mtx{
		{"DB.mu", lock, unlock},
		{"commitPipeline.mu", mutexIn(commitMu, "Lock"), mutexIn(commitMu, "Unlock")},
		{"the manifest log lock", CallTo("p.(*versionSet).logLock"), CallTo("p.(*versionSet).logUnlock", "p.(*versionSet).logUnlockAndInvalidatePickedCompactionCache")},
		{"DB.readState", mutexIn(rs, "Lock", "RLock"), mutexIn(rs, "Unlock", "RUnlock")},
	}
	n := 0
	for _, m := range all {
		n += c.LockBalanceAll("C42.B1", pebbleFuncs(c), m.lock, m.unlock, "every return leaves "+m.name+" as the function found it", c42Handover)
	}
	if n < 100 {
		c.Unresolved("C42.B1", fmt.Sprintf("only %d returns of lock-touching functions examined", n))
	}
}

// runC42B2: the same lock-balance rule for EVERY sync.Mutex / sync.RWMutex that is a field of a
// struct declared in a loaded engine package (found from the type declarations, not from a
// list), over the functions of the declaring package.
func runC42B2(c *Ctx) {
	isMutexType := func(t types.Type) bool {
		n, ok := t.(*types.Named)
		if !ok || n.Obj().Pkg() == nil || n.Obj().Pkg().Path() != "sync" {
			return false
		}
		return n.Obj().Name() == "Mutex" || n.Obj().Name() == "RWMutex"
	}
	type mu struct {
		field *types.Var
		name  string
		pkg   string
	}
	var mus []mu
	seen := map[*types.Var]bool{}
	var walkStruct func(st *types.Struct, prefix, pkg string, owner *types.Var, d int)
	walkStruct = func(st *types.Struct, prefix, pkg string, owner *types.Var, d int) {
		for i := 0; i < st.NumFields(); i++ {
			f := st.Field(i)
			if isMutexType(f.Type()) {
				target := f
				nm := prefix + "." + f.Name()
				if f.Embedded() && owner != nil {
					target, nm = owner, prefix // the struct field whose struct embeds the mutex
				}
				if !seen[target] {
					seen[target] = true
					mus = append(mus, mu{target, nm, pkg})
				}
				continue
			}
			if d < 2 {
				if inner, ok := f.Type().Underlying().(*types.Struct); ok {
					if _, named := f.Type().(*types.Named); !named { // anonymous struct field (DB.mu, LogWriter.flusher)
						walkStruct(inner, prefix+"."+f.Name(), pkg, f, d+1)
					}
				}
			}
		}
	}
	var paths []string
	for path := range c.P.ByPath {
		if enginePkg(path) && strings.HasPrefix(path, modPath) {
			paths = append(paths, path)
		}
	}
	sort.Strings(paths)
	for _, path := range paths {
		scope := c.P.ByPath[path].Types.Scope()
		for _, name := range scope.Names() {
			tn, ok := scope.Lookup(name).(*types.TypeName)
			if !ok {
				continue
			}
			if st, ok := tn.Type().Underlying().(*types.Struct); ok {
				walkStruct(st, tn.Name(), path, nil, 0)
			}
		}
	}
	n := 0
	for _, m := range mus {
		lk, ul := mutexIn(m.field, "Lock", "RLock"), mutexIn(m.field, "Unlock", "RUnlock")
		n += c.LockBalanceAll("C42.B2", pkgFuncs(c, m.pkg), lk, ul, "every return leaves "+m.name+" as the function found it", c42Handover)
	}
	c.Note("C42.B2: %d mutex fields found in the loaded engine packages, %d returns examined", len(mus), n)
	if len(mus) < 5 || n < 50 {
		c.Unresolved("C42.B2", fmt.Sprintf("only %d mutex fields / %d returns found", len(mus), n))
	}
}
