package main

import (
	"go/types"
	"strings"

	"golang.org/x/tools/go/ssa"
)

func init() {
	register("C42", []string{"."}, runC42)
	propExplain["C42"] = "Decides lock-discipline clauses of C42 (races are dynamic; this is the static part): every access to a field that DB.mu protects (the fields of the DB.mu struct, minus the documented atomics / pipeline-protected fields) happens with DB.mu held, established by an intra-procedural lock state plus requires-held summaries over static and interface callees, with the calling context of every root (exported entry points, goroutine bodies, callbacks) either holding the lock or documented; the same analysis for the version set's second lock: the MANIFEST writer (versionSet.manifest) and latest.blobFiles, which UpdateVersionLocked mutates while DB.mu is released, are accessed only between logLock and logUnlock; and the documented lock order is respected: no function acquires commitPipeline.mu while it holds DB.mu. (F1) the in-progress flags that serialise work across drops of DB.mu (compact.flushing, versionSet.writing) are set only on the edge where they were tested clear, and only by their owner functions. Does not decide data races on unprotected fields, deadlock freedom in general, or panics."
	propTechnique["C42"] = "lockset analysis for two locks (SSA lock state + requires-held summaries over the call graph), lock-order check"
}

// dbMuExempt: first-level fields of DB.mu that are NOT protected by DB.mu
// alone (reason from the field comments in db.go).
var dbMuExempt = map[string]string{
	"Mutex":      "the mutex itself",
	"formatVers": "vers is an atomic, read without the mutex; marker/ratcheting only under it (C40)",
	"versions":   "immutable pointer set at Open; the versionSet's own fields are guarded by DB.mu or the manifest lock",
	"log":        "manager/writer are also readable under commitPipeline.mu (comment on DB.mu.log)",
	"mem":        "mutable is also readable under commitPipeline.mu (comment on DB.mu.mem)",
	"compact":    "manualLen / burstConcurrency are atomics read without the mutex; cond is a sync.Cond",
	"nextJobID":  "accessed through newJobIDLocked only; benign",
}

// dbMuSecondLevelExempt: for the partially exempt first-level members, the sub-fields that may
// be touched without DB.mu.
var dbMuSecondLevelExempt = map[string]map[string]bool{
	"compact": {"manualLen": true, "burstConcurrency": true, "cond": true},
	"mem":     {"mutable": true},
}

var c42Held = map[string]string{
	"closure stored to complit.InProgressCompactionsFn":     "versionUpdate.InProgressCompactionsFn is invoked by UpdateVersionLocked after it re-acquired DB.mu (comment at the call: 'Now that DB.mu is held again')",
	"closure passed to p.(*versionSet).UpdateVersionLocked": "UpdateVersionLocked runs its update function with DB.mu held",
	"closure stored in map formatMajorVersionMigrations":    "migrations run under DB.mu (ratchetFormatMajorVersionLocked)",
	"p.Open": "before the DB is published no other goroutine can reach it; Open takes DB.mu for the recovery phase",
	"closure passed to p.(*commitPipeline).AllocateSeqNum": "callbacks lock DB.mu themselves where needed",
}

func runC42(c *Ctx) {
	lock, unlock, muType := dbMuMatchers(c, "C42.L1")
	st, _ := muType.Underlying().(*types.Struct)
	if st == nil {
		c.Unresolved("C42.L1", "DB.mu is not a struct")
		return
	}
	protected := map[*types.Var]bool{}
	for i := 0; i < st.NumFields(); i++ {
		f := st.Field(i)
		if _, ex := dbMuExempt[f.Name()]; !ex {
			protected[f] = true
		}
	}
	ls := &LockSet{c: c, Rule: "C42.L1", IsLock: lock, IsUnlock: unlock, Funcs: pebbleFuncs(c), HeldAtEntry: c42Held,
		Site: func(in ssa.Instruction) (string, bool) {
			fa, ok := in.(*ssa.FieldAddr)
			if !ok {
				return "", false
			}
			f := fieldVar(fa.X.Type(), fa.Field)
			if f == nil {
				return "", false
			}
			if protected[f] {
				return "access to DB.mu." + f.Name(), true
			}
			// second level: DB.mu.compact.* and DB.mu.mem.* except the documented lock-free members
			if inner, ok := fa.X.(*ssa.FieldAddr); ok {
				if pf := fieldVar(inner.X.Type(), inner.Field); pf != nil {
					if pt, ok := inner.X.Type().Underlying().(*types.Pointer); ok && types.Identical(pt.Elem(), muType) {
						if ex, has := dbMuSecondLevelExempt[pf.Name()]; has && !ex[f.Name()] {
							return "access to DB.mu." + pf.Name() + "." + f.Name(), true
						}
					}
				}
			}
			return "", false
		}}
	ls.Run()
	n := 0
	for _, fn := range ls.Funcs {
		for _, b := range fn.Blocks {
			for _, in := range b.Instrs {
				if _, ok := ls.Site(in); ok {
					n++
				}
			}
		}
	}
	c.Note("C42.L1: %d accesses to DB.mu-protected fields analysed", n)
	c.Ob("C42.L1", nil, "DB.mu-protected field accesses analysed", "", n > 50, "")
	runC42L3(c)
	// F1: the two other "in progress" flags that serialise work across drops of DB.mu are taken
	// only where they were seen clear: one flush goroutine at a time, one MANIFEST writer at a time.
	if fn := c.Fn("C42.F1", "p.(*DB).maybeScheduleFlush"); fn != nil {
		if n := c.FlagOwnership("C42.F1", fn, c.Field("C42.F1", "p.DB.mu.compact.flushing"), "a flush is started only by the caller that saw no flush in progress"); n == 0 {
			c.Unresolved("C42.F1", "compact.flushing = true not found in maybeScheduleFlush")
		}
	}
	if fn := c.Fn("C42.F1", "p.(*versionSet).logLock"); fn != nil {
		if n := c.FlagOwnership("C42.F1", fn, c.Field("C42.F1", "p.versionSet.writing"), "the manifest log lock is taken only where it was seen free"); n == 0 {
			c.Unresolved("C42.F1", "writing = true not found in versionSet.logLock")
		}
	}
	c.Who("C42.F1", And(StoreTo(c.Field("C42.F1", "p.DB.mu.compact.flushing")), Pred("= true", func(in ssa.Instruction) bool {
		k, ok := in.(*ssa.Store).Val.(*ssa.Const)
		return ok && k.Value != nil && k.Value.String() == "true"
	})), "compact.flushing is set only by maybeScheduleFlush", "p.(*DB).maybeScheduleFlush")
	c.Who("C42.F1", StoreTo(c.Field("C42.F1", "p.versionSet.writing")), "versionSet.writing is written only by logLock/logUnlock", "p.(*versionSet).logLock", "p.(*versionSet).logUnlock")
	// L2: lock order DB.mu -> commitPipeline.mu is forbidden (commit.mu is acquired first)
	commitMuF := c.Field("C42.L2", "p.commitPipeline.mu")
	commitLock := M{Desc: "commitPipeline.mu.Lock", F: func(in ssa.Instruction) bool {
		cc := getCallCommon(in)
		if cc == nil {
			return false
		}
		ci := infoOfCommon(cc)
		return ci.Short == "Lock" && ci.Recv != nil && strings.HasPrefix(ci.QName, "sync.(*Mutex)") && fieldOfValue(ci.Recv) == commitMuF
	}}
	nOrder := 0
	for _, fn := range pebbleFuncs(c) {
		sites := instrs(fn, commitLock)
		if len(sites) == 0 {
			continue
		}
		fl := NewFlow(c.P).After("held:DB.mu", lock).KillAfter("held:DB.mu", unlock)
		fl.MaxDepth = 0
		// may-hold: use the inverse must-fact "DB.mu not held"
		fl2 := NewFlow(c.P).KillAfter("DB.mu-not-held", lock).After("DB.mu-not-held", unlock)
		fl2.MaxDepth = 0
		entry := emptyState()
		entry.add("DB.mu-not-held")
		res := fl2.Analyze(fn, entry)
		for _, in := range sites {
			nOrder++
			ok := res.stateBefore(in).has("DB.mu-not-held")
			c.Ob("C42.L2", fn, "commitPipeline.mu is never acquired while DB.mu is held", c.P.Pos(in.Pos()), ok,
				map[bool]string{true: "", false: "lock order inversion: commitPipeline.mu must be acquired before DB.mu (DB.Close, AsyncFlush, makeRoomForWrite rely on it)"}[ok])
		}
		_ = fl
	}
	if nOrder < 3 {
		c.Unresolved("C42.L2", "fewer than 3 commitPipeline.mu.Lock sites found")
	}
}

// c42L3Held: functions that touch the MANIFEST writer / the blob-file set and run with the
// manifest log lock held by their caller, or before/after the DB is shared.
var c42L3Held = map[string]string{
	"p.Open": "before Open returns no other goroutine can reach the DB; the version set is built single-threaded (initNewDB / initRecoveredDB)",
}

// runC42L3: the second lock of the version set. UpdateVersionLocked releases DB.mu for the
// MANIFEST I/O; during that window only the manifest log lock (logLock/logUnlock) protects the
// MANIFEST record.Writer (versionSet.manifest) and latest.blobFiles, which the I/O phase mutates.
// Every access to those two fields happens with the log lock held.
func runC42L3(c *Ctx) {
	manifestF := c.Field("C42.L3", "p.versionSet.manifest")
	blobFilesF := c.Field("C42.L3", "p.latestVersionState.blobFiles")
	ls := &LockSet{c: c, Rule: "C42.L3",
		IsLock:      CallTo("p.(*versionSet).logLock"),
		IsUnlock:    CallTo("p.(*versionSet).logUnlock", "p.(*versionSet).logUnlockAndInvalidatePickedCompactionCache"),
		Funcs:       pebbleFuncs(c),
		HeldAtEntry: c42L3Held,
		Site: func(in ssa.Instruction) (string, bool) {
			fa, ok := in.(*ssa.FieldAddr)
			if !ok {
				return "", false
			}
			switch fieldVar(fa.X.Type(), fa.Field) {
			case manifestF:
				return "access to versionSet.manifest", true
			case blobFilesF:
				return "access to latest.blobFiles", true
			}
			return "", false
		}}
	ls.Run()
	n := 0
	for _, fn := range ls.Funcs {
		for _, b := range fn.Blocks {
			for _, in := range b.Instrs {
				if _, ok := ls.Site(in); ok {
					n++
				}
			}
		}
	}
	c.Note("C42.L3: %d accesses to manifest-lock-protected fields analysed", n)
	c.Ob("C42.L3", nil, "manifest-lock-protected field accesses analysed", "", n >= 10, "")
}
