# Sourced by every script in /verif. Pins the toolchain and offline flags.
# /repo/go.mod needs go >= 1.25.3; the default /usr/bin/go (1.23) can only
# auto-switch when GOSUMDB/GOTOOLCHAIN are left alone, so call a cached
# toolchain's go binary directly.
for cand in /root/go/pkg/mod/golang.org/toolchain@v0.0.1-go1.25.3.linux-amd64 /opt/veriftools/go1.26.8 /root/go/pkg/mod/golang.org/toolchain@v0.0.1-go1.26.8.linux-amd64; do
  if [ -x "$cand/bin/go" ]; then VERIF_GOROOT="$cand"; break; fi
done
if [ -z "$VERIF_GOROOT" ]; then echo "env.sh: no suitable Go toolchain found" >&2; exit 2; fi
export VERIF_GOROOT
export PATH="$VERIF_GOROOT/bin:$PATH"
export GOROOT="$VERIF_GOROOT"
export GOTOOLCHAIN=local GOFLAGS=-mod=mod GOPROXY=off GOWORK=off GONOSUMDB='*' GONOSUMCHECK=1 GOFLAGS=-mod=mod
unset GOSUMDB
