package pebble

import (
	"fmt"
	"strings"
	"testing"

	"github.com/cockroachdb/pebble/vfs"
)

// TestSeedDemoC33 builds a single level (first the memtable, then the single
// flushed sstable) that contains, over the same user-key range:
//
//	DEL-RANGE [a,e) @ seq s1
//	SET        c    @ seq s2 > s1
//	-- snapshot taken here --
//	DEL-RANGE [a,e) @ seq s3 > s2
//
// The two range deletions fragment into one span [a,e) with keys {s3, s1}.
// At the snapshot, only the s1 key is visible, and it is OLDER than c, so c
// (and b, d which are written the same way) must be visible to an iterator
// created from the snapshot, in both directions and across direction
// switches. An iterator at the latest sequence number must see nothing but
// the keys outside [a,e).
func TestSeedDemoC33(t *testing.T) {
	d, err := Open("", &Options{FS: vfs.NewMem()})
	if err != nil {
		t.Fatal(err)
	}
	defer func() {
		if err := d.Close(); err != nil {
			t.Fatal(err)
		}
	}()

	must := func(err error) {
		t.Helper()
		if err != nil {
			t.Fatal(err)
		}
	}
	must(d.Set([]byte("0"), []byte("v0"), nil))
	must(d.DeleteRange([]byte("a"), []byte("e"), nil)) // older tombstone
	must(d.Set([]byte("b"), []byte("vb"), nil))
	must(d.Set([]byte("c"), []byte("vc"), nil))
	must(d.Set([]byte("d"), []byte("vd"), nil))
	must(d.Set([]byte("z"), []byte("vz"), nil))
	snap := d.NewSnapshot()
	defer func() { must(snap.Close()) }()
	must(d.DeleteRange([]byte("a"), []byte("e"), nil)) // newer tombstone, invisible to snap

	type newIterFn func() *Iterator
	snapIter := func() *Iterator {
		it, err := snap.NewIter(nil)
		must(err)
		return it
	}
	latestIter := func() *Iterator {
		it, err := d.NewIter(nil)
		must(err)
		return it
	}

	forward := func(mk newIterFn) string {
		it := mk()
		defer it.Close()
		var sb strings.Builder
		for ok := it.First(); ok; ok = it.Next() {
			fmt.Fprintf(&sb, "%s=%s ", it.Key(), it.Value())
		}
		must(it.Error())
		return strings.TrimSpace(sb.String())
	}
	backward := func(mk newIterFn) string {
		it := mk()
		defer it.Close()
		var sb strings.Builder
		for ok := it.Last(); ok; ok = it.Prev() {
			fmt.Fprintf(&sb, "%s=%s ", it.Key(), it.Value())
		}
		must(it.Error())
		return strings.TrimSpace(sb.String())
	}
	// zigzag: SeekGE(c), Prev, Next, Next, Prev -- exercises direction switches.
	zigzag := func(mk newIterFn) string {
		it := mk()
		defer it.Close()
		var sb strings.Builder
		rec := func(ok bool) {
			if ok {
				fmt.Fprintf(&sb, "%s ", it.Key())
			} else {
				sb.WriteString(". ")
			}
		}
		rec(it.SeekGE([]byte("c")))
		rec(it.Prev())
		rec(it.Next())
		rec(it.Next())
		rec(it.Prev())
		rec(it.SeekLT([]byte("d")))
		must(it.Error())
		return strings.TrimSpace(sb.String())
	}

	check := func(stage string) {
		t.Helper()
		const wantSnapFwd = "0=v0 b=vb c=vc d=vd z=vz"
		const wantSnapBwd = "z=vz d=vd c=vc b=vb 0=v0"
		const wantSnapZig = "c b c d c c"
		if got := forward(snapIter); got != wantSnapFwd {
			t.Errorf("%s: snapshot forward scan:\n got: %s\nwant: %s", stage, got, wantSnapFwd)
		}
		if got := backward(snapIter); got != wantSnapBwd {
			t.Errorf("%s: snapshot backward scan:\n got: %s\nwant: %s", stage, got, wantSnapBwd)
		}
		if got := zigzag(snapIter); got != wantSnapZig {
			t.Errorf("%s: snapshot zigzag:\n got: %s\nwant: %s", stage, got, wantSnapZig)
		}
		// Sanity: at the latest sequence number everything in [a,e) is gone.
		if got, want := forward(latestIter), "0=v0 z=vz"; got != want {
			t.Errorf("%s: latest forward scan:\n got: %s\nwant: %s", stage, got, want)
		}
		if got, want := backward(latestIter), "z=vz 0=v0"; got != want {
			t.Errorf("%s: latest backward scan:\n got: %s\nwant: %s", stage, got, want)
		}
		// Sanity: point reads through the snapshot agree with the model.
		for _, k := range []string{"b", "c", "d"} {
			v, closer, err := snap.Get([]byte(k))
			if err != nil {
				t.Errorf("%s: snap.Get(%s): %v", stage, k, err)
				continue
			}
			if string(v) != "v"+k {
				t.Errorf("%s: snap.Get(%s) = %q", stage, k, v)
			}
			closer.Close()
		}
	}

	// Stage 1: everything lives in one memtable (one mergingIter level).
	check("memtable")

	// Stage 2: everything lives in one L0 sstable. The open snapshot forces
	// the flush to retain both tombstones and the point keys between them.
	must(d.Flush())
	check("sstable")
}
