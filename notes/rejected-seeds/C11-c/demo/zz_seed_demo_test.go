package pebble

import (
	"bytes"
	"fmt"
	"strings"
	"testing"

	"github.com/cockroachdb/pebble/vfs"
	"github.com/stretchr/testify/require"
)

// TestSeedDemoC11 checks crash-recovery prefix consistency for a history that
// contains a "large" batch (one that is too big for a memtable and is queued
// as a flushable batch) carrying a range deletion.
//
// History (every commit is synced, so after a crash the ONLY admissible
// recovered state is the state after the full history):
//
//	1. Set a, b, c, d                      (four small synced batches)
//	2. {DeleteRange [b, d), Set big=<40KB>} (one large synced batch)
//	3. Set z                               (small synced batch)
//
// The crash is taken while the large batch is still only in the WAL (flushes
// are held back), so that reopening the DB must rebuild it from the WAL.
func TestSeedDemoC11(t *testing.T) {
	mem := vfs.NewCrashableMem()
	newOpts := func(fs vfs.FS) *Options {
		return &Options{
			FS:                          fs,
			MemTableSize:                64 << 10,
			MemTableStopWritesThreshold: 100,
			DisableAutomaticCompactions: true,
		}
	}

	d, err := Open("db", newOpts(mem))
	require.NoError(t, err)

	// Hold back flushes so that the crash image deterministically contains
	// the large batch in the WAL only.
	d.mu.Lock()
	d.mu.compact.flushing = true
	d.mu.Unlock()

	for _, k := range []string{"a", "b", "c", "d"} {
		require.NoError(t, d.Set([]byte(k), []byte("v-"+k), Sync))
	}

	big := bytes.Repeat([]byte("x"), 40<<10)
	b := d.NewBatch()
	require.NoError(t, b.DeleteRange([]byte("b"), []byte("d"), nil))
	require.NoError(t, b.Set([]byte("big"), big, nil))
	require.NoError(t, b.Commit(Sync))
	require.NotNil(t, b.flushable, "the batch was expected to take the large (flushable) batch path")
	require.NoError(t, b.Close())

	require.NoError(t, d.Set([]byte("z"), []byte("v-z"), Sync))

	dump := func(d *DB) string {
		var sb strings.Builder
		it, err := d.NewIter(nil)
		require.NoError(t, err)
		for it.First(); it.Valid(); it.Next() {
			v := string(it.Value())
			if len(v) > 16 {
				v = fmt.Sprintf("<%d bytes>", len(v))
			}
			fmt.Fprintf(&sb, "%s=%s\n", it.Key(), v)
		}
		require.NoError(t, it.Close())
		return sb.String()
	}

	// The model state after the full history.
	const want = "a=v-a\nbig=<40960 bytes>\nd=v-d\nz=v-z\n"
	require.Equal(t, want, dump(d), "live state before the crash")

	// Crash: keep exactly what was synced.
	crashFS := mem.CrashClone(vfs.CrashCloneCfg{UnsyncedDataPercent: 0})

	d.mu.Lock()
	d.mu.compact.flushing = false
	d.mu.Unlock()
	require.NoError(t, d.Close())

	// Recover.
	d, err = Open("db", newOpts(crashFS))
	require.NoError(t, err)
	got := dump(d)
	if got != want {
		t.Errorf("recovered state is not the state after any admissible prefix of the history\n"+
			"want (full history, all commits were synced):\n%s\ngot:\n%s", want, got)
	}
	for _, k := range []string{"b", "c"} {
		if _, closer, err := d.Get([]byte(k)); err == nil {
			closer.Close()
			t.Errorf("key %q was range-deleted by a synced batch but reappeared after recovery "+
				"(while %q, written by the same batch, and %q, written later, survived)", k, "big", "z")
		} else {
			require.ErrorIs(t, err, ErrNotFound)
		}
	}

	// The reopened DB keeps the wrong state across a further clean restart.
	require.NoError(t, d.Set([]byte("y"), []byte("v-y"), Sync))
	require.NoError(t, d.Close())
	d, err = Open("db", newOpts(crashFS))
	require.NoError(t, err)
	const want2 = "a=v-a\nbig=<40960 bytes>\nd=v-d\ny=v-y\nz=v-z\n"
	if got := dump(d); got != want2 {
		t.Errorf("state after second reopen:\nwant:\n%s\ngot:\n%s", want2, got)
	}
	require.NoError(t, d.Close())
}
