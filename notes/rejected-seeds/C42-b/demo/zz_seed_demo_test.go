// Copyright 2025 The LevelDB-Go and Pebble Authors. All rights reserved. Use
// of this source code is governed by a BSD-style license that can be found in
// the LICENSE file.

package pebble

import (
	"sync/atomic"
	"testing"
	"time"

	"github.com/cockroachdb/pebble/vfs"
	"github.com/stretchr/testify/require"
)

// TestSeedDemoEFOSCloseDuringFlush closes an EventuallyFileOnlySnapshot that
// has not yet transitioned to a file-only snapshot while a flush is in the
// middle of installing its new version (i.e. the flush goroutine holds DB.mu
// and is about to call maybeTransitionSnapshotsToFileOnlyLocked). Both
// operations are permitted concurrently by the API and must complete.
//
// The interleaving is made deterministic with Options.DebugCheck, which the
// flush invokes with DB.mu held right before it transitions EFOSs: the hook
// parks the flush until the concurrent Close has progressed as far as it can.
func TestSeedDemoEFOSCloseDuringFlush(t *testing.T) {
	var armed atomic.Bool
	var es *EventuallyFileOnlySnapshot
	inCheck := make(chan struct{})

	opts := &Options{
		FS:                          vfs.NewMem(),
		DisableAutomaticCompactions: true,
	}
	opts.DebugCheck = func(d *DB) error {
		if !armed.CompareAndSwap(true, false) {
			return nil
		}
		// DB.mu is held by the calling (flush) goroutine.
		close(inCheck)
		// Give the concurrent EFOS.Close up to 2s to get as far as it can
		// while DB.mu is unavailable to it. If it is observed holding es.mu
		// it is necessarily parked on DB.mu (which we hold), so we can stop
		// waiting right away.
		deadline := time.Now().Add(2 * time.Second)
		for time.Now().Before(deadline) {
			if !es.mu.TryLock() {
				return nil
			}
			es.mu.Unlock()
			time.Sleep(time.Millisecond)
		}
		return nil
	}

	d, err := Open("", opts)
	require.NoError(t, err)
	require.NoError(t, d.Set([]byte("a"), []byte("1"), nil))

	// The protected range overlaps the mutable memtable, so the EFOS starts
	// out wrapping a regular snapshot and only becomes file-only on flush.
	es = d.NewEventuallyFileOnlySnapshot([]KeyRange{{Start: []byte("a"), End: []byte("z")}})
	require.False(t, es.hasTransitioned())

	armed.Store(true)
	flushDone := make(chan error, 1)
	go func() { flushDone <- d.Flush() }()
	select {
	case <-inCheck:
	case <-time.After(30 * time.Second):
		t.Fatal("flush never reached the DebugCheck hook")
	}

	closeDone := make(chan error, 1)
	go func() { closeDone <- es.Close() }()

	for name, ch := range map[string]chan error{"EFOS.Close": closeDone, "DB.Flush": flushDone} {
		select {
		case err := <-ch:
			require.NoError(t, err, name)
		case <-time.After(10 * time.Second):
			t.Fatalf("deadlock: %s did not return while racing with a concurrent flush/close "+
				"(EFOS.Close holds es.mu waiting for DB.mu; flush holds DB.mu waiting for es.mu)", name)
		}
	}
	require.NoError(t, d.Close())
}
