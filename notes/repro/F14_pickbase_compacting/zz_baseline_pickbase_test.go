package manifest

import (
	"testing"

	"github.com/cockroachdb/pebble/internal/base"
)

// TestZZBaselinePickBaseIncludesCompacting builds, by hand, the L0 state that
// an in-progress intra-L0 compaction leaves behind when it did not take the
// oldest table of its seed interval (e.g. because the size heuristic in
// intraL0CompactionUsingSeed stopped the downward walk at a large table):
//
//	L0.2  t3  d#5-e#6   Compacting, IsIntraL0Compacting
//	L0.1  t2  d#3-e#4   Compacting, IsIntraL0Compacting
//	L0.0  t1  d#1-e#2   not compacting            <- lowest sublevel, the seed
//
// The interval bookkeeping is initialised the way production code does it:
// newL0Sublevels followed by InitCompactingFileInfo with the running intra-L0
// compaction. PickBaseCompaction is then called with minCompactionDepth=1 (the
// value pebble.pickL0 uses) and an empty Lbase. The test fails if the returned
// candidate contains a table that is already compacting.
func TestZZBaselinePickBaseIncludesCompacting(t *testing.T) {
	cmp := base.DefaultComparer.Compare
	mk := func(num int, seq uint64, intraL0Compacting bool) *TableMetadata {
		m := (&TableMetadata{TableNum: base.TableNum(num)}).ExtendPointKeyBounds(
			cmp,
			base.MakeInternalKey([]byte("d"), base.SeqNum(seq), base.InternalKeyKindSet),
			base.MakeInternalKey([]byte("e"), base.SeqNum(seq+1), base.InternalKeyKindSet),
		)
		m.SeqNums.Low = base.SeqNum(seq)
		m.SeqNums.High = base.SeqNum(seq + 1)
		m.LargestSeqNumAbsolute = m.SeqNums.High
		m.Size = 1 << 10
		m.InitPhysicalBacking()
		if intraL0Compacting {
			m.CompactionState = CompactionStateCompacting
			m.IsIntraL0Compacting = true
		}
		return m
	}
	files := []*TableMetadata{
		mk(1, 1, false),
		mk(2, 3, true),
		mk(3, 5, true),
	}
	lm := MakeLevelMetadata(cmp, 0, files)
	s, err := newL0Sublevels(&lm, cmp, base.DefaultFormatter, 0 /* flushSplitMaxBytes */)
	if err != nil {
		t.Fatal(err)
	}
	// Same call production makes on every version install / compaction end
	// (versionSet, DB.clearCompactingState), with the running intra-L0
	// compaction of t2+t3.
	s.InitCompactingFileInfo([]L0Compaction{{
		Bounds:    base.UserKeyBoundsInclusive([]byte("d"), []byte("e")),
		IsIntraL0: true,
	}})

	// Sanity-check the layout and the interval bookkeeping.
	for i, f := range files {
		if got := s.state(f).subLevel; got != i {
			t.Fatalf("table %s: expected sublevel %d, got %d", f.TableNum, i, got)
		}
	}
	seedInterval := s.state(files[0]).minIntervalIndex
	iv := &s.orderedIntervals[seedInterval]
	t.Logf("seed interval %d: files=%d compactingFileCount=%d isBaseCompacting=%t intervalRangeIsBaseCompacting=%t",
		seedInterval, len(iv.files), iv.compactingFileCount, iv.isBaseCompacting, iv.intervalRangeIsBaseCompacting)
	if len(iv.files) != 3 || iv.compactingFileCount != 2 || iv.isBaseCompacting || iv.intervalRangeIsBaseCompacting {
		t.Fatalf("unexpected interval bookkeeping")
	}
	if iv.files[0] != files[0] || iv.files[0].IsCompacting() {
		t.Fatalf("expected non-compacting t1 to be the lowest file of the seed interval")
	}

	lcf := s.PickBaseCompaction(base.DefaultLogger, 1 /* minCompactionDepth */, LevelSlice{}, 6 /* baseLevel */, nil)
	if lcf == nil {
		t.Logf("no base compaction picked")
		return
	}
	var picked []base.TableNum
	for _, f := range lcf.Files {
		picked = append(picked, f.TableNum)
	}
	t.Logf("PickBaseCompaction returned %v (stack depth reduction %d)", picked, lcf.seedIntervalStackDepthReduction)
	for _, f := range lcf.Files {
		if f.IsCompacting() {
			t.Fatalf("PickBaseCompaction candidate %v includes table %s (sublevel %d), which is already compacting (IsIntraL0Compacting=%t)",
				picked, f.TableNum, s.state(f).subLevel, f.IsIntraL0Compacting)
		}
	}
}
