// F5: a read error during ScanInternal iterator construction leaks the read state.
package main

import (
	"context"
	"fmt"
	"strings"

	"github.com/cockroachdb/pebble"
	"github.com/cockroachdb/pebble/rangekey"
	"github.com/cockroachdb/pebble/vfs"
	"github.com/cockroachdb/pebble/vfs/errorfs"
)

func main() {
	mem := vfs.NewMem()
	var toggle errorfs.Toggle
	toggle.Injector = errorfs.InjectorFunc(func(op errorfs.Op) error {
		if strings.HasSuffix(op.Path, ".sst") && op.Kind.IsRead() {
			return errorfs.ErrInjected
		}
		return nil
	})
	fs := errorfs.Wrap(mem, &toggle)
	opts := func() *pebble.Options {
		return &pebble.Options{FS: fs, FormatMajorVersion: pebble.FormatNewest, DisableAutomaticCompactions: true, DisableTableStats: true}
	}
	db, err := pebble.Open("db", opts())
	must(err)
	must(db.Set([]byte("b"), []byte("v"), pebble.Sync))
	must(db.RangeKeySet([]byte("a"), []byte("z"), []byte("@1"), []byte("rk"), pebble.Sync))
	must(db.Flush())
	must(db.Close())
	db, err = pebble.Open("db", opts())
	must(err)
	scan := func() error {
		return db.ScanInternal(context.Background(), pebble.ScanInternalOptions{
			IterOptions:   pebble.IterOptions{KeyTypes: pebble.IterKeyTypePointsAndRanges},
			VisitPointKey: func(key *pebble.InternalKey, value pebble.LazyValue, _ pebble.IteratorLevel) error { return nil },
			VisitRangeDel: func(start, end []byte, seqNum pebble.SeqNum) error { return nil },
			VisitRangeKey: func(start, end []byte, keys []rangekey.Key) error { return nil },
		})
	}
	toggle.On()
	err = scan()
	toggle.Off()
	fmt.Printf("ScanInternal with injected read error: %v\n", firstLine(err))
	fmt.Printf("ScanInternal after faults stop: %v\n", firstLine(scan()))
	fmt.Printf("Close: %v (want <nil>; pinned tree: leaked iterators)\n", firstLine(db.Close()))
}

func firstLine(err error) string {
	if err == nil {
		return "<nil>"
	}
	s := err.Error()
	if i := strings.IndexByte(s, '\n'); i >= 0 {
		s = s[:i]
	}
	return s
}

func must(err error) {
	if err != nil {
		panic(err)
	}
}
