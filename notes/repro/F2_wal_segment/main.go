// F2: confirmed corruption in a non-final segment of a logical WAL is silently skipped.
package main

import (
	"encoding/binary"
	"fmt"
	"io"
	"sync"

	"github.com/cockroachdb/pebble/batchrepr"
	"github.com/cockroachdb/pebble/record"
	"github.com/cockroachdb/pebble/vfs"
	"github.com/cockroachdb/pebble/wal"
)

func mkBatch(seq uint64, payload int) []byte {
	b := make([]byte, batchrepr.HeaderLen+payload)
	binary.LittleEndian.PutUint64(b[:8], seq)
	binary.LittleEndian.PutUint32(b[8:12], 1)
	for i := batchrepr.HeaderLen; i < len(b); i++ {
		b[i] = byte(seq)
	}
	return b
}

func writeSeg(fs vfs.FS, name string, seqs []uint64) []int64 {
	f, err := fs.Create(name, vfs.WriteCategoryUnspecified)
	if err != nil {
		panic(err)
	}
	w := record.NewLogWriter(f, 1, record.LogWriterConfig{WriteWALSyncOffsets: func() bool { return true }})
	var ends []int64
	for _, s := range seqs {
		var wg sync.WaitGroup
		var serr error
		wg.Add(1)
		off, err := w.SyncRecord(mkBatch(s, 100), &wg, &serr)
		if err != nil {
			panic(err)
		}
		wg.Wait()
		if serr != nil {
			panic(serr)
		}
		ends = append(ends, off)
	}
	if err := w.Close(); err != nil {
		panic(err)
	}
	return ends
}

func readAll(fs vfs.FS) {
	logs, err := wal.Scan(wal.Dir{FS: fs, Dirname: ""})
	if err != nil {
		panic(err)
	}
	for _, ll := range logs {
		r := ll.OpenForRead()
		for {
			rec, off, err := r.NextRecord()
			if err != nil {
				fmt.Printf("  end: err=%v at %s\n", err, off)
				break
			}
			buf, _ := io.ReadAll(rec)
			h, _ := batchrepr.ReadHeader(buf)
			fmt.Printf("  record seq=%d\n", h.SeqNum)
		}
		r.Close()
	}
}

func main() {
	fs := vfs.NewMem()
	ends := writeSeg(fs, "000001.log", []uint64{10, 20, 30})
	writeSeg(fs, "000001-001.log", []uint64{40, 50})
	fmt.Println("== intact")
	readAll(fs)
	f, err := fs.OpenReadWrite("000001.log", vfs.WriteCategoryUnspecified)
	if err != nil {
		panic(err)
	}
	pos := ends[0] + 40
	b := make([]byte, 1)
	f.ReadAt(b, pos)
	b[0] ^= 0xff
	f.WriteAt(b, pos)
	f.Close()
	fmt.Println("== synced record seq=20 corrupted in the non-final segment (want: a corruption error, not 10,40,50)")
	readAll(fs)
}
