package manifest

import (
	"bytes"
	"testing"
)

func TestZZF11DecodeHugeLength(t *testing.T) {
	in := []byte{0x01, 0xff, 0xff, 0xff, 0xff, 0xff, 0xff, 0xff, 0xff, 0x7f}
	var ve VersionEdit
	defer func() {
		if r := recover(); r != nil {
			t.Fatalf("PANIC: %v", r)
		}
	}()
	err := ve.Decode(bytes.NewReader(in))
	t.Logf("err: %v", err)
	if err == nil {
		t.Fatalf("expected an error")
	}
}
