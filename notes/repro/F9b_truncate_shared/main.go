// F9b: a failed seek in truncateSharedFile makes skip-shared ScanInternal omit a shared table.
package main

import (
	"context"
	"errors"
	"fmt"
	"math/rand/v2"
	"strings"
	"sync"

	"github.com/cockroachdb/pebble"
	"github.com/cockroachdb/pebble/objstorage/remote"
	"github.com/cockroachdb/pebble/rangekey"
	"github.com/cockroachdb/pebble/vfs"
)

type faultyStorage struct {
	remote.Storage
	mu       sync.Mutex
	armed    bool
	injected int
}

type faultyReader struct {
	remote.ObjectReader
	s    *faultyStorage
	size int64
}

func (s *faultyStorage) ReadObject(ctx context.Context, name string) (remote.ObjectReader, int64, error) {
	r, n, err := s.Storage.ReadObject(ctx, name)
	if err != nil {
		return nil, 0, err
	}
	return &faultyReader{r, s, n}, n, nil
}

func (r *faultyReader) ReadAt(ctx context.Context, p []byte, off int64) error {
	r.s.mu.Lock()
	fail := r.s.armed && off+int64(len(p)) < r.size*2/3
	if fail {
		r.s.injected++
	}
	r.s.mu.Unlock()
	if fail {
		return errors.New("injected remote read error")
	}
	return r.ObjectReader.ReadAt(ctx, p, off)
}

func main() {
	mem := vfs.NewMem()
	st := &faultyStorage{Storage: remote.NewInMem()}
	opts := func() *pebble.Options {
		o := &pebble.Options{FS: mem, FormatMajorVersion: pebble.FormatNewest, DisableAutomaticCompactions: true, DisableTableStats: true}
		o.RemoteStorage = remote.MakeSimpleFactory(map[remote.Locator]remote.Storage{{}: st})
		o.CreateOnShared = remote.CreateOnSharedAll
		o.EnsureDefaults()
		for i := range o.Levels {
			o.Levels[i].BlockSize = 256
		}
		return o
	}
	db, err := pebble.Open("db", opts())
	must(err)
	must(db.SetCreatorID(1))
	rng := rand.New(rand.NewPCG(1, 2))
	for c := 'a'; c <= 'z'; c++ {
		val := make([]byte, 100)
		for i := range val {
			val[i] = byte(rng.IntN(256))
		}
		must(db.Set([]byte(string(c)), val, pebble.NoSync))
	}
	must(db.Flush())
	must(db.Compact(context.Background(), []byte("a"), []byte("zz"), false))
	must(db.Close())
	db, err = pebble.Open("db", opts())
	must(err)
	must(db.SetCreatorID(1))
	scan := func() (string, error) {
		var sb strings.Builder
		err := db.ScanInternal(context.Background(), pebble.ScanInternalOptions{
			IterOptions: pebble.IterOptions{KeyTypes: pebble.IterKeyTypePointsAndRanges, LowerBound: []byte("m"), UpperBound: []byte("p")},
			VisitPointKey: func(key *pebble.InternalKey, value pebble.LazyValue, _ pebble.IteratorLevel) error {
				fmt.Fprintf(&sb, "point(%s) ", key.UserKey)
				return nil
			},
			VisitRangeDel: func(start, end []byte, seqNum pebble.SeqNum) error { return nil },
			VisitRangeKey: func(start, end []byte, keys []rangekey.Key) error { return nil },
			VisitSharedFile: func(sst *pebble.SharedSSTMeta) error {
				fmt.Fprintf(&sb, "sharedFile[%s,%s] ", sst.Smallest.UserKey, sst.Largest.UserKey)
				return nil
			},
		})
		return sb.String(), err
	}
	st.mu.Lock()
	st.armed = true
	st.mu.Unlock()
	out, err := scan()
	st.mu.Lock()
	st.armed = false
	inj := st.injected
	st.mu.Unlock()
	fmt.Printf("ScanInternal([m,p)) with %d injected remote read errors: err=%v visited: %q (want an error)\n", inj, err, out)
	out, err = scan()
	fmt.Printf("ScanInternal([m,p)) without faults: err=%v visited: %q\n", err, out)
	fmt.Println("Close:", db.Close())
}

func must(err error) {
	if err != nil {
		panic(err)
	}
}
