package wal

import (
	"sync"
	"testing"
	"time"

	"github.com/cockroachdb/crlib/crtime"
	"github.com/prometheus/client_golang/prometheus"
)

// F12: recordQueue.push wipes the entry it just wrote when the queue was
// exactly full at the previous push and a pop intervened.
func TestZZF12PushAfterFullAndPop(t *testing.T) {
	var q recordQueue
	q.init(prometheus.NewHistogram(prometheus.HistogramOpts{}))
	var wg sync.WaitGroup
	var syncErr error
	for i := 0; i < initialBufferLen; i++ {
		q.push([]byte("x"), SyncOptions{}, nil, crtime.NowMono(), 0, nil)
	}
	// The queue now holds exactly initialBufferLen entries. Consume the oldest.
	q.pop(0, nil)
	wg.Add(1)
	idx, _, _ := q.push([]byte("payload"), SyncOptions{Done: &wg, Err: &syncErr}, nil, crtime.NowMono(), 0, nil)
	q.mu.RLock()
	e := q.buffer[int(idx)%len(q.buffer)]
	q.mu.RUnlock()
	if string(e.p) != "payload" || e.opts.Done == nil {
		t.Fatalf("entry %d was wiped by push's own reclaim loop: p=%q Done=%v", idx, e.p, e.opts.Done)
	}
	// The sync waiter must be released when the entry is popped.
	q.pop(idx, nil)
	done := make(chan struct{})
	go func() { wg.Wait(); close(done) }()
	select {
	case <-done:
	case <-time.After(5 * time.Second):
		t.Fatalf("sync waiter of entry %d was never released", idx)
	}
}
