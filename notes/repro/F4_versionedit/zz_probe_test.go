// F4: a VersionEdit with a range-key table that has no custom fields does not round trip.
//
// Inject without touching /repo:
//   echo '{"Replace": {"/repo/internal/manifest/zz_probe_test.go": "'$PWD'/zz_probe_test.go"}}' > /tmp/overlay.json
//   cd /repo && GOFLAGS=-mod=mod GOPROXY=off go test -overlay /tmp/overlay.json -run TestZZProbeTag5NoCustom -v ./internal/manifest
package manifest

import (
	"bytes"
	"testing"

	"github.com/cockroachdb/pebble/internal/base"
)

func TestZZProbeTag5NoCustom(t *testing.T) {
	cmp := base.DefaultComparer.Compare
	for _, ct := range []int64{0, 1700000000} {
		m := &TableMetadata{TableNum: 7, Size: 100, CreationTime: ct}
		m.SeqNums.Low, m.SeqNums.High = 5, 9
		m.LargestSeqNumAbsolute = 9
		m.ExtendRangeKeyBounds(cmp, AnyRangeKeys,
			base.MakeInternalKey([]byte("a"), 9, base.InternalKeyKindRangeKeySet),
			base.MakeExclusiveSentinelKey(base.InternalKeyKindRangeKeySet, []byte("c")))
		m.InitPhysicalBacking()
		ve := VersionEdit{NewTables: []NewTableEntry{{Level: 3, Meta: m}}, NextFileNum: 8}
		var buf bytes.Buffer
		if err := ve.Encode(&buf); err != nil {
			t.Fatal(err)
		}
		var dec VersionEdit
		err := dec.Decode(bytes.NewReader(buf.Bytes()))
		t.Logf("creationTime=%d encoded=%x decodeErr=%v decoded=%s", ct, buf.Bytes(), err, dec.String())
		if err != nil {
			t.Errorf("creationTime=%d: edit does not round trip: %v", ct, err)
		}
	}
}
