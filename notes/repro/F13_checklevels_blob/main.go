// F13: CheckLevels' blob-liveness validation ignores read errors while gathering blob handles.
package main

import (
	"bytes"
	"fmt"
	"strings"
	"sync"

	"github.com/cockroachdb/pebble"
	"github.com/cockroachdb/pebble/sstable/block"
	"github.com/cockroachdb/pebble/vfs"
	"github.com/cockroachdb/pebble/vfs/errorfs"
)

func main() {
	mem := vfs.NewMem()
	var mu sync.Mutex
	armed := false
	skip, injected := 0, 0
	inj := errorfs.InjectorFunc(func(op errorfs.Op) error {
		mu.Lock()
		defer mu.Unlock()
		if armed && strings.HasSuffix(op.Path, ".sst") && op.Kind == errorfs.OpFileReadAt && op.Offset > 0 {
			if skip > 0 {
				skip--
				return nil
			}
			injected++
			armed = false
			return errorfs.ErrInjected
		}
		return nil
	})
	fs := errorfs.Wrap(mem, inj)
	mk := func() *pebble.Options {
		o := &pebble.Options{
			FS:                          fs,
			CacheSize:                   1,
			FormatMajorVersion:          pebble.FormatNewest,
			DisableAutomaticCompactions: true,
			ValueSeparationPolicy: func() pebble.ValueSeparationPolicy {
				return pebble.ValueSeparationPolicy{Enabled: true, MinimumSize: 10, MinimumMVCCGarbageSize: 10, MaxBlobReferenceDepth: 10,
					GarbageRatioLowPriority: 1.0, GarbageRatioHighPriority: 1.0}
			},
		}
		o.Levels[0].BlockSize = 256
		o.Levels[0].Compression = func() *block.CompressionProfile { return block.NoCompression }
		return o
	}
	db, err := pebble.Open("db", mk())
	must(err)
	val := bytes.Repeat([]byte("v"), 200)
	for i := 0; i < 400; i++ {
		must(db.Set([]byte(fmt.Sprintf("k%04d", i)), val, pebble.NoSync))
	}
	must(db.Flush())
	must(db.Close())
	// reopen with a cold cache
	db, err = pebble.Open("db", mk())
	must(err)
	fmt.Println("CheckLevels without faults:", db.CheckLevels(nil))
	for s := 30; s < 80; s += 1 {
		mu.Lock()
		armed, skip, injected = true, s, 0
		mu.Unlock()
		err := db.CheckLevels(nil)
		mu.Lock()
		n := injected
		armed = false
		mu.Unlock()
		fmt.Printf("skip=%d injected-read-errors=%d CheckLevels=%v\n", s, n, err)
	}
	_ = db.Close()
}

func must(err error) {
	if err != nil {
		panic(err)
	}
}
