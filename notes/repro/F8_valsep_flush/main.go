// F8: failed flushes with value separation leave orphan blob files behind.
package main

import (
	"bytes"
	"fmt"
	"sort"
	"strings"
	"sync"

	"github.com/cockroachdb/pebble"
	"github.com/cockroachdb/pebble/vfs"
	"github.com/cockroachdb/pebble/vfs/errorfs"
)

func main() {
	mem := vfs.NewMem()
	var mu sync.Mutex
	armed := false
	injected := 0
	inj := errorfs.InjectorFunc(func(op errorfs.Op) error {
		mu.Lock()
		defer mu.Unlock()
		if armed && strings.HasSuffix(op.Path, ".blob") && op.Kind == errorfs.OpFileWrite {
			injected++
			if injected >= 2 {
				armed = false
			}
			return errorfs.ErrInjected
		}
		return nil
	})
	fs := errorfs.Wrap(mem, inj)
	opts := &pebble.Options{
		FS:                          fs,
		FormatMajorVersion:          pebble.FormatNewest,
		DisableAutomaticCompactions: true,
		ValueSeparationPolicy: func() pebble.ValueSeparationPolicy {
			return pebble.ValueSeparationPolicy{
				Enabled: true, MinimumSize: 10, MinimumMVCCGarbageSize: 10, MaxBlobReferenceDepth: 10,
				RewriteMinimumAge: 0, GarbageRatioLowPriority: 1.0, GarbageRatioHighPriority: 1.0,
			}
		},
	}
	db, err := pebble.Open("db", opts)
	must(err)
	val := bytes.Repeat([]byte("v"), 2000)
	for i := 0; i < 50; i++ {
		must(db.Set([]byte(fmt.Sprintf("k%04d", i)), val, pebble.NoSync))
	}
	ls := func() []string {
		l, _ := mem.List("db")
		var out []string
		for _, f := range l {
			if strings.HasSuffix(f, ".blob") || strings.HasSuffix(f, ".sst") {
				out = append(out, f)
			}
		}
		sort.Strings(out)
		return out
	}
	mu.Lock()
	armed = true
	mu.Unlock()
	fmt.Println("Flush err:", db.Flush())
	db.TestOnlyWaitForCleaning()
	m := db.Metrics()
	fmt.Println("files after flush (2 failed attempts) + cleaning:", ls(), "(want exactly one .sst and one .blob)")
	fmt.Printf("blob files live=%d\n", m.BlobFiles.Live.Total().Count)
	fmt.Println("Close:", db.Close())
	fmt.Println("files after close:", ls())
}

func must(err error) {
	if err != nil {
		panic(err)
	}
}
