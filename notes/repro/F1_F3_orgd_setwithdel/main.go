// F1: OnlyReadGuaranteedDurable iterator shows unflushed range keys.
// F3: Batch.AddInternalKey(SETWITHDEL) writes a value the batch readers do not read.
package main

import (
	"fmt"

	"github.com/cockroachdb/pebble"
	"github.com/cockroachdb/pebble/vfs"
)

func main() {
	db, err := pebble.Open("", &pebble.Options{FS: vfs.NewMem(), FormatMajorVersion: pebble.FormatNewest})
	if err != nil {
		panic(err)
	}
	// F1
	if err := db.RangeKeySet([]byte("a"), []byte("z"), []byte("@1"), []byte("rk"), pebble.NoSync); err != nil {
		panic(err)
	}
	it, _ := db.NewIter(&pebble.IterOptions{OnlyReadGuaranteedDurable: true, KeyTypes: pebble.IterKeyTypeRangesOnly})
	fmt.Println("F1: ORGD ranges-only iterator First() =", it.First(), "(want false: nothing was flushed)")
	it.Close()

	// F3
	b := db.NewBatch()
	ik := pebble.InternalKey{UserKey: []byte("a"), Trailer: 18} // seqnum 0, kind SETWITHDEL
	if err := b.AddInternalKey(&ik, []byte("v"), nil); err != nil {
		panic(err)
	}
	fmt.Printf("F3: repr=%q\n", b.Repr()[12:])
	r := b.Reader()
	for {
		kind, k, v, ok, err := r.Next()
		if !ok {
			fmt.Printf("F3: reader end err=%v (want nil)\n", err)
			break
		}
		fmt.Printf("F3: decoded kind=%s key=%q value=%q (want value \"v\")\n", kind, k, v)
	}
	// NB: on the pinned tree the next line ends the process with "fatal commit error".
	fmt.Println("F3: Apply err =", db.Apply(b, pebble.NoSync))
	fmt.Println("Close:", db.Close())
}
