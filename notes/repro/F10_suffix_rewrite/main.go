// F10: RewriteKeySuffixesViaWriter turns a corrupted block into silently missing keys.
package main

import (
	"fmt"
	"io"

	"github.com/cockroachdb/pebble"
	"github.com/cockroachdb/pebble/objstorage/objstorageprovider"
	"github.com/cockroachdb/pebble/sstable"
	"github.com/cockroachdb/pebble/vfs"
)

func readAll(mem vfs.FS, name string) []byte {
	f, err := mem.Open(name)
	must(err)
	defer f.Close()
	b, err := io.ReadAll(f)
	must(err)
	return b
}

func countKeys(b []byte) (int, error) {
	r, err := sstable.NewMemReader(b, sstable.ReaderOptions{})
	if err != nil {
		return 0, err
	}
	defer r.Close()
	it, err := r.NewIter(sstable.NoTransforms, nil, nil, sstable.AssertNoBlobHandles)
	if err != nil {
		return 0, err
	}
	defer it.Close()
	n := 0
	for kv := it.First(); kv != nil; kv = it.Next() {
		n++
	}
	return n, it.Error()
}

func main() {
	mem := vfs.NewMem()
	f, err := mem.Create("in.sst", vfs.WriteCategoryUnspecified)
	must(err)
	wo := sstable.WriterOptions{BlockSize: 256, TableFormat: sstable.TableFormatPebblev4, Comparer: pebble.DefaultComparer}
	w := sstable.NewWriter(objstorageprovider.NewFileWritable(f), wo)
	for i := 0; i < 200; i++ {
		must(w.Set([]byte(fmt.Sprintf("key%04d", i)), []byte("valuevaluevaluevaluevalue")))
	}
	must(w.Close())
	in := readAll(mem, "in.sst")
	n, err := countKeys(in)
	fmt.Printf("input table: %d keys, err=%v\n", n, err)
	bad := append([]byte(nil), in...)
	bad[len(bad)/3] ^= 0xff
	n, err = countKeys(bad)
	fmt.Printf("corrupted table read directly: %d keys, err=%v\n", n, err)
	r, err := sstable.NewMemReader(bad, sstable.ReaderOptions{})
	must(err)
	defer r.Close()
	of, err := mem.Create("out.sst", vfs.WriteCategoryUnspecified)
	must(err)
	_, err = sstable.RewriteKeySuffixesViaWriter(r, objstorageprovider.NewFileWritable(of), wo, nil, []byte("x"))
	fmt.Printf("RewriteKeySuffixesViaWriter on the corrupted table: err=%v (want the checksum error)\n", err)
	if err == nil {
		n, err := countKeys(readAll(mem, "out.sst"))
		fmt.Printf("rewritten table: %d keys, err=%v\n", n, err)
	}
}

func must(err error) {
	if err != nil {
		panic(err)
	}
}
