package main

import (
	"bytes"
	"context"
	"fmt"
	"sort"
	"strings"
	"sync"
	"time"

	"github.com/cockroachdb/pebble"
	"github.com/cockroachdb/pebble/vfs"
	"github.com/cockroachdb/pebble/vfs/errorfs"
)

func main() {
	mem := vfs.NewMem()
	var mu sync.Mutex
	allowed := map[string]bool{}
	armed := false
	injected := 0
	inj := errorfs.InjectorFunc(func(op errorfs.Op) error {
		mu.Lock()
		defer mu.Unlock()
		if armed && strings.HasSuffix(op.Path, ".blob") && !allowed[op.Path] && (op.Kind == errorfs.OpFileWrite || op.Kind == errorfs.OpFileSync) {
			injected++
			if injected >= 3 {
				armed = false
			}
			return errorfs.ErrInjected
		}
		return nil
	})
	fs := errorfs.Wrap(mem, inj)
	opts := &pebble.Options{
		FS:                 fs,
		FormatMajorVersion: pebble.FormatNewest,
		ValueSeparationPolicy: func() pebble.ValueSeparationPolicy {
			return pebble.ValueSeparationPolicy{
				Enabled: true, MinimumSize: 10, MinimumMVCCGarbageSize: 10, MaxBlobReferenceDepth: 10,
				RewriteMinimumAge: 0, GarbageRatioLowPriority: 0.05, GarbageRatioHighPriority: 0.05,
			}
		},
	}
	db, err := pebble.Open("db", opts)
	must(err)
	val := bytes.Repeat([]byte("v"), 2000)
	for i := 0; i < 200; i++ {
		must(db.Set([]byte(fmt.Sprintf("k%04d", i)), val, pebble.NoSync))
	}
	must(db.Flush())
	ls := func() []string {
		l, _ := mem.List("db")
		var out []string
		for _, f := range l {
			if strings.HasSuffix(f, ".blob") || strings.HasSuffix(f, ".sst") {
				out = append(out, f)
			}
		}
		sort.Strings(out)
		return out
	}
	fmt.Println("after flush:", ls())
	mu.Lock()
	for _, f := range ls() {
		allowed["db/"+f] = true
	}
	armed = true
	mu.Unlock()
	for i := 0; i < 190; i++ {
		must(db.Delete([]byte(fmt.Sprintf("k%04d", i)), pebble.NoSync))
	}
	must(db.Flush())
	must(db.Compact(context.Background(), []byte("a"), []byte("z"), false))
	for i := 0; i < 50; i++ {
		time.Sleep(100 * time.Millisecond)
		mu.Lock()
		n := injected
		mu.Unlock()
		if n >= 3 {
			break
		}
	}
	time.Sleep(500 * time.Millisecond)
	mu.Lock()
	armed = false
	fmt.Println("injected errors:", injected)
	mu.Unlock()
	db.TestOnlyWaitForCleaning()
	fmt.Println("files after failed rewrites + cleaning:", ls())
	fmt.Println("Close:", db.Close())
	fmt.Println("files after close:", ls())
}

func must(err error) {
	if err != nil {
		panic(err)
	}
}
