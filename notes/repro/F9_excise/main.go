// F9: a read error in the point-iterator seek of an excise silently drops live data.
package main

import (
	"context"
	"fmt"
	"strings"
	"sync"

	"github.com/cockroachdb/pebble"
	"github.com/cockroachdb/pebble/vfs"
	"github.com/cockroachdb/pebble/vfs/errorfs"
)

func main() {
	mem := vfs.NewMem()
	var mu sync.Mutex
	armed := false
	injected := 0
	inj := errorfs.InjectorFunc(func(op errorfs.Op) error {
		mu.Lock()
		defer mu.Unlock()
		// Fail reads in the data-block region; footer, index and properties are at the end.
		if armed && strings.HasSuffix(op.Path, ".sst") && op.Kind == errorfs.OpFileReadAt && op.Offset < 1300 {
			injected++
			return errorfs.ErrInjected
		}
		return nil
	})
	fs := errorfs.Wrap(mem, inj)
	opts := func() *pebble.Options {
		o := &pebble.Options{FS: fs, FormatMajorVersion: pebble.FormatNewest, DisableAutomaticCompactions: true, DisableTableStats: true}
		o.EnsureDefaults()
		for i := range o.Levels {
			o.Levels[i].BlockSize = 256
		}
		return o
	}
	db, err := pebble.Open("db", opts())
	must(err)
	val := strings.Repeat("v", 100)
	for c := 'a'; c <= 'z'; c++ {
		must(db.Set([]byte(string(c)), []byte(val), pebble.NoSync))
	}
	must(db.Flush())
	must(db.Close())
	db, err = pebble.Open("db", opts()) // cold block cache
	must(err)
	mu.Lock()
	armed = true
	mu.Unlock()
	err = db.Excise(context.Background(), pebble.KeyRange{Start: []byte("m"), End: []byte("p")})
	mu.Lock()
	armed = false
	fmt.Printf("Excise([m,p)) with %d injected read errors: err=%v (want an error)\n", injected, err)
	mu.Unlock()
	it, _ := db.NewIter(nil)
	n, keys := 0, ""
	for ok := it.First(); ok; ok = it.Next() {
		n++
		keys += string(it.Key())
	}
	it.Close()
	fmt.Printf("after excise (faults stopped): %d keys %q (want the 23 keys outside [m,p), or all 26 if Excise failed)\n", n, keys)
	fmt.Println("Close:", db.Close())
}

func must(err error) {
	if err != nil {
		panic(err)
	}
}
