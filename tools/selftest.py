#!/usr/bin/env python3
"""Runs the seeded self-test variants (all, or those of the given properties /
variant ids) and prints which rule instances fired. Exit 1 if any variant is MISSED."""
import concurrent.futures, os, sys
sys.path.insert(0, os.path.dirname(__file__))
import mutate, thorough

def main():
    sel = set(sys.argv[1:])
    vs = [v for v in thorough.load_variants() if not sel or v["property"] in sel or v["id"] in sel]
    def runv(v):
        code, out = mutate.run(v["property"], v["file"], v["old"], v["new"], count=v.get("count", 1))
        if code is None:
            return v, "stale", out
        fired = code == 1 and any(("rule=" + v["rule"]) in l for l in out.splitlines() if l.startswith("violation:"))
        return v, ("fired" if fired else "MISSED(exit %s)" % code), out
    bad = 0
    with concurrent.futures.ThreadPoolExecutor(max_workers=8) as ex:
        for v, st, out in ex.map(runv, vs):
            print("%-45s %-8s %s" % (v["id"], v["rule"], st))
            if st.startswith("MISSED"):
                bad += 1
                print("\n".join("    " + l[:300] for l in out.splitlines()[-8:]))
    print("variants=%d missed=%d" % (len(vs), bad))
    sys.exit(1 if bad else 0)

if __name__ == "__main__":
    main()
