#!/bin/bash
# usage: tryseed.sh <patch.diff> <prop>[,<prop>…]  — apply to /repo, run quick checks, revert
set -u
patch="$1"; props="$2"
cd /repo || exit 2
if [ -n "$(git status --porcelain)" ]; then echo "repo not clean"; exit 2; fi
git apply "$patch" || { echo "patch does not apply"; exit 2; }
for p in ${props//,/ }; do
  /verif/check.sh "$p" quick 2>&1 | grep -E "^(violation|VIOLATION|UNRESOLVED|property=)" | cut -c1-400
done
git checkout -- . && git status --porcelain | head -3
