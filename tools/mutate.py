#!/usr/bin/env python3
"""Run a property check against /repo with one file replaced through a
go/packages overlay (nothing is written to /repo).

usage: mutate.py PROP FILE OLD NEW [extra pebblevet args]
FILE is relative to /repo. OLD must occur exactly once in FILE.
"""
import json, os, subprocess, sys, tempfile

def run(prop, relfile, old, new, extra=(), quiet=False, count=1):
    src = open(os.path.join('/repo', relfile)).read()
    if src.count(old) != count:
        return None, 'stale: pattern occurs %d times (expected %d)' % (src.count(old), count)
    mutated = src.replace(old, new)
    with tempfile.TemporaryDirectory(prefix='pv-mut-') as td:
        mf = os.path.join(td, 'mutated.go')
        open(mf, 'w').write(mutated)
        ov = os.path.join(td, 'overlay.json')
        json.dump({os.path.join('/repo', relfile): mf}, open(ov, 'w'))
        cmd = ['/verif/bin/pebblevet', '-prop', prop, '-overlay', ov, '-evidence', ''] + list(extra)
        p = subprocess.run(cmd, capture_output=True, text=True)
        return p.returncode, p.stdout + p.stderr

if __name__ == '__main__':
    prop, relfile, old, new = sys.argv[1:5]
    old = old.encode().decode('unicode_escape'); new = new.encode().decode('unicode_escape')
    code, out = run(prop, relfile, old, new, sys.argv[5:])
    print(out)
    print('exit', code)
