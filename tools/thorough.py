#!/usr/bin/env python3
"""Thorough tier for one property.

1. Runs the property's rules over the WHOLE module (./...) under each build-tag
   set, one process per tag set (memory), against /repo's working tree.
2. Runs the property's seeded self-test variants (go/packages overlays, nothing
   is written to /repo): each variant breaks one rule instance and must be
   reported by that rule. Results are recorded in the evidence; a variant whose
   source pattern no longer occurs is reported as stale.
3. Merges everything into /verif/evidence/<id>.json (tier=thorough).

exit 0 held / 1 violation / 2 tooling failure.
"""
import concurrent.futures, json, os, subprocess, sys, tempfile, time

sys.path.insert(0, os.path.dirname(__file__))
import mutate

TAGSETS = ["", "invariants", "invariants,iterv2"]
BIN = "/verif/bin/pebblevet"


def load_variants():
    sys.path.insert(0, "/verif/selftest")
    try:
        import variants
        return variants.VARIANTS
    except ImportError:
        return []


def main():
    prop = sys.argv[1]
    t0 = time.time()
    seed = int(os.environ.get("VERIF_SEED", "0") or 0)
    runs = []
    exit_code = 0
    out_lines = []
    merged = None
    with tempfile.TemporaryDirectory(prefix="pv-thorough-") as td:
        def one(tags):
            evd = os.path.join(td, "ev-" + (tags.replace(",", "_") or "default"))
            cmd = [BIN, "-prop", prop, "-tier", "thorough", "-evidence", evd,
                   "-known", "/verif/known_findings.json"]
            if tags:
                cmd += ["-tags", tags]
            p = subprocess.run(cmd, capture_output=True, text=True)
            ev = None
            try:
                ev = json.load(open(os.path.join(evd, prop + ".json")))
            except Exception:
                pass
            return tags, p.returncode, p.stdout + p.stderr, ev
        with concurrent.futures.ThreadPoolExecutor(max_workers=3) as ex:
            results = list(ex.map(one, TAGSETS))
        for tags, code, out, ev in results:
            for line in out.splitlines():
                if line.startswith("VIOLATION "):
                    continue  # re-emitted once below
                out_lines.append(("[tags=%s] " % (tags or "default")) + line)
            if code == 1:
                exit_code = 1
            elif code != 0 and exit_code == 0:
                exit_code = 2
            runs.append({"tags": tags, "exit": code,
                         "obligations": (ev or {}).get("coverage", {}).get("obligations"),
                         "discharged": (ev or {}).get("coverage", {}).get("discharged"),
                         "violations": (ev or {}).get("violations")})
            if ev is not None and (merged is None or tags == ""):
                merged = ev
    # self-test variants
    variants = [v for v in load_variants() if v["property"] == prop]

    def runv(v):
        code, out = mutate.run(prop, v["file"], v["old"], v["new"], count=v.get("count", 1))
        if code is None:
            return {"id": v["id"], "status": "stale", "detail": out}
        fired = code == 1 and any(("rule=" + v["rule"]) in l for l in out.splitlines() if l.startswith("violation:"))
        return {"id": v["id"], "rule": v["rule"], "status": "fired" if fired else "MISSED", "exit": code}
    vres = []
    if variants:
        with concurrent.futures.ThreadPoolExecutor(max_workers=8) as ex:
            vres = list(ex.map(runv, variants))
    fired = sum(1 for r in vres if r["status"] == "fired")
    stale = sum(1 for r in vres if r["status"] == "stale")
    missed = [r for r in vres if r["status"] == "MISSED"]
    for r in missed:
        out_lines.append("WARNING selftest variant %s was not reported by rule %s" % (r["id"], r.get("rule")))
    print("\n".join(out_lines))
    if merged is None:
        print("UNRESOLVED property=%s no evidence produced" % prop)
        sys.exit(2)
    cov = merged["coverage"]
    cov["tag_runs"] = runs
    cov["obligations"] = sum((r["obligations"] or 0) for r in runs)
    cov["discharged"] = sum((r["discharged"] or 0) for r in runs)
    cov["selftest_variants_total"] = len(vres)
    cov["selftest_variants_fired"] = fired
    cov["selftest_variants_stale"] = stale
    cov["selftest_results"] = vres
    merged["tier"] = "thorough"
    merged["seed"] = seed
    merged["violations"] = sum((r["violations"] or 0) for r in runs)
    merged["wall_s"] = time.time() - t0
    os.makedirs("/verif/evidence", exist_ok=True)
    path = "/verif/evidence/%s.json" % prop
    json.dump(merged, open(path, "w"), indent=1)
    print("property=%s tier=thorough tagsets=%d obligations=%d discharged=%d selftest=%d/%d fired (%d stale) wall=%.1fs"
          % (prop, len(runs), cov["obligations"], cov["discharged"], fired, len(vres), stale, time.time() - t0))
    if exit_code == 1:
        print("VIOLATION property=%s replay=%s" % (prop, path))
    sys.exit(exit_code)


if __name__ == "__main__":
    main()
