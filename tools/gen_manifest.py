#!/usr/bin/env python3
"""Generates /verif/MANIFEST.json from the table below. The table is the single
place where a property's claim text lives; `pebblevet -list` decides which
properties have a registered check (anything else must be in NOT_APPLICABLE)."""
import json, os, subprocess, sys

ROOT = "/verif"

NOTE = "Trusts go/types + go/ssa (x/tools v0.29.0), the rule tables in /verif/checker/cmd/pebblevet/rules_*.go and the contracts of callees outside the rule (e.g. Sync makes prior writes durable). Path feasibility is not decided: declared bypass guards are explicit per instance (DESIGN.md section 4). Decides a structural NECESSARY condition of the property, not the behaviour itself."

NOT_APPLICABLE = {
    "C02": "Iterator positioning is a function of runtime keys/bounds and the iterPos / requiresReposition / limit state machine. The clauses that look structural (never outside the bounds, never another prefix in prefix mode) are enforced by comparisons inside that state machine; a rule for them would have to re-derive the algorithm (value-level). Bounds propagation to child iterators was looked at (Iterator.SetBounds) and found to be one straight-line sequence with no path on which a child is skipped; not claimed.",
    "C25": "SSTable round trip is value-level over runtime keys and writer options. The structural agreements between the writers and the readers that were found are decided under other ids (C27 checksums and cache tags, C28 codec tables, C26 filter feed, C15 recorded bounds); nothing further is claimed under C25.",
    "C32": "Span fragmentation coverage is a value-level algorithm on runtime spans.",
    "C35": "Comparer contracts quantify over all byte strings; needs a solver or exhaustive exploration, not static shape.",
}

PENDING_REASON = "check not built yet in this round; planned in DESIGN.md §4 (no claim is made until the rule is armed and self-tested)"


def main():
    props = [json.loads(l)["id"] for l in open(os.path.join(ROOT, "properties.jsonl"))]
    reg = subprocess.run([os.path.join(ROOT, "bin/pebblevet"), "-list"], capture_output=True, text=True).stdout.split()
    expl = json.loads(subprocess.run([os.path.join(ROOT, "bin/pebblevet"), "-explain"], capture_output=True, text=True).stdout)
    CLAIMS = {pid: (expl[pid]["technique"] or "repository-specific static analysis over go/ssa", expl[pid]["explanation"], NOTE, "DESIGN.md section 4 " + pid)
              for pid in expl if expl[pid]["explanation"]}
    checks = []
    na = []
    for pid in props:
        if pid in reg and pid in CLAIMS:
            tech, text, note, ref = CLAIMS[pid]
            checks.append({
                "property_id": pid,
                "quick_cmd": "./check.sh %s quick" % pid,
                "thorough_cmd": "./check.sh %s thorough" % pid,
                "evidence_file": "/verif/evidence/%s.json" % pid,
                "replay_cmd_template": "jq '.coverage.samples[] | select(.discharged==false)' {path}",
                "engine": "pebblevet",
                "level_claimed": {"category": "other", "text": text, "design_ref": ref},
                "level_note": note,
                "technique": tech,
            })
        elif pid in NOT_APPLICABLE:
            na.append({"property_id": pid, "reason": NOT_APPLICABLE[pid]})
        else:
            na.append({"property_id": pid, "reason": PENDING_REASON})
    baseline = json.load(open("/root/.vp/BASELINE.json"))["cmd"]
    m = {
        "version": 1,
        "setup_cmd": "./setup.sh",
        "hooks": {
            "guard": "verif",
            "enable": "none: static analysis reads /repo's source; no instrumentation is compiled into pebble (no file in /repo uses the verif tag)",
            "baseline_off_cmd": baseline,
            "source_commits": [],
            "add_only": True,
        },
        "engines": [{
            "name": "pebblevet",
            "path": "/verif/checker/cmd/pebblevet",
            "serves_properties": [c["property_id"] for c in checks],
            "kind_free_text": "repository-specific static analyser over go/packages + go/types + go/ssa (x/tools v0.29.0): must-facts dataflow (ordering, error gating, lock regions, guards), who-may-call/write, table/codec/keys agreement on the AST, error-result consumption, resource pairing",
        }],
        "checks": checks,
        "notes": "All checks are static: they re-load and type-check /repo's working tree on every run and never execute pebble. Exit 2 = tooling failure (anchor unresolved / type errors), never a VIOLATION line. Genuine defects found and repaired are listed in /verif/known_findings.json (status fixed) and DESIGN.md §6.",
        "not_applicable": na,
    }
    json.dump(m, open(os.path.join(ROOT, "MANIFEST.json"), "w"), indent=1)
    print("checks=%d not_applicable=%d" % (len(checks), len(na)))


if __name__ == "__main__":
    main()
