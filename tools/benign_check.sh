#!/bin/bash
# Applies each behaviour-preserving refactor set under /verif/benign/<set>/BENIGN.diff to a scratch
# worktree of /repo and runs every check on it: all of them must stay silent (no violation, no
# unresolved anchor). The sets were written by sub-agents that did not see /verif (A, B) or by hand (R).
# usage: benign_check.sh [set ...]
set -u
. /verif/env.sh
sets="${*:-$(ls /verif/benign)}"
rc=0
for s in $sets; do
  wt=/tmp/pv-benign-$s
  git -C /repo worktree remove --force $wt 2>/dev/null
  git -C /repo worktree add -q --detach $wt HEAD || exit 2
  if ! git -C $wt apply /verif/benign/$s/BENIGN.diff; then echo "set $s: patch does not apply at /repo HEAD"; rc=2; git -C /repo worktree remove --force $wt; continue; fi
  out=$(/verif/bin/pebblevet -prop all -repo $wt -evidence '' -known /verif/known_findings.json 2>&1)
  bad=$(echo "$out" | grep -E "^(violation|UNRESOLVED|panic)" | sed "s#$wt/##g")
  if [ -n "$bad" ]; then echo "set $s: FALSE ALARMS"; echo "$bad" | cut -c1-300; rc=1; else echo "set $s: silent ($(echo "$out" | grep -c '^property=') checks)"; fi
  git -C /repo worktree remove --force $wt
done
exit $rc
