#!/bin/bash
# usage: tryseed_wt.sh <patch.diff> <prop>[,<prop>…|all] — like tryseed.sh but in a scratch worktree
# (does not touch /repo's working tree or /verif/evidence; for use while other jobs read /repo).
set -u
patch="$1"; props="$2"
. /verif/env.sh
wt=/tmp/pv-try-$$
git -C /repo worktree add -q --detach $wt HEAD || exit 2
git -C $wt apply "$patch" || { echo "patch does not apply"; git -C /repo worktree remove --force $wt; exit 2; }
/verif/bin/pebblevet -prop "$props" -repo $wt -evidence '' -known /verif/known_findings.json 2>&1 | grep -E "^(violation|VIOLATION|UNRESOLVED|property=)" | sed "s#$wt/##g" | cut -c1-400
git -C /repo worktree remove --force $wt
