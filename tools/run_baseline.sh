#!/bin/bash
# Runs the pinned baseline test command (/root/.vp/BASELINE.json) against /repo's working tree and
# compares with the list of stable-passing tests. usage: run_baseline.sh [outfile]
out="${1:-/tmp/baseline_run.json}"
cmd=$(jq -r .cmd /root/.vp/BASELINE.json)
( eval "$cmd" ) > "$out" 2>/tmp/baseline_run.err
python3 - "$out" <<'PY'
import json, sys
base = json.load(open('/root/.vp/BASELINE.json'))
stable = set(base['stable_pass'])
res = {}
for line in open(sys.argv[1], errors='replace'):
    line = line.strip()
    if not line.startswith('{'):
        continue
    try:
        e = json.loads(line)
    except Exception:
        continue
    if e.get('Action') in ('pass', 'fail', 'skip') and e.get('Test'):
        res[e['Package'] + '::' + e['Test']] = e['Action']
def norm(k):
    return k
missing = [t for t in stable if t not in res]
failed = [t for t in stable if res.get(t) == 'fail']
passed = [t for t in stable if res.get(t) == 'pass']
print("stable=%d passed=%d failed=%d missing=%d" % (len(stable), len(passed), len(failed), len(missing)))
for t in sorted(failed)[:20]:
    print("FAILED", t)
for t in sorted(missing)[:10]:
    print("MISSING", t)
PY
