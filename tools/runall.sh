#!/bin/bash
# Runs every registered property's quick check (rewrites /verif/evidence/*.json) and prints a one-line summary each.
cd /verif
. ./env.sh
( cd checker && go build -o ../bin/pebblevet ./cmd/pebblevet ) || exit 2
python3 tools/gen_manifest.py
rc=0
for p in $(bin/pebblevet -list); do
  out=$(bin/pebblevet -prop $p -tier quick -evidence /verif/evidence -known /verif/known_findings.json 2>&1); code=$?
  echo "$out" | tail -1
  if [ $code != 0 ]; then rc=1; echo "$out" | grep -E "^(violation|UNRESOLVED|VIOLATION)" | head -5 | cut -c1-300; fi
done
exit $rc
