#!/bin/bash
# usage: verify_seed.sh <agent-worktree> <id>
# Confirms a sub-agent's seeded change in a FRESH scratch worktree of /repo and files it under /verif/seeded/<id>/.
#  1 patch applies at /repo HEAD and the module builds
#  2 demo fails with the patch
#  3 demo passes without the patch
#  4 the touched packages' existing tests pass with the patch (demo removed)
set -u
src="$1"; id="$2"
. /verif/env.sh
scratch=/tmp/vseed-$id
git -C /repo worktree remove --force $scratch 2>/dev/null
git -C /repo worktree add -q --detach $scratch HEAD || exit 2
mkdir -p $scratch/SEED && cp -r $src/SEED/. $scratch/SEED/
cd $scratch
demo_cmd=$(jq -r .demo_cmd SEED/meta.json)
if [ -n "${3:-}" ]; then demo_cmd="$3"; fi
echo "== demo_cmd: $demo_cmd"
res() { echo "== $1"; }
ok=1
git apply SEED/patch.diff || { res "patch does not apply"; ok=0; }
if [ $ok = 1 ]; then go build ./... 2>&1 | tail -5; [ ${PIPESTATUS[0]} = 0 ] || { res "build fails"; ok=0; }; fi
if [ $ok = 1 ]; then
  ( eval "$demo_cmd" ) > /tmp/vseed-$id.with.log 2>&1; w=$?
  res "demo with patch: exit $w (expect non-zero)"; tail -5 /tmp/vseed-$id.with.log
  git apply -R SEED/patch.diff
  ( eval "$demo_cmd" ) > /tmp/vseed-$id.without.log 2>&1; wo=$?
  res "demo without patch: exit $wo (expect 0)"; tail -3 /tmp/vseed-$id.without.log
  [ $w != 0 ] && [ $wo = 0 ] || ok=0
  # remove demo files (anything untracked outside SEED), re-apply, run touched packages' tests
  git clean -fdq -e SEED; git checkout -q -- .; git apply SEED/patch.diff
  pkgs=$(git diff --name-only | xargs -n1 dirname | sort -u | sed 's#^#./#' | tr '\n' ' ')
  res "testing touched packages: $pkgs"
  go test -count=1 -timeout 25m $pkgs > /tmp/vseed-$id.tests.log 2>&1; t=$?
  tail -5 /tmp/vseed-$id.tests.log
  res "tests exit $t (expect 0)"; [ $t = 0 ] || ok=0
fi
if [ $ok = 1 ]; then
  mkdir -p /verif/seeded/$id && cp -r SEED/. /verif/seeded/$id/
  jq --arg pk "$pkgs" --arg cmd "$demo_cmd" '. + {demo_cmd: $cmd, confirmed: {patch_applies_at: "/repo HEAD (with fix: commits)", build: "go build ./... ok", demo_with_patch: "fails", demo_without_patch: "passes", tests_with_patch: ("go test -count=1 " + $pk + " ok")}}' SEED/meta.json > /verif/seeded/$id/meta.json
  res "CONFIRMED -> /verif/seeded/$id"
else
  res "NOT CONFIRMED"
fi
cd /; git -C /repo worktree remove --force $scratch
